"""C20 - proofs are freshly blinded and committed values are masked.
Blinding.tla models prover randomness as a resource (every blinded element must depend on a symbol no earlier proof
used) and TLC checks freshness on all histories; each history (backend, circuit, statistical-ZK, 2-3 proofs of one
witness in one process) is replayed on the real provers: blinded elements are compared with the deterministic
commitments recomputed from the solved wire values and the proving key, and pairwise across the proofs."""
import vlib
from protocol_common import CURVES


def run(ctx):
    quick = ctx.tier == 'quick'
    ctx.rule = ('case = history of 2-3 proofs of one witness (backend x 9 circuits with 0-3 commitments x statistical ZK) on one curve; '
                'non-trivial = every history (>= 2 proofs compared)')
    ctx.assumptions += [
        'presence, freshness and non-degeneracy of the blinding terms are decided; statistical zero-knowledge itself is not',
        'deterministic parts recomputed: Groth16 Ar, Bs (MSM of the solved wires with pk.G1.A / pk.G2.B honouring the infinity bitmaps); PLONK L, R, O (KZG commitment of the unblinded wire vectors)',
    ]
    r = ctx.tlc('Blinding', 'Blinding.cfg', workers=1)
    behs = r.beh
    for i, b in enumerate(behs):
        b['id'] = i
    ctx.exhaustive = True
    curves = ['bn254', CURVES[1 + ctx.seed % 6]] if quick else CURVES
    for curve in curves:
        res = ctx.harness(['c20replay', '--curve', curve], behs, timeout=3600)
        if len(res) != len(behs):
            raise vlib.Infra('short C20 replay')
        for b, rr in zip(behs, res):
            ctx.case(key='%s %s %s %s %d' % (curve, b['backend'], b['shape'], b['statZK'], b['n']), nontrivial=True)
            ctx.traces += 1
            ctx.extra['element_comparisons'] = ctx.extra.get('element_comparisons', 0) + rr['checked']
            for pb in rr['problems'] or []:
                if pb.startswith('INFRA'):
                    raise vlib.Infra('C20 replay %s %s: %s' % (curve, b, pb))
                import re
                ctx.report('%s circuit=%s statZK=%s: %s' % (b['backend'], b['shape'], b['statZK'], re.sub(r'\d+', 'N', pb)), {'curve': curve, 'history': b, 'problem': pb})
    ctx.sample(behs[0])
    ctx.sample(behs[-1])
