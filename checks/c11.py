"""C11 - compilation is deterministic.
(1) extracted model: every range-over-map site on the compile path is extracted from /repo's current sources,
    classified, and CompileDet.tla is model-checked (two-run self-composition) with those site classes;
(2) trace validation: every corpus circuit is compiled repeatedly (sequential, parallel goroutines, interleaved
    with other circuits, two separate processes, several fields) and the history of digests is validated by TLC
    against CompileDetTrace.tla."""
import json, os
import vlib


def run(ctx):
    quick = ctx.tier == 'quick'
    ctx.rule = ('one case = one compilation of a corpus circuit (13 feature families x 2 builders x fields) in one of the modes '
                'seq / parallel / interleaved / other process; non-trivial = a repeated compilation whose digest is compared with the first')
    ctx.assumptions += [
        'determinism is decided on the serialized bytes of the compiled system (WriteTo), which contain wires, constraints, coefficients, commitments, levels',
        'a single order-sensitive map range with >= 2 keys differs between two runs with probability >= 1/2 per pair; K repeated runs make a miss unlikely, not impossible',
    ]
    # ---- (1) extracted site classes
    sites = ctx.harness(['maprange', '--repo', vlib.REPO], timeout=900)
    table = json.load(open(os.path.join(vlib.SPECS, 'compiledet_sites.json')))
    names, classes, unreviewed, sensitive = [], {}, [], []
    for i, s in enumerate(sites):
        name = 's%d' % i
        t = table.get(s['hash'])
        cls = t['class'] if t else s['heur']
        if not t:
            unreviewed.append({'file': s['file'], 'line': s['line'], 'func': s['func'], 'heuristic': s['heur']})
        names.append(name)
        classes[name] = cls
        s['name'], s['class'] = name, cls
        if cls == 'sensitive':
            sensitive.append(s)
    if not names:
        names, classes = ['none'], {'none': 'sorted'}
    case = ' [] '.join('s = "%s" -> "%s"' % (n, classes[n]) for n in names)
    mc = ('---- MODULE CompileDetMC ----\nEXTENDS CompileDet\n'
          'MCSites == {%s}\nMCSiteClass == [s \\in MCSites |-> CASE %s]\n====\n') % (
              ', '.join('"%s"' % n for n in names), case)
    cfg = ('SPECIFICATION Spec\nCONSTANTS\n  Sites <- MCSites\n  SiteClass <- MCSiteClass\n  Keys = {1, 2}\n'
           'INVARIANT Deterministic\nCHECK_DEADLOCK FALSE\n')
    r = ctx.tlc('CompileDetMC', 'CompileDetMC.cfg', extra_files={'CompileDetMC.tla': mc, 'CompileDetMC.cfg': cfg},
                expect=('ok', 'invariant'), workers=8, timeout=1200)
    ctx.extra['map_range_sites'] = [{k: s[k] for k in ('file', 'line', 'func', 'class', 'hash')} for s in sites]
    ctx.extra['unreviewed_sites'] = unreviewed
    ctx.extra['model_verdict'] = 'deterministic' if r.status == 'ok' else 'order-sensitive site(s): lead, decided by the recorded compilations'
    # ---- (2) recorded compilations validated by TLC
    # every process compiles over several fields one after the other; the two processes use opposite orders, so a
    # compilation that depends on what was compiled before (caches keyed too coarsely, global counters) shows up as
    # a digest that differs between the processes
    fields = ['bn254', 'bw6-761', 'tinyfield'] if quick else ['bn254', 'bls12-377', 'bw6-761', 'bls24-315', 'tinyfield', 'koalabear']
    k = 8 if quick else 24
    events = []
    for proc, order in enumerate((fields, list(reversed(fields)))):
        recs = ctx.harness(['compiledet', '--field', ','.join(order), '--k', str(k), '--par', '8' if quick else '16',
                            '--kmany', '240' if quick else '1200'], timeout=3600)
        for e in recs:
            e['proc'] = proc
        events += recs
    errs = [e for e in events if e.get('err')]
    if errs:
        # a corpus circuit that does not compile: the corpus (or an API it uses) is out of date -> not a verdict
        raise vlib.Infra('corpus circuit failed to compile: %s' % json.dumps(errs[0])[:600])
    trace = ''.join(json.dumps(e) + '\n' for e in events)
    t = ctx.tlc('CompileDetTrace', 'CompileDetTrace.cfg', extra_files={'compiledet_trace.ndjson': trace},
                workers=1, expect=('ok', 'postcondition', 'error'), timeout=900)
    accepted = t.status == 'ok'
    digests = {}
    for e in events:
        key = (e['circuit'], e['builder'], e['field'])
        digests.setdefault(key, {}).setdefault(e['digest'], []).append((e['mode'], e['run'], e['proc']))
        ctx.case(key='%s/%s/%s/%s/%d/%d' % (key + (e['mode'], e['run'], e['proc'])), nontrivial=not (e['mode'] == 'seq' and e['run'] == 0 and e['proc'] == 0))
    bad = {k: v for k, v in digests.items() if len(v) > 1}
    if accepted and bad:
        raise vlib.Infra('TLC accepted a trace with differing digests: trace spec out of date')
    if not accepted and not bad:
        raise vlib.Infra('TLC rejected the trace but all digests agree:\n' + '\n'.join(t.output.splitlines()[-30:]))
    ctx.traces += 1
    for key, v in sorted(bad.items()):
        # confirm on a fresh process before reporting
        recs = ctx.harness(['compiledet', '--field', ','.join(fields), '--circuit', key[0], '--k', '16', '--par', '8', '--kmany', '400'], timeout=900)
        again = {e['digest'] for e in recs if e['builder'] == key[1] and e['field'] == key[2]}
        again |= set(v.keys())
        if len(again) > 1:
            ctx.report('nondeterministic compilation circuit=%s builder=%s' % (key[0], key[1]),
                       {'circuit': key[0], 'builder': key[1], 'field': key[2],
                        'digests': {d: runs[:4] for d, runs in v.items()},
                        'order_sensitive_sites_in_model': [{k2: s[k2] for k2 in ('file', 'line', 'func')} for s in sensitive]})
    ctx.extra['compilations'] = len(events)
    ctx.extra['fields'] = fields
    ctx.extra['distinct_systems'] = len(digests)
    ctx.sample(events[0])
    ctx.sample(events[len(events) // 2])
