"""C06 - the solver returns only satisfying assignments and fails only on a violated constraint.
(1) LevelBuilder.tla: transcription of the level assignment model-checked; the levels, reads and writes of real
    compiled systems (observed through the blueprints' own tree callbacks) validated against LevelsSound;
(2) every solution the real solver hands to a backend (captured at the PostSolve hook, corpus circuits with hints,
    lookups, commitments on several curves) and every solution of the TLC-generated programs over F_47 is checked
    against the independently exported rows (SolutionOK); solve failures are compared with ApiSemantics;
(3) SolverTrace.tla: scheduling traces recorded through the solver hooks validated by TLC (barrier, single
    execution, single assignment, completeness)."""
import json
import vlib
from prog_common import gen_programs, judge_prog, prog_str
from protocol_common import CURVES

C06_CLASSES = {
    'returned solution is not a satisfying assignment',
    'solver panic',
    'solve succeeds although an assertion is violated',
    'solve fails although every assertion holds',
}


def sys_tla(lv):
    return '[nbInputs |-> %d, nbWires |-> %d, instrs |-> <<%s>>, levels |-> %s]' % (
        lv['nbInputs'], lv['nbWires'],
        ', '.join('[reads |-> {%s}, writes |-> {%s}]' % (', '.join(map(str, i['reads'])), ', '.join(map(str, i['writes']))) for i in lv['instrs']),
        vlib.tla(lv['levels']))


def run(ctx):
    quick = ctx.tier == 'quick'
    ctx.rule = ('case = (program or corpus circuit, builder, field, witness, task count): its solution / failure, its instruction levels and its '
                'scheduling trace; non-trivial = a solve that succeeded and whose solution was re-evaluated on the exported rows')
    ctx.assumptions += [
        'rows are exported through the public GetR1Cs / GetSparseR1Cs API with resolved coefficients; SolutionOK re-evaluates them with math/big',
        'instruction reads/writes are observed through Blueprint.UpdateInstructionTree; for the stateful lookup blueprint the level it recomputes is not compared (its cache is warm)',
    ]
    ctx.tlc('LevelBuilderMC', 'LevelBuilder.cfg', workers=8)
    # ---- programs over F_47: every solution checked
    behs, _ = gen_programs(ctx, True)
    sub = behs if not quick else behs[:4025 + 1615] + behs[-900:]
    res = ctx.harness(['progrun', '--field', 'tinyfield', '--par', '16', '--checkevery', '1'], sub, timeout=7200)
    judge_prog(ctx, sub, res, C06_CLASSES, 'tinyfield')
    lv = ctx.harness(['levelcheck', '--field', 'tinyfield', '--par', '16'], sub, timeout=3600)
    small_systems = []
    for r in lv:
        ctx.case(key='levels ' + r['name'], nontrivial=True)
        for pb in r['problems'] or []:
            if pb.startswith('INFRA'):
                raise vlib.Infra(pb)
            ctx.report('instruction levels unsound: %s' % vlib_digits(pb), {'system': r['name'], 'problem': pb})
        if r['small'] and r['instrs'] and len(small_systems) < (60 if quick else 600):
            small_systems.append(r)
    # ---- corpus circuits through the real provers
    curves = ['bn254', CURVES[1 + ctx.seed % 6]] if quick else CURVES
    pairs = []
    for curve in curves:
        recs = ctx.harness(['c06corpus', '--curve', curve], timeout=3600, crash_ok=True)
        if ctx.last_crash:
            ctx.report('solving a corpus circuit crashed the process: %s' % vlib_digits(ctx.last_crash), {'curve': curve, 'crash': ctx.last_crash})
        for r in recs:
            ctx.case(key='corpus %s %s %s' % (curve, r['circuit'], r['system']), nontrivial=r['solutions'] > 0)
            ctx.traces += r['solutions']
            for pb in (r['problems'] or []) + (r['levels']['problems'] or []):
                if pb.startswith('INFRA'):
                    raise vlib.Infra('%s %s: %s' % (r['circuit'], r['system'], pb))
                ctx.report('solver/levels (%s %s): %s' % (r['circuit'], r['system'], vlib_digits(pb)), {'curve': curve, 'problem': pb})
            if r['levels']['small'] and r['levels']['instrs']:
                small_systems.append(r['levels'])
                if r.get('trace') and len(pairs) < (12 if quick else 60):
                    pairs.append((r['levels'], r['trace']))
    # ---- TLC validates the recorded systems and traces
    if small_systems:
        mc = '---- MODULE LevelBuilderRec ----\nEXTENDS LevelBuilder\nRec == {\n  %s\n}\n====\n' % ',\n  '.join(sys_tla(s) for s in small_systems)
        cfg = 'SPECIFICATION Spec\nCONSTANTS\n  MaxInstr = 0\n  MaxInternal = 0\n  Recorded <- Rec\nINVARIANT RecordedSound\nCHECK_DEADLOCK FALSE\n'
        t = ctx.tlc('LevelBuilderRec', 'LevelBuilderRec.cfg', extra_files={'LevelBuilderRec.tla': mc, 'LevelBuilderRec.cfg': cfg},
                    workers=4, expect=('ok', 'invariant'), timeout=1800)
        ctx.traces += len(small_systems)
        if t.status != 'ok':
            ctx.report('recorded instruction levels rejected by LevelBuilder.tla', {'tlc': t.output.splitlines()[-30:]})
    if pairs:
        items = ['[sys |-> %s, trace |-> <<%s>>]' % (sys_tla(s), ', '.join('[e |-> "%s", a |-> %d]' % (e['e'], e['a']) for e in tr)) for s, tr in pairs]
        mc = '---- MODULE SolverTraceRec ----\nEXTENDS SolverTrace\nRecPairs == <<\n  %s\n>>\n====\n' % ',\n  '.join(items)
        cfg = 'SPECIFICATION Spec\nCONSTANTS\n  Pairs <- RecPairs\nINVARIANT Complete\n'
        t = ctx.tlc('SolverTraceRec', 'SolverTraceRec.cfg', extra_files={'SolverTraceRec.tla': mc, 'SolverTraceRec.cfg': cfg},
                    workers=1, expect=('ok', 'invariant', 'deadlock'), timeout=1800)
        ctx.traces += len(pairs)
        if t.status != 'ok':
            ctx.report('recorded solver schedule rejected by SolverTrace.tla (%s)' % t.status, {'tlc': t.output.splitlines()[-40:]})
    ctx.extra['small_systems_validated_by_tlc'] = len(small_systems)
    ctx.extra['traces_validated_by_tlc'] = len(pairs)
    ctx.sample({'program': prog_str(sub[7]['prog'])})
    if pairs:
        ctx.sample({'levels': pairs[0][0]['levels'], 'trace': pairs[0][1][:12]})


def vlib_digits(s):
    import re
    return re.sub(r'\d+', 'N', s)[:150]
