"""C16 - curve and signature gadgets match native results, exceptional cases included.
CurveOps.tla names points by their discrete logarithm and scalars by small integers or their distance from the group
order, computes the group law on names and states each method's documented domain (incomplete addition, scalar
multiplication without / with the complete-arithmetic option, joint and multi scalar multiplication); TLC checks the
domain rules for consistency and enumerates method x operands x scalar class x option.  Every in-domain case is
replayed on the real gadgets (short Weierstrass curves over emulated fields: secp256k1, BN254, BLS12-381, BW6-761,
P-256, P-384; the native twisted Edwards companion of BN254) and compared with the native [expected]G; [expected+1]G must
be rejected.  Cases that can hang the decomposition hints are run one per process under a timeout.
ToySig.tla writes ECDSA and EdDSA out over toy groups (every key, nonce, message enumerated by TLC) and decides, per edit
class of a genuine signature (s -> n-s, zero / incremented / swapped components, other message, other key, non-canonical
S), whether it must be accepted; every class is replayed on the real signature gadgets and the native libraries."""
import json
import os
import subprocess
import tempfile
import concurrent.futures
import vlib

FAMILIES_QUICK = ['secp256k1', 'tedwards-bn254', 'bls12377-g1', 'bls12377-g2']
FAMILIES = ['secp256k1', 'bn254', 'bls12381', 'bw6761', 'p256', 'p384', 'tedwards-bn254', 'bls12377-g1', 'bls12377-g2']


def desc(c):
    opt = 'complete' if c['complete'] else 'default'
    return '%s[%s] P=[%d]G Q=[%d]G s=%s t=%s' % (c['op'], opt, c['p'], c['q'], c['s'], c['t'])


def sig(c):
    opt = 'complete' if c['complete'] else 'default'
    if c['op'] in ('ScalarMul', 'ScalarMulBase'):
        return '%s[%s] s=%s' % (c['op'], opt, c['s'])
    if c['op'] in ('Add', 'AddUnified'):
        rel = 'P=Q' if c['p'] == c['q'] else 'P=-Q' if c['p'] == -c['q'] else 'generic'
        inf = ' with infinity' if 0 in (c['p'], c['q']) else ''
        return '%s %s%s' % (c['op'], rel, inf)
    return '%s[%s] s=%s t=%s' % (c['op'], opt, c['s'], c['t'])


def hang_prone(c):
    return c['op'] in ('ScalarMul', 'ScalarMulBase') and not c['complete'] and c['s'] == 'r-1'


def run_single(ctx, fam, c, timeout=60):
    d = tempfile.mkdtemp(prefix='c16', dir=ctx.scratch)
    inp, outp = os.path.join(d, 'in.ndjson'), os.path.join(d, 'out.ndjson')
    open(inp, 'w').write(json.dumps(c) + '\n')
    try:
        p = subprocess.run([vlib.build_harness(), 'curvereplay', '--family', fam, '--in', inp, '--out', outp, '--par', '1'],
                           stdout=subprocess.PIPE, stderr=subprocess.STDOUT, timeout=timeout, env=dict(vlib.GOENV, GOMAXPROCS='2'))
    except subprocess.TimeoutExpired:
        return 'hang'
    if p.returncode != 0 or not os.path.exists(outp):
        raise vlib.Infra('curvereplay single case failed: %s' % p.stdout.decode()[-300:])
    return json.loads(open(outp).readline())


def run(ctx):
    quick = ctx.tier == 'quick'
    ctx.rule = ('case = (method, option, operand names, scalar classes) on one curve family; '
                'non-trivial = an exceptional operand (infinity, P=+-Q, scalar 0, +-1, r, r+1) is involved')
    ctx.assumptions += [
        'points are small multiples of the generator and their opposites; scalars are 0..3, r-1, r, r+1 (r and r+1 as non-canonical limbs)',
        'outside a method\'s documented domain the result is unspecified and the case is not judged',
        'the test engine evaluates the gadget code on the BN254 scalar field',
        'signatures: the edit classes of ToySig.tla on ECDSA (secp256k1, P-256, P-384) and EdDSA (BN254, BLS12-381, BLS12-377, BW6-761 companions; the low-order-commitment class on BN254); non-canonical ECDSA components are not expressible as gadget witnesses',
        'dishonest hints: the decomposition / result hints of ScalarMul (native twisted Edwards, emulated short Weierstrass with complete arithmetic) replaced by the strategies of FakeGLV.tla, through the real Groth16 prover',
        'native two-chain gadget sw_bls12377: G1 through the algebra.Curve interface, G2 point methods (Add, AddUnified, Double, Neg), over BW6-761',
        'pairing checks: only the zero-residue-witness strategy against sw_bls12377.PairingCheck and sw_bls12381.AssertFinalExponentiationIsOne; pairing values themselves are not covered; of the EVM precompile wrappers only ECRECOVER (hinted public key tampered) is exercised',
    ]
    r = ctx.tlc('CurveOps', 'CurveOps.cfg', workers=1, timeout=900)
    cases = r.beh
    if len(cases) < 400:
        raise vlib.Infra('CurveOps produced %d cases' % len(cases))
    for i, c in enumerate(cases):
        c['id'] = i
    ctx.exhaustive = True
    for fam in (FAMILIES_QUICK if quick else FAMILIES):
        te = fam.startswith('tedwards')
        todo = [c for c in cases if te or c['exp']['def']]
        slow = [] if te else [c for c in todo if hang_prone(c)]
        # representatives of the hang-prone class first, one per process
        reps = slow[:2]
        hung = False
        with concurrent.futures.ThreadPoolExecutor(4) as ex:
            for c, rr in zip(reps, ex.map(lambda c: run_single(ctx, fam, c), reps)):
                ctx.case(key='%s %s' % (fam, desc(c)), nontrivial=True)
                ctx.traces += 1
                if rr == 'hang':
                    hung = True
                    ctx.report('curve gadget %s %s: the solver does not return (decomposition hint does not terminate)' % (fam, sig(c)), {'family': fam, 'case': c})
                else:
                    judge(ctx, fam, c, rr)
        main = [c for c in todo if not (hung and hang_prone(c)) and c not in reps]
        res = ctx.harness(['curvereplay', '--family', fam, '--par', '16'], main, timeout=7200)
        if len(res) != len(main):
            raise vlib.Infra('short curve replay')
        byid = {c['id']: c for c in main}
        for rr in res:
            c = byid[rr['id']]
            if rr.get('skipped'):
                continue
            ctx.case(key='%s %s' % (fam, desc(c)), nontrivial=c['p'] == 0 or c['q'] == 0 or c['s'] not in ('2', '3'))
            ctx.traces += rr['runs']
            judge(ctx, fam, c, rr)
    special_points(ctx)
    signatures(ctx, quick)
    hint_adversaries(ctx, quick)
    ctx.sample(cases[5])
    ctx.sample(cases[300])


def special_points(ctx):
    """CurveSpecial.tla: points with a zero coordinate (P-256: Z = (0, sqrt b)) against the (0,0) encoding of infinity."""
    r = ctx.tlc('CurveSpecial', 'CurveSpecial.cfg', workers=1, timeout=300)
    cases = r.beh
    if len(cases) < 40:
        raise vlib.Infra('CurveSpecial produced %d cases' % len(cases))
    for i, c in enumerate(cases):
        c['id'] = i
    res = ctx.harness(['curvespecial', '--par', '16'], cases, timeout=3600)
    if len(res) != len(cases):
        raise vlib.Infra('short special-point replay')
    ran = 0
    for rr in res:
        c = cases[rr['id']]
        if rr.get('skipped'):
            continue
        ran += 1
        name = 'p256 %s P=[%d]G+[%d]Z Q=[%d]G+[%d]Z' % (c['op'], c['pg'], c['pz'], c['qg'], c['qz'])
        ctx.case(key=name, nontrivial=True)
        ctx.traces += rr['runs']
        for p in rr['problems'] or []:
            import re
            kind = re.sub(r'\d{3,}', 'N', ':'.join(p.split(':')[:2]))[:100]
            ctx.report('curve gadget p256 zero-coordinate point %s: %s' % (c['op'], kind.strip()), {'case': c, 'problem': p})
    if ran < 30:
        raise vlib.Infra('only %d special-point cases ran' % ran)


def hint_adversaries(ctx, quick):
    """FakeGLV.tla: what the in-circuit checks of a hinted scalar multiplication bind when the prover chooses every hint
    output (three designs: relation checked in the native field with a free k / modulo the group order / with a special-case
    bypass derived from the hinted point); the winning strategies TLC finds are replayed on the real gadgets through the
    real Groth16 prover and verifier."""
    r = ctx.tlc('FakeGLV', 'FakeGLV.cfg', workers=1, timeout=600)
    designs = {x['design']: x for x in r.beh}
    if set(designs) != {'native', 'modL', 'bypass'} or not designs['modL']['sound']:
        raise vlib.Infra('FakeGLV.tla: unexpected designs %s' % designs)
    cases = []

    def add(gadget, strategy, scalar, claim, expect):
        cases.append({'id': len(cases), 'gadget': gadget, 'strategy': strategy, 'scalar': scalar, 'claim': claim, 'expect': expect})
    sws = ['sw-secp256k1', 'sw-p256'] if quick else ['sw-secp256k1', 'sw-p256', 'sw-bn254', 'sw-bls12381', 'sw-p384']
    for sc in (['3'] if quick else ['3', '2', 'r-1', 'r+1']):
        add('te-bn254', 'honest', sc, 'right', 'satisfiable')
        add('te-bn254', 'honest', sc, 'wrong', 'unsatisfiable')
        add('te-bn254', 'zeroDecomp', sc, 'wrong', 'unsatisfiable')
        add('te-bn254', 'unitDecomp', sc, 'wrong', 'unsatisfiable')
    for g in sws:
        add(g, 'honest', '2', 'right', 'satisfiable')
        add(g, 'honest', '2', 'wrong', 'unsatisfiable')
        add(g, 'honest', '0', 'right', 'satisfiable')
        add(g, 'zeroScalarResult', '0', 'wrong', 'unsatisfiable')
        add(g, 'zeroScalarResult', '2', 'wrong', 'unsatisfiable')
        add(g, 'unitResult', '2', 'wrong', 'unsatisfiable')
        if not quick:
            add(g, 'zeroScalarResult', 'r', 'wrong', 'unsatisfiable')
            add(g, 'unitResult', 'r-1', 'wrong', 'unsatisfiable')
    # two GLV decompositions shifted against each other (FakeGLV.tla, joint section)
    for g in (['joint-secp256k1'] if quick else ['joint-secp256k1', 'joint-bn254']):
        add(g, 'honest', '1', 'right', 'satisfiable')
        add(g, 'honest', '1', 'wrong', 'unsatisfiable')
        add(g, 'shiftDecomp', '1', 'wrong', 'unsatisfiable')
    # the hinted residue witness of the pairing checks (FakeGLV.tla, residue section): the zero strategy
    for g in ('pairing-bls12377', 'finalexp-bls12381'):
        add(g, 'honest', '1', 'right', 'satisfiable')
        add(g, 'honest', '1', 'wrong', 'unsatisfiable')
        add(g, 'zeroWitness', '1', 'wrong', 'unsatisfiable')
    # the ECRECOVER precompile gadget takes the recovered key from a hint and re-derives it
    add('ecrecover', 'honest', '1', 'right', 'satisfiable')
    add('ecrecover', 'honest', '1', 'wrong', 'unsatisfiable')
    add('ecrecover', 'tamperY', '1', 'wrong', 'unsatisfiable')
    add('ecrecover', 'tamperX', '1', 'wrong', 'unsatisfiable')
    res = ctx.harness(['curvehints', '--par', '12'], cases, timeout=3600)
    if len(res) != len(cases):
        raise vlib.Infra('short hint-adversary replay')
    ok_honest = 0
    for rr in res:
        c = cases[rr['id']]
        if rr.get('err'):
            raise vlib.Infra('hint adversary %s: %s' % (c, rr['err']))
        name = 'hinted gadget %s strategy=%s scalar=%s claim=%s' % (c['gadget'], c['strategy'], c['scalar'], c['claim'])
        ctx.case(key=name, nontrivial=c['strategy'] != 'honest' or c['scalar'] not in ('2', '3'))
        ctx.traces += 1
        if c['strategy'] == 'honest':
            if rr['solve'] != c['expect'] or (c['expect'] == 'satisfiable' and rr.get('proof') != 'verifies'):
                # the honest baseline must behave, otherwise the adversarial runs say nothing
                raise vlib.Infra('honest baseline broken: %s -> %s' % (name, rr))
            ok_honest += 1
        elif rr['solve'] == 'satisfiable' and rr.get('proof') == 'verifies':
            ctx.report('hinted gadget %s strategy=%s scalar=%s: a wrong statement is provable (the Groth16 proof verifies / the compiled system is satisfied)'
                       % (c['gadget'], c['strategy'], c['scalar']), {'case': c, 'result': rr, 'model': designs})
    if ok_honest < 4:
        raise vlib.Infra('honest baselines: %d' % ok_honest)
    ctx.extra['hint_adversary_cases'] = len(cases)


ECDSA_FAMILIES = ['secp256k1', 'p256', 'p384']
EDDSA_FAMILIES = ['bn254', 'bls12-381', 'bls12-377', 'bw6-761']


def signatures(ctx, quick):
    """ToySig.tla: ECDSA / EdDSA over toy groups, every key x nonce x message enumerated by TLC, decides per edit class
    whether the edited signature must be accepted; the classes are replayed on the real gadgets and on the native library."""
    r = ctx.tlc('ToySig', 'ToySig.cfg', workers=1, timeout=600)
    rows = r.beh
    if len(rows) < 15 or not all(x['expect'] in ('accept', 'reject') for x in rows):
        raise vlib.Infra('ToySig produced %d rows' % len(rows))
    if not any(x['class'] == 'sNeg' and x['expect'] == 'accept' for x in rows):
        raise vlib.Infra('ToySig: the (r, n-s) class is missing')
    seeds = 2 if quick else 8
    cases = []
    for x in rows:
        fams = ECDSA_FAMILIES if x['scheme'] == 'ecdsa' else EDDSA_FAMILIES
        if quick:
            fams = fams[:2]
        for fam in fams:
            for k in range(seeds):
                cases.append({'id': len(cases), 'scheme': x['scheme'], 'family': fam, 'class': x['class'], 'expect': x['expect'],
                              'seed': ctx.seed * 1000 + k})
    res = ctx.harness(['sigreplay', '--par', '16'], cases, timeout=3600)
    if len(res) != len(cases):
        raise vlib.Infra('short signature replay')
    judged = 0
    for rr in res:
        c = cases[rr['id']]
        if (rr.get('err') or '').startswith('INFRA'):
            raise vlib.Infra(rr['err'])
        if rr['native'] == 'inexpressible':
            continue
        judged += 1
        name = '%s %s class=%s' % (c['scheme'], c['family'], c['class'])
        ctx.case(key=name + ' seed=%d' % c['seed'], nontrivial=c['class'] != 'genuine')
        ctx.traces += 1
        if rr['native'] != c['expect']:
            # the oracle disagrees with the specification: not a statement about the gadget
            raise vlib.Infra('native library and ToySig.tla disagree on %s: %s vs %s' % (name, rr['native'], c['expect']))
        if rr['circuit'] != rr['native']:
            ctx.report('signature gadget %s: native verifier %ss, in-circuit verifier %ss' % (name, rr['native'], rr['circuit']),
                       {'case': c, 'result': rr})
    if judged < len(cases) // 2:
        raise vlib.Infra('only %d signature cases judged' % judged)
    ctx.extra['signature_cases_judged'] = judged


def judge(ctx, fam, c, rr):
    for p in rr['problems'] or []:
        if p.startswith('INFRA'):
            raise vlib.Infra(p)
        import re
        kind = re.sub(r'\d{3,}', 'N', ':'.join(p.split(':')[:3]))[:110]
        ctx.report('curve gadget %s %s: %s' % (fam, sig(c), kind.strip()), {'family': fam, 'case': c, 'problem': p})
