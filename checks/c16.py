"""C16 - curve and signature gadgets match native results, exceptional cases included.
CurveOps.tla names points by their discrete logarithm and scalars by small integers or their distance from the group
order, computes the group law on names and states each method's documented domain (incomplete addition, scalar
multiplication without / with the complete-arithmetic option, joint and multi scalar multiplication); TLC checks the
domain rules for consistency and enumerates method x operands x scalar class x option.  Every in-domain case is
replayed on the real gadgets (short Weierstrass curves over emulated fields: secp256k1, BN254, BLS12-381, BW6-761,
P-256, P-384; the native twisted Edwards companion of BN254) and compared with the native [expected]G; [expected+1]G must
be rejected.  Cases that can hang the decomposition hints are run one per process under a timeout."""
import json
import os
import subprocess
import tempfile
import concurrent.futures
import vlib

FAMILIES_QUICK = ['secp256k1', 'tedwards-bn254']
FAMILIES = ['secp256k1', 'bn254', 'bls12381', 'bw6761', 'p256', 'p384', 'tedwards-bn254']


def desc(c):
    opt = 'complete' if c['complete'] else 'default'
    return '%s[%s] P=[%d]G Q=[%d]G s=%s t=%s' % (c['op'], opt, c['p'], c['q'], c['s'], c['t'])


def sig(c):
    opt = 'complete' if c['complete'] else 'default'
    if c['op'] in ('ScalarMul', 'ScalarMulBase'):
        return '%s[%s] s=%s' % (c['op'], opt, c['s'])
    if c['op'] in ('Add', 'AddUnified'):
        rel = 'P=Q' if c['p'] == c['q'] else 'P=-Q' if c['p'] == -c['q'] else 'generic'
        inf = ' with infinity' if 0 in (c['p'], c['q']) else ''
        return '%s %s%s' % (c['op'], rel, inf)
    return '%s[%s] s=%s t=%s' % (c['op'], opt, c['s'], c['t'])


def hang_prone(c):
    return c['op'] in ('ScalarMul', 'ScalarMulBase') and not c['complete'] and c['s'] == 'r-1'


def run_single(ctx, fam, c, timeout=60):
    d = tempfile.mkdtemp(prefix='c16', dir=ctx.scratch)
    inp, outp = os.path.join(d, 'in.ndjson'), os.path.join(d, 'out.ndjson')
    open(inp, 'w').write(json.dumps(c) + '\n')
    try:
        p = subprocess.run([vlib.build_harness(), 'curvereplay', '--family', fam, '--in', inp, '--out', outp, '--par', '1'],
                           stdout=subprocess.PIPE, stderr=subprocess.STDOUT, timeout=timeout, env=dict(vlib.GOENV, GOMAXPROCS='2'))
    except subprocess.TimeoutExpired:
        return 'hang'
    if p.returncode != 0 or not os.path.exists(outp):
        raise vlib.Infra('curvereplay single case failed: %s' % p.stdout.decode()[-300:])
    return json.loads(open(outp).readline())


def run(ctx):
    quick = ctx.tier == 'quick'
    ctx.rule = ('case = (method, option, operand names, scalar classes) on one curve family; '
                'non-trivial = an exceptional operand (infinity, P=+-Q, scalar 0, +-1, r, r+1) is involved')
    ctx.assumptions += [
        'points are small multiples of the generator and their opposites; scalars are 0..3, r-1, r, r+1 (r and r+1 as non-canonical limbs)',
        'outside a method\'s documented domain the result is unspecified and the case is not judged',
        'the test engine evaluates the gadget code on the BN254 scalar field',
        'not covered: pairings, ECDSA / EdDSA and the EVM precompile wrappers (see DESIGN.md 11.2)',
    ]
    r = ctx.tlc('CurveOps', 'CurveOps.cfg', workers=1, timeout=900)
    cases = r.beh
    if len(cases) < 400:
        raise vlib.Infra('CurveOps produced %d cases' % len(cases))
    for i, c in enumerate(cases):
        c['id'] = i
    ctx.exhaustive = True
    for fam in (FAMILIES_QUICK if quick else FAMILIES):
        te = fam.startswith('tedwards')
        todo = [c for c in cases if te or c['exp']['def']]
        slow = [] if te else [c for c in todo if hang_prone(c)]
        # representatives of the hang-prone class first, one per process
        reps = slow[:2]
        hung = False
        with concurrent.futures.ThreadPoolExecutor(4) as ex:
            for c, rr in zip(reps, ex.map(lambda c: run_single(ctx, fam, c), reps)):
                ctx.case(key='%s %s' % (fam, desc(c)), nontrivial=True)
                ctx.traces += 1
                if rr == 'hang':
                    hung = True
                    ctx.report('curve gadget %s %s: the solver does not return (decomposition hint does not terminate)' % (fam, sig(c)), {'family': fam, 'case': c})
                else:
                    judge(ctx, fam, c, rr)
        main = [c for c in todo if not (hung and hang_prone(c)) and c not in reps]
        res = ctx.harness(['curvereplay', '--family', fam, '--par', '16'], main, timeout=7200)
        if len(res) != len(main):
            raise vlib.Infra('short curve replay')
        byid = {c['id']: c for c in main}
        for rr in res:
            c = byid[rr['id']]
            if rr.get('skipped'):
                continue
            ctx.case(key='%s %s' % (fam, desc(c)), nontrivial=c['p'] == 0 or c['q'] == 0 or c['s'] not in ('2', '3'))
            ctx.traces += rr['runs']
            judge(ctx, fam, c, rr)
    ctx.sample(cases[5])
    ctx.sample(cases[300])


def judge(ctx, fam, c, rr):
    for p in rr['problems'] or []:
        if p.startswith('INFRA'):
            raise vlib.Infra(p)
        import re
        kind = re.sub(r'\d{3,}', 'N', ':'.join(p.split(':')[:3]))[:110]
        ctx.report('curve gadget %s %s: %s' % (fam, sig(c), kind.strip()), {'family': fam, 'case': c, 'problem': p})
