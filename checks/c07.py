"""C07 - witness values bind to the circuit variables they were assigned to.
Schema.tla defines the documented leaf order / visibility of a circuit struct and generates type trees (seeded
simulation, fixed corpus of ~240 trees committed as generated Go types); for every tree the real schema walk is
exercised through frontend.NewWitness (full, Public(), PublicOnly), the binary and JSON encodings, and Compile+Solve
with both builders (every variable must carry the value assigned to its field; exchanging two values must break it)."""
import json, os, re, subprocess, sys
import vlib


def feats(t):
    f = set()
    for fl in t['fields']:
        if fl['kind'] == 'tri':
            f.add('struct-array')
        if fl['kind'] == 'hookvec':
            f.add('named-slice')
        if fl['tag'] in ('-,public', '-,secret'):
            f.add('dash-name')
        if fl['kind'] in ('struct', 'ptr', 'emb'):
            if fl['kind'] != 'struct':
                f.add(fl['kind'])
            if fl['tag'] == 'nm':
                f.add('renamed-struct')
            for s in fl['sub']:
                if s['kind'] == 'deep' and s['tag'] == 'nm':
                    f.add('renamed-struct')
    return sorted(f)


def run(ctx):
    quick = ctx.tier == 'quick'
    ctx.rule = ('case = (generated circuit struct type, field): witness order, Public()/PublicOnly, binary+JSON round trips, compile+solve with both '
                'builders, exchanged-values witness; plus 16 assignment value kinds; non-trivial = the type has >= 2 leaves or conflicting tags')
    ctx.assumptions += [
        'type trees: root struct with 1-3 fields (leaf, array, empty/non-empty slice, struct, pointer to struct, embedded struct), nested structs one or two levels deep, all gnark tag forms',
        'tags on the embedded field itself and "inherit" without an enclosing explicit visibility are outside the documented domain and not generated',
    ]
    # the committed corpus must be what the current spec emits
    p = subprocess.run([sys.executable, os.path.join(vlib.VERIF, 'tools', 'gen_schema_corpus.py'), '--check'], stdout=subprocess.PIPE, stderr=subprocess.STDOUT, text=True)
    if p.returncode != 0:
        raise vlib.Infra('specs/schema_corpus.json is not what specs/Schema.tla emits: run tools/gen_schema_corpus.py\n' + p.stdout[-2000:])
    trees = json.load(open(os.path.join(vlib.SPECS, 'schema_corpus.json')))
    # TLC also checks the spec's own invariant on the same simulation (counted in the evidence)
    ctx.tlc('Schema', 'Schema.cfg', workers=1, simulate=120, depth=30, deadlock=False)
    fields = ['bn254', 'tinyfield'] if quick else ['bn254', 'bls12-377', 'bls12-381', 'bls24-315', 'bls24-317', 'bw6-633', 'bw6-761', 'tinyfield', 'babybear', 'koalabear']
    for field in fields:
        res = ctx.harness(['schemacheck', '--field', field, '--par', '16'], timeout=3600)
        if len(res) != len(trees) + 1:
            raise vlib.Infra('schemacheck returned %d records for %d types: generated Go corpus out of date' % (len(res), len(trees)))
        for r in res:
            if r['name'] == 'value-conversion':
                ctx.case(key='conv ' + field, nontrivial=True)
                for pb in r['problems'] or []:
                    ctx.report('assignment value conversion (%s): %s' % (field, pb[:140]), {'field': field, 'problem': pb})
                continue
            t = trees[int(r['name'][1:])]
            ctx.case(key='%s %s' % (field, r['name']), nontrivial=r['conflict'] or r['nb_leaves'] >= 2)
            ctx.traces += 1
            for pb in r['problems'] or []:
                if pb.startswith(('ToJSON', 'FromJSON', 'schema.New', 'JSON round trip')):
                    sig = 'witness JSON encoding: %s [struct features: %s]' % (re.sub(r'[A-Z]\w*_\w+|\d+', 'X', pb)[:90], ','.join(feats(t)) or 'plain')
                else:
                    sig = 'witness/circuit binding: %s' % re.sub(r'\d+', 'N', pb)[:140]
                ctx.report(sig, {'field': field, 'type': r['name'], 'tree': t, 'problem': pb})
    ctx.extra['types'] = len(trees)
    ctx.extra['fields'] = fields
    ctx.sample(trees[3])
    ctx.sample(trees[-1])
