"""C05 - constraints emitted for API operations admit no spec-violating assignment.
Every single-operation program TLC generates (ProgGen.tla, length 1: every operation x every operand-kind
pattern) is compiled by both real builders over the 47-element field, its constraint rows are exported with
concrete coefficients, and TLC (ConstraintSat.tla) enumerates EVERY satisfying assignment of all wires -
i.e. every choice of hint outputs and internal values - checking the documented relation in each."""
import json, re
import vlib
from prog_common import prog_str


def case_to_tla(c):
    rows = []
    for r in c['rows']:
        if c['kind'] == 'r1cs':
            rows.append('<<' + ', '.join('<<' + ', '.join('<<%d, %d>>' % (t[0], t[1]) for t in le) + '>>' for le in r) + '>>')
        else:
            rows.append('[' + ', '.join('%s |-> %d' % (k, r[k]) for k in ('xa', 'xb', 'xc', 'ql', 'qr', 'qo', 'qm', 'qc')) + ']')
    args = '<<' + ', '.join('<<"%s", %d>>' % (a[0], a[1]) for a in c['args']) + '>>'
    return ('[name |-> %s, kind |-> "%s", nbWires |-> %d, rows |-> <<%s>>, order |-> %s, nin |-> %d, op |-> "%s", n |-> %d, args |-> %s, outs |-> %s, '
            'posOf |-> %s, checkAt |-> %s, dom |-> %s]'
            % (vlib.tla(c['name']), c['kind'], c['nbWires'], ', '.join(rows), vlib.tla(c['order']), c['nin'], c['op'], c['n'], args, vlib.tla(c['outs'] or []),
               vlib.tla(c['posOf']), vlib.tla(c['checkAt']), vlib.tla(c['dom'])))


def run_sat(ctx, cases, label, workers=16, timeout=3600):
    """Model-check a batch of cases; returns list of (case, counterexample assignment) for violated ones."""
    found = []
    cases = list(cases)
    while cases:
        mc = ('---- MODULE ConstraintSatMC ----\nEXTENDS ConstraintSat\nMCCases == <<\n  %s\n>>\n====\n'
              % ',\n  '.join(case_to_tla(c) for c in cases))
        cfg = 'SPECIFICATION Spec\nCONSTANTS\n  P = 47\n  Cases <- MCCases\n  ProbeVals = {0, 1, 2, 23, 45, 46}\nINVARIANT Sound\nCHECK_DEADLOCK FALSE\n'
        t = ctx.tlc('ConstraintSatMC', 'ConstraintSatMC.cfg', extra_files={'ConstraintSatMC.tla': mc, 'ConstraintSatMC.cfg': cfg},
                    workers=workers, expect=('ok', 'invariant'), timeout=timeout, heap='12g')
        if t.status == 'ok':
            break
        # parse the counterexample: last state's c and asg
        m = None
        for m in re.finditer(r'/\\ c = (\d+)', t.output):
            pass
        a = None
        for a in re.finditer(r'/\\ asg = <<([^>]*)>>', t.output):
            pass
        if not m or not a:
            raise vlib.Infra('cannot parse TLC counterexample:\n' + '\n'.join(t.output.splitlines()[-40:]))
        idx = int(m.group(1)) - 1
        asg = [int(x) for x in a.group(1).split(',') if x.strip()]
        found.append((cases[idx], asg))
        cases = cases[:idx] + cases[idx + 1:]
        if len(found) > 25:
            break
    return found


def tables_ok(c):
    """posOf / checkAt are speed-ups derived from rows and order: re-derive them here and compare."""
    pos = {w: k + 1 for k, w in enumerate(c['order'])}
    if any(c['posOf'][w] != pos.get(w, 0) for w in range(len(c['posOf']))):
        return False
    want = [[] for _ in c['order']]
    for ri, r in enumerate(c['rows']):
        if c['kind'] == 'r1cs':
            ws = {t[1] for le in r for t in le if t[1] != 0}
        else:
            ws = set()
            if r['ql'] or r['qm']: ws.add(r['xa'])
            if r['qr'] or r['qm']: ws.add(r['xb'])
            if r['qo']: ws.add(r['xc'])
        last = max([pos[w] for w in ws] + [1]) if c['order'] else 0
        if last:
            want[last - 1].append(ri + 1)
    return want == c['checkAt']


def check_counterexample(case, asg):
    """Independent re-evaluation of the exported rows under TLC's assignment (the rows are the real compiler's output)."""
    P = 47
    val = {w: v for w, v in zip(case['order'], asg)}
    if case['kind'] == 'r1cs':
        val[0] = 1
    for r in case['rows']:
        if case['kind'] == 'r1cs':
            try:
                l, rr, o = [sum(t[0] * val[t[1]] for t in le) % P for le in r]
            except KeyError:
                continue
            if (l * rr) % P != o:
                return False
        else:
            g = lambda w, used: val.get(w, 0) if used else 0
            l = g(r['xa'], r['ql'] or r['qm']); rr = g(r['xb'], r['qr'] or r['qm']); o = g(r['xc'], r['qo'])
            if (r['ql'] * l + r['qr'] * rr + r['qo'] * o + r['qm'] * l * rr + r['qc']) % P != 0:
                return False
    return True


def derive_tables(c):
    pos = {w: k + 1 for k, w in enumerate(c['order'])}
    c['posOf'] = [pos.get(w, 0) for w in range(c['nbWires'] + 1)]
    want = [[] for _ in c['order']]
    for ri, r in enumerate(c['rows']):
        if c['kind'] == 'r1cs':
            ws = {t[1] for le in r for t in le if t[1] != 0}
        else:
            ws = set()
            if r['ql'] or r['qm']: ws.add(r['xa'])
            if r['qr'] or r['qm']: ws.add(r['xb'])
            if r['qo']: ws.add(r['xc'])
        last = max([pos[w] for w in ws] + [1])
        want[last - 1].append(ri + 1)
    c['checkAt'] = want
    return c


def run(ctx):
    quick = ctx.tier == 'quick'
    ctx.rule = ('case = one API operation with one operand-kind pattern compiled by one builder over F_47; every satisfying assignment of '
                'every wire is enumerated for all 47^k operand values; non-trivial = the case has >= 1 constraint row')
    ctx.assumptions += [
        'exhaustive over the 47-element field only (2^6 > 47 makes modular aliasing reachable)',
        'all cases are enumerated by the Go twin of ConstraintSat.tla (same rows, same wire order, same relation through the cross-checked port of '
        'ApiSemantics); TLC itself enumerates a seeded subset bounded by state count and its distinct-state count must equal the size of the '
        'assignment tree the Go enumerator reports for those cases',
        'a wire that no later-completing row reads and that is neither operand nor result is explored once and accounted for (its value cannot matter)',
    ]
    r1 = ctx.tlc('ProgGenMC', 'ProgGen_len1.cfg', workers=1, timeout=1800)
    # operand kind "derived": the operation applied to -p0, 2*p1, s0+1 / to values derived from a wire already known to be boolean
    rd = ctx.tlc('ProgGenMC', 'ProgGen_derived.cfg', workers=1, timeout=1800)
    rb = ctx.tlc('ProgGenMC', 'ProgGen_bool.cfg', workers=1, timeout=1800)
    behs = r1.beh + rd.beh + rb.beh
    for i, b in enumerate(behs):
        b['id'] = i
    res = ctx.harness(['satenum', '--field', 'tinyfield', '--cases', '1', '--budget', '80000000', '--par', '16'], behs, timeout=7200)
    usable = [r for r in res if not r.get('skip')]
    budget_ex = [r for r in res if (r.get('skip') or '').startswith('budget')]
    ctx.extra['cases'] = len(usable)
    ctx.extra['cases_not_compiling'] = len(res) - len(usable) - len(budget_ex)
    ctx.extra['cases_budget_exceeded'] = [r['name'] for r in budget_ex]
    ctx.extra['partial_assignments_explored'] = sum(r['explored'] for r in usable)
    ctx.extra['satisfying_assignments_accounted'] = '%.4g' % sum(r['terminals'] for r in usable)
    ctx.exhaustive = not budget_ex
    for r in usable:
        ctx.case(key=r['name'], nontrivial=r['nb_rows'] > 0)
        ctx.traces += 1
        if r['nb_violations']:
            ctx.report('emitted constraints admit an assignment outside the documented relation: %s' % r['name'],
                       {'case': r['name'], 'examples': r['violations'], 'count': r['nb_violations'], 'rows': r['case']['rows']})
    # ---- TLC enumerates a subset itself; the state counts must agree with the Go enumerator
    cand = [r for r in usable if r['tree'] <= 6000 and r['explored'] == r['tree'] and r['case']['rows'] and r['case']['op']]
    ctx.rng.shuffle(cand)
    budget = 18000 if quick else 1200000
    pick, total = [], 0
    for r in cand:
        if total + r['tree'] > budget:
            continue
        pick.append(r)
        total += int(r['tree'])
        if len(pick) >= (400 if quick else 4000):
            break
    for r in pick:
        c = r['case']
        c['rows'] = c.get('rows') or []
        c['args'] = c.get('args') or []
        if not tables_ok(c):
            raise vlib.Infra('exporter tables inconsistent for ' + c['name'])
    B = 200
    for k in range(0, len(pick), B):
        batch = pick[k:k + B]
        before = ctx.states
        found = run_sat(ctx, [r['case'] for r in batch], 'subset%d' % (k // B), timeout=3000)
        if found:
            for case, asg in found:
                if not check_counterexample(case, asg):
                    raise vlib.Infra('TLC counterexample does not satisfy the exported rows: %s %s' % (case['name'], asg))
                ctx.report('emitted constraints admit an assignment outside the documented relation: %s' % case['name'],
                           {'case': case['name'], 'rows': case['rows'], 'assignment (wire->value)': dict(zip(case['order'], asg)), 'found_by': 'TLC'})
        else:
            want = sum(int(r['tree']) for r in batch)
            got = ctx.states - before
            if got != want:
                raise vlib.Infra('TLC explored %d states on a batch for which the Go enumerator reports %d partial assignments' % (got, want))
    ctx.extra['tlc_subset_cases'] = len(pick)
    ctx.extra['tlc_subset_states'] = total
    # ---- the machinery bites: drop the last row of IsZero (a*m = 0) and both engines must object
    probe = next((r for r in usable if r['name'] == 'r1cs IsZero(p0)'), None)
    if probe:
        c = json.loads(json.dumps(probe['case']))
        c['rows'] = c['rows'][:-1]
        c = derive_tables(c)
        c['name'] = 'SELFTEST ' + c['name'] + ' without its last row'
        found = run_sat(ctx, [c], 'selftest', workers=4, timeout=600)
        if not found:
            raise vlib.Infra('self-test failed: TLC accepted IsZero with its zero-forcing row removed')
        ctx.extra['selftest'] = 'TLC finds the forged assignment %s when the row a*m=0 of IsZero is removed' % dict(zip(c['order'], found[0][1]))
    ctx.sample({'case': usable[0]['name'], 'rows': usable[0]['case']['rows'], 'order': usable[0]['case']['order']})
    big = max(usable, key=lambda r: r['explored'])
    ctx.sample({'case': big['name'], 'nb_rows': big['nb_rows'], 'explored': big['explored'], 'satisfying_assignments': big['terminals']})
