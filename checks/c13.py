"""C13 - range checks and lookup tables accept only in-range values and true entries.
RangeCheck.tla transcribes the limb-width choice and the limb decomposition of the commitment-based range checker,
checks exhaustively over a toy field (where recomposition wraps) that the constraints accept v iff v < 2^bits, and
emits width mixes x adversarial hint classes; each is replayed on the real gadget through the real provers
(Groth16 for R1CS, PLONK for SCS) with the decomposition and multiplicity hints substituted; the limb width and limb
count the real gadget uses are compared with the transcription. Lookup tables are driven with in-range, repeated,
out-of-range and wrong-entry queries."""
import vlib
from protocol_common import CURVES


def run(ctx):
    quick = ctx.tier == 'quick'
    ctx.rule = ('case = (builder, mix of checked widths, variable, hint class) or a lookup query pattern, on one curve; '
                'non-trivial = any case other than the plain honest in-range value')
    ctx.assumptions += [
        'soundness of the log-derivative identity at a committed random challenge is the ideal rule; here every adversarial class must make the real prover fail',
        'the bit-decomposition strategy of the range checker is the ToBinary case of C05',
    ]
    r = ctx.tlc('RangeCheck', 'RangeCheck.cfg', workers=1, timeout=1800)
    behs = r.beh
    for i, b in enumerate(behs):
        b['id'] = i
    ctx.exhaustive = True
    curves = ['bn254', CURVES[1 + ctx.seed % 6]] if quick else CURVES
    for curve in curves:
        res = ctx.harness(['c13replay', '--curve', curve, '--par', '16'], behs, timeout=3600)
        if len(res) != len(behs):
            raise vlib.Infra('short C13 replay')
        byid = {b['id']: b for b in behs}
        for rr in res:
            b = byid[rr['id']]
            if rr['outcome'] == 'skip':
                continue
            if rr['outcome'] == 'setup-error':
                raise vlib.Infra('C13 setup: %s' % rr)
            same = ' (one variable, all widths)' if b.get('mode') == 'same' else ''
            ctx.case(key='%s %s %s%s %d %s' % (curve, b['builder'], b['mix'], same, b['var'], b['class']), nontrivial=b['class'] != 'honest-in')
            ctx.traces += 1
            if rr['outcome'] != b['expected']:
                ctx.report('range check %s widths=%s%s variable %d class=%s: expected %s, real gadget: %s' % (
                    b['builder'], b['mix'], same, b['var'], b['class'], b['expected'], rr['outcome']), {'curve': curve, 'behaviour': b, 'result': rr})
            if rr['obs_base'] and (rr['obs_base'] != b['base'] or rr['obs_limbs'] != b['nbLimbs']):
                ctx.report('range check %s widths=%s: gadget uses limb width %d x %d limbs, the transcription of optimalWidth gives %d x %d' % (
                    b['builder'], b['mix'], rr['obs_base'], rr['obs_limbs'], b['base'], b['nbLimbs']), {'curve': curve, 'behaviour': b, 'result': rr})
        lk = ctx.harness(['c13lookup', '--curve', curve], timeout=3600)
        if not lk:
            raise vlib.Infra('lookup driver produced nothing')
        for rr in lk:
            ctx.case(key='%s lookup %s %s' % (curve, rr['builder'], rr['case']), nontrivial=True)
            ctx.traces += 1
            if rr['outcome'] != rr['want']:
                import re
                ctx.report('lookup table %s %s: expected %s, real gadget: %s' % (rr['builder'], re.sub(r'size=\d+', 'size=N', rr['case']), rr['want'], rr['outcome']),
                           {'curve': curve, 'result': rr})
    plain(ctx, quick)
    bind(ctx, curves[0])
    ctx.sample(behs[5])
    ctx.sample(behs[100])


PLAIN_CLASSES = {
    'solve fails although every assertion holds',
    'solve succeeds although an assertion is violated',
    'computed value differs from the reference semantics',
    'compile rejects a program the reference semantics can satisfy',
    'solver panic',
    'returned solution is not a satisfying assignment',
}


def plain(ctx, quick):
    """The bit-decomposition range checker (builders without commitments): Check(v, n) for widths around the field size,
    every operand kind; honest semantics for every value of F_47 and corner values of the large fields, and every
    satisfying assignment of the exported rows (ConstraintSat twin enumerator)."""
    from prog_common import judge_prog
    r = ctx.tlc('ProgGenMC', 'ProgGen_rangeplain.cfg', workers=1, timeout=1800)
    behs = r.beh
    if len(behs) < 20:
        raise vlib.Infra('ProgGen_rangeplain produced %d programs' % len(behs))
    for i, b in enumerate(behs):
        b['id'] = i
    res = ctx.harness(['progrun', '--field', 'tinyfield', '--par', '16', '--checkevery', '1'], behs, timeout=3600)
    judge_prog(ctx, behs, res, PLAIN_CLASSES, 'tinyfield')
    for f in (['bn254'] if quick else ['bn254', 'bls12-377', 'bw6-761', 'babybear']):
        res = ctx.harness(['progrun', '--field', f, '--par', '16', '--checkevery', '0'], behs, timeout=3600)
        judge_prog(ctx, behs, res, PLAIN_CLASSES, f)
    en = ctx.harness(['satenum', '--field', 'tinyfield', '--cases', '1', '--budget', '20000000', '--par', '16'], behs, timeout=3600)
    for e in en:
        if e.get('skip'):
            continue
        ctx.case(key='plain sat ' + e['name'], nontrivial=e['nb_rows'] > 0)
        ctx.traces += 1
        if e['nb_violations']:
            ctx.report('bit-decomposition range check admits an out-of-range assignment: %s' % e['name'],
                       {'case': e['name'], 'examples': e['violations'], 'count': e['nb_violations']})
    ctx.extra['plain_checker_programs'] = len(behs)


def bind(ctx, curve):
    """LogDerivBinding.tla: TLC plays the adaptive-prover game over a toy field for every set of committed groups and
    checks that the argument is sound exactly when queries and multiplicities are bound before the challenge; the
    committed wire set of compiled range-check / lookup circuits must contain every wire of every needed group."""
    r = ctx.tlc('LogDerivBinding', 'LogDerivBinding.cfg', workers=1, timeout=1800)
    if len(r.beh) != 4:
        raise vlib.Infra('LogDerivBinding produced %d configurations' % len(r.beh))
    res = ctx.harness(['c13bind', '--curve', curve], r.beh, timeout=1800)
    needed = {b['config']: set(b['needed']) for b in r.beh}
    if len(res) < 12:
        raise vlib.Infra('short binding extraction')
    for rr in res:
        if rr.get('err'):
            raise vlib.Infra('binding extraction: %s' % rr)
        ctx.case(key='bind %s %s' % (rr['config'], rr['variant']), nontrivial=True)
        ctx.traces += 1
        for g in sorted(needed[rr['config']]):
            grp = rr['groups'].get(g)
            if not grp or grp['wires'] == 0:
                raise vlib.Infra('binding extraction found no %s wires in %s %s' % (g, rr['config'], rr['variant']))
            if grp['committed'] != grp['wires']:
                ctx.report('log-derivative argument (%s): %s wires are not bound by the commitment the challenge is derived from' % (rr['config'], g),
                           {'config': rr['config'], 'variant': rr['variant'], 'groups': rr['groups'], 'needed': sorted(needed[rr['config']])})
