"""C13 - range checks and lookup tables accept only in-range values and true entries.
RangeCheck.tla transcribes the limb-width choice and the limb decomposition of the commitment-based range checker,
checks exhaustively over a toy field (where recomposition wraps) that the constraints accept v iff v < 2^bits, and
emits width mixes x adversarial hint classes; each is replayed on the real gadget through the real provers
(Groth16 for R1CS, PLONK for SCS) with the decomposition and multiplicity hints substituted; the limb width and limb
count the real gadget uses are compared with the transcription. Lookup tables are driven with in-range, repeated,
out-of-range and wrong-entry queries."""
import vlib
from protocol_common import CURVES


def run(ctx):
    quick = ctx.tier == 'quick'
    ctx.rule = ('case = (builder, mix of checked widths, variable, hint class) or a lookup query pattern, on one curve; '
                'non-trivial = any case other than the plain honest in-range value')
    ctx.assumptions += [
        'soundness of the log-derivative identity at a committed random challenge is the ideal rule; here every adversarial class must make the real prover fail',
        'the bit-decomposition strategy of the range checker is the ToBinary case of C05',
    ]
    r = ctx.tlc('RangeCheck', 'RangeCheck.cfg', workers=1, timeout=1800)
    behs = r.beh
    for i, b in enumerate(behs):
        b['id'] = i
    ctx.exhaustive = True
    curves = ['bn254', CURVES[1 + ctx.seed % 6]] if quick else CURVES
    for curve in curves:
        res = ctx.harness(['c13replay', '--curve', curve, '--par', '16'], behs, timeout=3600)
        if len(res) != len(behs):
            raise vlib.Infra('short C13 replay')
        byid = {b['id']: b for b in behs}
        for rr in res:
            b = byid[rr['id']]
            if rr['outcome'] == 'skip':
                continue
            if rr['outcome'] == 'setup-error':
                raise vlib.Infra('C13 setup: %s' % rr)
            ctx.case(key='%s %s %s %d %s' % (curve, b['builder'], b['mix'], b['var'], b['class']), nontrivial=b['class'] != 'honest-in')
            ctx.traces += 1
            if rr['outcome'] != b['expected']:
                ctx.report('range check %s widths=%s variable %d class=%s: expected %s, real gadget: %s' % (
                    b['builder'], b['mix'], b['var'], b['class'], b['expected'], rr['outcome']), {'curve': curve, 'behaviour': b, 'result': rr})
            if rr['obs_base'] and (rr['obs_base'] != b['base'] or rr['obs_limbs'] != b['nbLimbs']):
                ctx.report('range check %s widths=%s: gadget uses limb width %d x %d limbs, the transcription of optimalWidth gives %d x %d' % (
                    b['builder'], b['mix'], rr['obs_base'], rr['obs_limbs'], b['base'], b['nbLimbs']), {'curve': curve, 'behaviour': b, 'result': rr})
        lk = ctx.harness(['c13lookup', '--curve', curve], timeout=3600)
        if not lk:
            raise vlib.Infra('lookup driver produced nothing')
        for rr in lk:
            ctx.case(key='%s lookup %s %s' % (curve, rr['builder'], rr['case']), nontrivial=True)
            ctx.traces += 1
            if rr['outcome'] != rr['want']:
                import re
                ctx.report('lookup table %s %s: expected %s, real gadget: %s' % (rr['builder'], re.sub(r'size=\d+', 'size=N', rr['case']), rr['want'], rr['outcome']),
                           {'curve': curve, 'result': rr})
    ctx.sample(behs[5])
    ctx.sample(behs[100])
