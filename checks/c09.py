"""C09 - serialized artifacts decode to objects that behave identically.
Artifacts.tla enumerates every pipeline Compile -> Setup -> Prove -> Verify with up to two artifacts going through an
encode/decode round trip in any offered encoding; each pipeline is replayed on the real code: byte counts, idempotent
re-encoding, the solution of the decoded system, and proofs made with / verified under the decoded objects."""
import re
import vlib
from protocol_common import CURVES


def run(ctx):
    quick = ctx.tier == 'quick'
    ctx.rule = ('case = pipeline (backend, circuit, round-trip variant of each of cs / pk / vk / proof / witness; <= 2 round trips) on one curve; '
                'non-trivial = at least one artifact round-tripped')
    ctx.assumptions += ['cross-version compatibility of encodings is not promised by gnark and not checked',
                        'circuits: 15 shape / corpus circuits covering hints, lookup blueprints, commitments, logs, emulated arithmetic']
    r = ctx.tlc('Artifacts', 'Artifacts.cfg', workers=1)
    behs = r.beh
    for i, b in enumerate(behs):
        b['id'] = i
    if quick:
        ctx.rng.shuffle(behs)
        singles = [b for b in behs if sum(1 for a in ('cs', 'pk', 'vk', 'proof', 'wit') if b[a] != 'none') <= 1]
        pairs = [b for b in behs if b not in singles]
        sel = singles + pairs[:250]
        ctx.exhaustive = False
    else:
        sel = behs
        ctx.exhaustive = True
    curves = ['bn254', CURVES[1 + ctx.seed % 6]] if quick else CURVES
    for curve in curves:
        res = ctx.harness(['c09replay', '--curve', curve, '--par', '16'], sel, timeout=7200, crash_ok=True)
        if ctx.last_crash:
            # a decoded artifact crashed the process inside gnark code (e.g. the solver goroutines of a decoded system)
            ctx.report('a pipeline over decoded artifacts crashed the process: %s' % re.sub(r'\d+', 'N', ctx.last_crash)[:160],
                       {'curve': curve, 'crash': ctx.last_crash})
            continue
        if len(res) != len(sel):
            raise vlib.Infra('short C09 replay')
        byid = {b['id']: b for b in sel}
        for rr in res:
            b = byid[rr['id']]
            rts = [a + '=' + b[a] for a in ('cs', 'pk', 'vk', 'proof', 'wit') if b[a] != 'none']
            ctx.case(key='%s %s %s %s' % (curve, b['backend'], b['circuit'], ','.join(rts)), nontrivial=bool(rts))
            ctx.traces += 1
            for pb in rr['problems'] or []:
                if pb.startswith('INFRA'):
                    raise vlib.Infra('C09 %s %s: %s' % (curve, b, pb))
                ctx.report('%s circuit=%s round trips %s: %s' % (b['backend'], b['circuit'], ','.join(rts) or 'none', re.sub(r'\d+', 'N', pb)[:160]),
                           {'curve': curve, 'pipeline': b, 'problem': pb})
    # a constraint system whose encoding holds arrays / maps with more than 2^17 entries
    for rr in ctx.harness(['c09big', '--curve', 'bn254'], timeout=1800):
        ctx.case(key='big constraint system', nontrivial=True)
        for pb in rr['problems'] or []:
            if pb.startswith('INFRA'):
                raise vlib.Infra('C09 big: ' + pb)
            ctx.report('large constraint system: %s' % re.sub(r'\d+', 'N', pb)[:160], {'problem': pb})
    ctx.extra['pipelines'] = len(sel)
    ctx.sample(sel[0])
    ctx.sample(sel[-1])
