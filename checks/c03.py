"""C03 - every satisfying assignment yields a proof that verifies; a non-satisfying one makes Prove fail in bounded time.
Completeness.tla enumerates the configuration space (backend x circuit x witness class x prover/verifier option
choices) with the outcome each configuration must have; every configuration is replayed on the real
Setup/Prove/Verify of the curves under a watchdog, with a check that no prover goroutine is left blocked.
ProverPipeline.tla model-checks the goroutine/channel structure extracted from the PLONK prover sources."""
import json
import vlib
from protocol_common import CURVES


def run(ctx):
    quick = ctx.tier == 'quick'
    ctx.rule = ('case = (backend, circuit, witness class, prover/verifier hash options, statistical-ZK, curve); enumerated exhaustively by TLC '
                'from Completeness.tla (one option family varied at a time); non-trivial = witness invalid, or an option non-default, or a circuit with commitments')
    ctx.assumptions += [
        'circuits are the 30 shape / corpus circuits (no secret input, unused public input, 0-3 commitments, domain sizes around powers of two, hints, lookups, range checks, emulated arithmetic, deferred callbacks)',
        'bounded time = Prove returns within 60 s (it takes milliseconds) and leaves no prover goroutine blocked',
    ]
    pipeline_leads = pipeline_model(ctx, CURVES if not quick else ['bn254', CURVES[1 + ctx.seed % 6]])
    r = ctx.tlc('Completeness', 'Completeness.cfg', workers=1)
    behs = r.beh
    for i, b in enumerate(behs):
        b['id'] = i
    ctx.exhaustive = True
    curves = ['bn254', CURVES[1 + ctx.seed % 6]] if quick else CURVES
    for curve in curves:
        res = ctx.harness(['c03replay', '--curve', curve, '--par', '16'], behs, timeout=7200, crash_ok=True)
        if ctx.last_crash:
            ctx.report('the prover crashed the process (panic outside the caller\'s reach): %s' % curve_free(ctx.last_crash), {'curve': curve, 'crash': ctx.last_crash})
        byid = {b['id']: b for b in behs}
        seen = 0
        for rr in res:
            if rr['id'] == -1:
                ctx.report('prover goroutines left blocked after Prove returned (%s)' % curve_free(rr['err']), {'curve': curve, 'detail': rr['err']})
                continue
            seen += 1
            b = byid[rr['id']]
            c = b['cfg']
            o = rr['outcome']
            if o == 'skip':
                continue
            if o == 'setup-error':
                raise vlib.Infra('C03 replay setup error: %s' % json.dumps(rr))
            nontrivial = c['witness'] not in ('valid',) or any(c[k] != 'default' for k in ('pHtf', 'vHtf', 'pChal', 'vChal', 'pFold', 'vFold')) or c['statZK']
            ctx.case(key='%s %s' % (curve, json.dumps(c, sort_keys=True)), nontrivial=nontrivial)
            ctx.traces += 1
            if o != b['expected']:
                opts = ','.join('%s=%s' % (k, c[k]) for k in ('pHtf', 'vHtf', 'pChal', 'vChal', 'pFold', 'vFold') if c[k] != 'default') or 'default'
                ctx.report('%s circuit=%s witness=%s options=%s statZK=%s: expected %s, real code: %s' % (
                    c['backend'], c['circuit'], c['witness'], opts, c['statZK'], b['expected'], o),
                    {'config': c, 'curve': curve, 'result': rr})
        if seen != len(behs) and not any(rr['outcome'] == 'hang' for rr in res) and not ctx.last_crash:
            raise vlib.Infra('short C03 replay: %d of %d' % (seen, len(behs)))
    hangs = [v for v in ctx.violations if 'hang' in v[0] or 'left blocked' in v[0]]
    ctx.extra['pipeline_model_leads'] = pipeline_leads
    ctx.extra['pipeline_model_leads_reproduced_as_hang'] = bool(pipeline_leads and hangs)
    ctx.extra['configurations'] = len(behs)
    ctx.extra['curves'] = curves
    ctx.sample(behs[17])
    ctx.sample(behs[-5])


def pipeline_model(ctx, curves):
    """ProverPipeline.tla on the goroutine / channel structure extracted from the current prove.go of each curve.
    A deadlock of the extracted model is a lead: it becomes a verdict only through the replay (invalid witness => hang)."""
    leads = []
    seen = set()
    for curve in curves:
        procs = ctx.harness(['pipeline', '--curve', curve, '--repo', vlib.REPO], timeout=300)
        if not procs:
            raise vlib.Infra('pipeline extraction produced nothing for ' + curve)
        items = []
        for pr in procs:
            ops, last = [], None
            for o in pr['ops']:
                if o['op'] == 'fail' and last == 'fail':
                    continue            # consecutive fallible steps are one fallible step
                last = o['op']
                ops.append('[op |-> "%s", ch |-> "%s", ctx |-> %s]' % (o['op'], o.get('ch', ''), 'TRUE' if o['ctx'] else 'FALSE'))
            items.append('[name |-> "%s", spawned |-> %s, ops |-> <<%s>>]' % (pr['name'], 'TRUE' if pr['spawned'] else 'FALSE', ', '.join(ops)))
        key = '\n'.join(items)
        if key in seen:
            continue
        seen.add(key)
        mc = '---- MODULE ProverPipelineMC ----\nEXTENDS ProverPipeline\nExtracted == <<\n  %s\n>>\n====\n' % ',\n  '.join(items)
        cfg = 'SPECIFICATION Spec\nCONSTANTS\n  Procs <- Extracted\nINVARIANTS NoDoubleClose CompleteIfNoFailure\n'
        t = ctx.tlc('ProverPipelineMC', 'ProverPipelineMC.cfg', extra_files={'ProverPipelineMC.tla': mc, 'ProverPipelineMC.cfg': cfg},
                    workers=8, expect=('ok', 'deadlock', 'invariant'), timeout=1800)
        if t.status != 'ok':
            blocked = sorted(set(re_find(r'pc = .*', t.output)))[:1]
            leads.append({'curve': curve, 'model_result': t.status, 'violated': t.violated,
                          'last_state': [l for l in t.output.splitlines() if l.startswith('/\\')][-4:]})
    return leads


def re_find(pat, s):
    import re
    return re.findall(pat, s)


def curve_free(s):
    import re
    return re.sub(r'\d+', 'N', s or '')[:120]
