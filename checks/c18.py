"""C18 - MPC setup accepts only valid contribution chains and yields working keys.
MpcSetup.tla models a contribution by the state it extends and whether one of its serialized elements was altered, and
two honest chains per phase; TLC enumerates the transcripts a verifier may be handed (honest, one element altered for
every component x position x replacement, swapped, dropped, duplicated, spliced from the other chain, phase 2 against
another phase-1 output or circuit) with the verdict, and checks the model's own sanity theorems.  Every transcript is
replayed on the real mpcsetup package of the curves through WriteTo / byte edit / ReadFrom / VerifyPhase1|2; accepted
phase-2 transcripts must yield keys that prove and verify the circuit (and reject other public inputs)."""
import vlib
from protocol_common import CURVES


def edit_str(e):
    if e['kind'] == 'alter':
        return 'alter %s[%s] -> %s' % (e['comp'], e['pos'], e['how'])
    return e['kind']


def run(ctx):
    quick = ctx.tier == 'quick'
    ctx.rule = ('case = (phase, circuit with/without commitment, number of contributions, edit) on one curve; '
                'non-trivial = any edited transcript')
    ctx.assumptions += [
        'knowledge soundness of the update proofs and the same-ratio checks are ideal rules: an altered element is replaced by another valid group element (double, negation, infinity), a challenge by a flipped bit',
        'chains of 1..3 contributions per phase; domain sizes are those of the two small circuits',
        'an emptied challenge field is accepted by design (Verify recomputes it) and is not part of the alphabet',
    ]
    r = ctx.tlc('MpcSetup', 'MpcSetup.cfg', workers=1, timeout=1800)
    behs = r.beh
    if len(behs) < 1400:
        raise vlib.Infra('MpcSetup produced %d transcripts' % len(behs))
    for i, b in enumerate(behs):
        b['id'] = i
    ctx.exhaustive = True
    curves = ['bn254', CURVES[1 + ctx.seed % (len(CURVES) - 1)]] if quick else CURVES
    for curve in curves:
        res = ctx.harness(['c18replay', '--curve', curve, '--par', '16'], behs, timeout=7200)
        if len(res) != len(behs):
            raise vlib.Infra('short C18 replay')
        for rr in res:
            b = behs[rr['id']]
            if rr['outcome'] == 'infra' or not rr['changed']:
                raise vlib.Infra('C18 replay: %s' % rr)
            ctx.case(key='%s phase%d %s n=%d %s' % (curve, b['phase'], b['circuit'], b['n'], edit_str(b['edit'])), nontrivial=b['edit']['kind'] != 'none')
            ctx.traces += 1
            what = 'phase %d (%s circuit) %s' % (b['phase'], b['circuit'], edit_str(b['edit']))
            if rr['outcome'] != b['verdict']:
                ctx.report('mpc setup %s: the model says %s, the real verifier: %s' % (what, b['verdict'], rr['outcome']),
                           {'curve': curve, 'behaviour': b, 'result': rr})
            elif rr.get('keys', 'ok') != 'ok':
                ctx.report('mpc setup %s: accepted transcript yields keys that do not work: %s' % (what, rr['keys'].split(':')[0]),
                           {'curve': curve, 'behaviour': b, 'result': rr})
    ctx.sample(behs[3])
    ctx.sample(behs[500])
