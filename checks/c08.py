"""C08 - verifiers and decoders of untrusted data return errors, never crash.
(1) VerifierRobust.tla: every shape (lengths of the variable-length parts of proof and witness vs. key)
    explored by TLC on the transcribed step lists; every shape replayed on the real verifiers, directly and
    through both encodings.
(2) Framing.tla: framing mutations of the real encodings (truncate at / inside every atom, every slice
    length prefix set to 0, n-1, n+1, n+2, 2^20, 2^31-1, 2^32-1, header words, trailing bytes, bit flips);
    decoders must return an error or a self-consistent value, and Verify must not panic on it."""
import json, os, subprocess
import vlib
from protocol_common import CURVES, judge, beh_sig


def framing_sig(b):
    m = b['mut']
    parts = [m['kind']]
    if 'atom' in m:
        parts.append('atom%d:%s' % (m['atom'], b['atoms'][m['atom'] - 1]['k']))
    for k in ('where', 'cls', 'n'):
        if k in m:
            parts.append(str(m[k]))
    return '%s/%s %s' % (b['artifact'], b['enc'], '/'.join(parts))


def judge_framing(ctx, b, r):
    sig = None
    d = r['decode']
    if d in ('layout-mismatch', 'setup-error'):
        raise vlib.Infra('framing replay: %s: %s' % (d, r.get('err')))
    ctx.case(key='framing ' + framing_sig(b) + ' ' + b['shape'], nontrivial=b['mut']['kind'] != 'none')
    ctx.traces += 1
    if d in ('panic', 'crash'):
        sig = 'decode %s %s: %s' % (framing_sig(b), d, (r.get('err') or '')[:80])
    elif d == 'ok':
        if r['verify'] == 'panic':
            sig = 'verify-after-decode %s panic: %s' % (framing_sig(b), (r.get('err') or '')[:80])
        elif r['verify'] == 'accept' and not r['same']:
            sig = 'decode %s: mutated encoding decoded to a different object that verifies' % framing_sig(b)
        elif b['artifact'] == 'witness' and not r['consistent']:
            sig = 'decode %s: witness header disagrees with vector but no error (%s)' % (framing_sig(b), r.get('note'))
        elif b['predicted'] == 'error':
            sig = 'decode %s: truncated / empty encoding decoded without error' % framing_sig(b)
        elif b['predicted'] == 'same' and not (r['same'] and r['verify'] == 'accept'):
            # neutral mutation: the object must be unchanged and verify
            sig = 'decode %s: neutral mutation changed the decoded object or its verdict' % framing_sig(b)
    if sig:
        ctx.report(sig, {'behaviour': b, 'result': r})


def run(ctx):
    quick = ctx.tier == 'quick'
    ctx.rule = ('(a) shape = (backend, circuit, lengths of proof commitments / claimed values / public witness, transport) '
                'enumerated exhaustively by TLC from VerifierRobust.tla for lengths 0..4(+6); (b) framing mutation of a real '
                'encoding enumerated from Framing.tla; non-trivial = shape differs from the prescribed one or mutation is not "none"')
    ctx.assumptions += [
        'content-level corruption inside a group-element encoding is sampled by bit flips, not exhausted',
        'arbitrary byte strings are covered structurally (framing x shape), not by coverage-guided fuzzing',
        'decodes with a length prefix >= 2^31-1 run in a subprocess under ulimit -v 8GB so that an allocation bomb is a deterministic crash',
    ]
    # --- the guards are necessary: without them TLC exhibits the panic
    r0 = ctx.tlc('VerifierRobust', 'VerifierRobust_nofix.cfg', workers=4, expect=('invariant',), count=False)
    ctx.extra['nofix_model_violates'] = r0.violated
    # --- shapes
    r = ctx.tlc('VerifierRobust', 'VerifierRobust.cfg', workers=1)
    behs = r.beh
    for i, b in enumerate(behs):
        b['id'] = i
    curves = CURVES if not quick else ['bn254', CURVES[1 + ctx.seed % 6]]
    for backend, cmd in (('groth16', 'g16replay'), ('plonk', 'plonkreplay')):
        sub = [b for b in behs if b['backend'] == backend]
        for curve in curves:
            res = ctx.harness([cmd, '--curve', curve, '--par', '16'], sub)
            if len(res) != len(sub):
                raise vlib.Infra('short replay')
            drift = judge(ctx, backend, sub, res)
            ctx.extra['model_drift'] = ctx.extra.get('model_drift', 0) + len(drift)
            if drift:
                ctx.extra.setdefault('model_drift_samples', []).extend(drift[:3])
    ctx.sample(behs[len(behs) // 2])
    # --- framing
    fr = ctx.tlc('Framing', 'Framing.cfg', workers=1)
    fb = fr.beh
    for i, b in enumerate(fb):
        b['id'] = i
    inproc = [b for b in fb if b['mut'].get('cls') not in ('huge', 'max')]
    bombs = [b for b in fb if b['mut'].get('cls') in ('huge', 'max')]
    fcurves = CURVES if not quick else ['bn254', CURVES[1 + (ctx.seed + 3) % 6]]
    for curve in fcurves:
        res = ctx.harness(['framing', '--curve', curve, '--par', '16'], inproc)
        byid = {b['id']: b for b in inproc}
        if len(res) != len(inproc):
            raise vlib.Infra('short framing replay')
        for rr in res:
            judge_framing(ctx, byid[rr['id']], rr)
    # allocation bombs: one subprocess each, address space capped
    exe = ctx.build_harness()
    bomb_curves = ['bn254'] if quick else ['bn254', 'bls12-381', 'bw6-761']
    for curve in bomb_curves:
        for b in bombs:
            inp = os.path.join(ctx.scratch, 'bomb.ndjson')
            outp = os.path.join(ctx.scratch, 'bomb.out')
            with open(inp, 'w') as fh:
                fh.write(json.dumps(b) + '\n')
            if os.path.exists(outp):
                os.remove(outp)
            cmd = 'ulimit -v 8000000; exec %s framing --curve %s --par 1 --in %s --out %s' % (exe, curve, inp, outp)
            try:
                p = subprocess.run(['bash', '-c', cmd], stdout=subprocess.PIPE, stderr=subprocess.PIPE, text=True, timeout=300)
            except subprocess.TimeoutExpired:
                raise vlib.Infra('bomb decode timed out')
            rr = None
            if p.returncode == 0 and os.path.exists(outp) and os.path.getsize(outp) > 0:
                rr = json.loads(open(outp).read().splitlines()[0])
            else:
                fatal = 'out of memory' in p.stderr or 'cannot allocate' in p.stderr
                if not fatal:
                    raise vlib.Infra('bomb subprocess died for another reason: ' + p.stderr[-2000:])
                rr = {'id': b['id'], 'curve': curve, 'decode': 'crash', 'same': False, 'consistent': False, 'verify': '',
                      'err': 'fatal error: out of memory (process killed by the Go runtime)'}
            judge_framing(ctx, b, rr)
    ctx.sample(inproc[len(inproc) // 3])
    ctx.sample(bombs[0])
    ctx.exhaustive = True
    ctx.extra['shape_behaviours'] = len(behs)
    ctx.extra['framing_behaviours'] = len(fb)
    ctx.extra['curves_shapes'] = curves
    ctx.extra['curves_framing'] = fcurves
