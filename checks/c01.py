"""C01 - Groth16 verification accepts only proofs of the stated public inputs.
TLC enumerates every behaviour of specs/Groth16Protocol.tla (shape x edit sequence), checks the
transcribed verifier step list against the property on the model, and every behaviour is then
replayed on the real Setup/Prove/Verify of every curve."""
from protocol_common import run_protocol, key_checks, CURVES

RULE = ('behaviour = circuit shape x sequence of edits to a genuine (proof, vk, public witness); '
        'enumerated by TLC from %s.tla; non-trivial = at least one non-neutral edit; '
        'distinct by (backend, shape, edit sequence)')
ASSUME = [
    'ideal-cryptography rule: a pairing / PoK / opening equation holds iff every element flowing into it is genuine and in place',
    'soundness against adversaries outside the edit alphabet is a cryptographic assumption',
    'each behaviour replayed on real Setup/Prove/Verify for every listed curve; verdict taken from the real code only',
]


def run(ctx):
    ctx.rule = RULE % 'Groth16Protocol'
    ctx.assumptions += ASSUME
    run_protocol(ctx, 'Groth16Protocol', 'g16replay', 'groth16')
    ctx.tlc('Groth16SetupMC', 'Groth16SetupMC.cfg', workers=8)
    key_checks(ctx, 'groth16', CURVES if ctx.tier != 'quick' else ['bn254', CURVES[1 + ctx.seed % 6]])
