"""Shared replay/judge logic for the protocol decision models (C01, C02, C17)."""
import json
import vlib

CURVES = ['bn254', 'bls12-377', 'bls12-381', 'bls24-315', 'bls24-317', 'bw6-633', 'bw6-761']


def edit_sig(e):
    parts = [e['op']]
    for k in ('comp', 'i', 'j', 'cls'):
        if k in e:
            parts.append(str(e[k]))
    return '/'.join(parts)


def beh_sig(b):
    return 'shape=%s edits=%s' % (b['shape'], '+'.join(edit_sig(e) for e in b['edits']) or 'none')


def judge(ctx, backend, behs, results, count_trace=True):
    """Compare real verdicts with the specified ones. Returns number of model-drift cases
    (real code differs from the transcribed step list without crossing the property)."""
    byid = {b['id']: b for b in behs}
    drift = []
    skipped = 0
    for r in results:
        b = byid[r['id']]
        v = r['verdict']
        if v == 'skip':
            skipped += 1
            sk = ctx.extra.setdefault('skip_reasons', {})
            k = r['curve'] + ': ' + r.get('note', '')
            sk[k] = sk.get(k, 0) + 1
            continue
        if v in ('setup-error', 'harness-error', 'unstable'):
            raise vlib.Infra('%s replay could not decide: %s' % (backend, json.dumps(r)))
        nontrivial = any(e['op'] != 'RoundTrip' for e in b['edits'])
        ctx.case(key=backend + ' ' + beh_sig(b), nontrivial=nontrivial)
        if count_trace:
            ctx.traces += 1
        bad = None
        if v == 'panic':
            bad = 'panic'
        elif b['spec'] == 'reject' and v == 'accept':
            bad = 'accepted'
        elif b['spec'] == 'accept' and v != 'accept':
            bad = 'rejected'
        if bad:
            sig = '%s %s real=%s spec=%s' % (backend, beh_sig(b), bad, b['spec'])
            ctx.report(sig, {'behaviour': b, 'result': r})
        elif v != b['code'] and b['spec'] != 'either':
            drift.append({'behaviour': b, 'result': r})
        elif v == b['code'] and v == 'reject' and r.get('stage') != b.get('stage'):
            # same verdict, different stage: informational only
            ctx.extra.setdefault('stage_differences', 0)
            ctx.extra['stage_differences'] += 1
            kinds = ctx.extra.setdefault('stage_difference_kinds', {})
            k = 'model=%s real=%s' % (b.get('stage'), r.get('stage'))
            kinds[k] = kinds.get(k, 0) + 1
            if kinds[k] == 1:
                ctx.extra.setdefault('stage_difference_examples', []).append({'b': beh_sig(b), 'err': r.get('err')})
    ctx.extra['skipped_class_not_on_curve'] = ctx.extra.get('skipped_class_not_on_curve', 0) + skipped
    return drift


ONE_COMMITMENT = ('c1s', 'c1p', 'c1po')


def identity_composite(b):
    """Two edits that cancel: on a circuit with exactly one commitment, dropping the commitment and appending a duplicate of
    the genuine first commitment (in either order) gives back the genuine list.  The decision model judges edits one by one
    (each is effective on its own) and would demand a rejection of an unaltered proof: such behaviours are not judged."""
    if len(b['edits']) != 2 or b['shape'] not in ONE_COMMITMENT:
        return False
    ops = {e['op']: e for e in b['edits']}
    for drop, app in (('CommitDrop', 'CommitAppend'), ('BsbDrop', 'BsbAppend')):
        if drop in ops and app in ops and ops[drop].get('i') == 1 and ops[app].get('cls') == 'dup':
            return True
    return False


def run_protocol(ctx, module, cmd, backend, quick_pairs=1200, thorough_pairs=None, curves=CURVES):
    quick = ctx.tier == 'quick'
    r1 = ctx.tlc(module, module + '_gen1.cfg', workers=1)
    rp = ctx.tlc(module, module + '_pad.cfg', workers=1)
    behs = r1.beh + rp.beh
    r2 = ctx.tlc(module, module + '_gen2.cfg', workers=1, timeout=1800)
    pairs = [b for b in r2.beh if len(b['edits']) == 2]
    for b in pairs:
        if identity_composite(b) and b['spec'] == 'reject':
            b['spec'] = 'either'
            ctx.extra['identity_composites_not_judged'] = ctx.extra.get('identity_composites_not_judged', 0) + 1
    ctx.extra['pair_behaviours_total'] = len(pairs)
    if quick:
        ctx.rng.shuffle(pairs)
        sample = pairs[:quick_pairs]
        ctx.exhaustive = False
    else:
        sample = pairs
        if thorough_pairs and len(pairs) > thorough_pairs:
            ctx.rng.shuffle(pairs)
            sample = pairs[:thorough_pairs]
            ctx.exhaustive = False
        else:
            ctx.exhaustive = True
    ctx.extra['pair_behaviours_replayed_per_curve'] = len(sample)
    for i, b in enumerate(behs):
        b['id'] = i
    for i, b in enumerate(sample):
        b['id'] = len(behs) + i
    drift_all = []
    for curve in curves:
        res = ctx.harness([cmd, '--curve', curve, '--par', '16'], behs)
        if len(res) != len(behs):
            raise vlib.Infra('replay returned %d results for %d behaviours' % (len(res), len(behs)))
        drift_all += judge(ctx, backend, behs, res)
    if quick:
        c = curves[ctx.seed % len(curves)]
        pair_curves = ['bn254', c] if c != 'bn254' else ['bn254', 'bls12-377']
    else:
        pair_curves = curves
    for curve in pair_curves:
        res = ctx.harness([cmd, '--curve', curve, '--par', '16'], sample, timeout=7200)
        if len(res) != len(sample):
            raise vlib.Infra('replay returned %d results for %d behaviours' % (len(res), len(sample)))
        drift_all += judge(ctx, backend, sample, res)
    ctx.extra['model_drift'] = ctx.extra.get('model_drift', 0) + len(drift_all)
    ctx.extra.setdefault('model_drift_samples', [])
    ctx.extra['model_drift_samples'] += drift_all[:5]
    ctx.extra['curves'] = curves
    ctx.extra['pair_curves'] = pair_curves
    for b in behs[:2] + sample[:3]:
        ctx.sample(b)
    return behs, sample


def key_checks(ctx, backend, curves):
    """Setup-side of C01/C02: keys of every shape / corpus circuit are checked against the circuit
    (Go port of the predicates) and the recorded key shapes are validated by TLC against
    Groth16Setup.tla / PlonkTrace.tla."""
    recs = []
    for curve in curves:
        recs += [r for r in ctx.harness(['keycheck', '--curve', curve, '--par', '16'], timeout=3600) if r['backend'] == backend]
    if not recs:
        raise vlib.Infra('keycheck produced nothing')
    for r in recs:
        ctx.case(key='%s key %s %s' % (backend, r['curve'], r['circuit']), nontrivial=True)
        for pb in r.get('problems') or []:
            if pb.startswith('INFRA') or pb.startswith('panic'):
                raise vlib.Infra('keycheck %s %s: %s' % (r['curve'], r['circuit'], pb))
            ctx.report('%s setup: key does not match the circuit: %s (circuit=%s)' % (backend, re_digits(pb), r['circuit']),
                       {'curve': r['curve'], 'circuit': r['circuit'], 'problem': pb})
    if backend == 'groth16':
        seen, items = set(), []
        for r in recs:
            lay = dict(r['layout'])
            lay['rec'] = r['rec']
            lay['name'] = r['circuit']
            k = json.dumps(lay, sort_keys=True)
            if k in seen or lay['nbWires'] > 60:
                continue
            seen.add(k)
            items.append(vlib.tla(lay))
        mc = ('---- MODULE Groth16SetupRec ----\nEXTENDS Groth16Setup\nRecLayouts == %s\n'
              'RecordedKeysOK == KeyShapeOK(lay, lay.rec)\n====\n') % vlib.tla_set(items)
        cfg = 'SPECIFICATION Spec\nCONSTANTS\n  Layouts <- RecLayouts\nINVARIANTS PartitionOK RecordedKeysOK\nCHECK_DEADLOCK FALSE\n'
        t = ctx.tlc('Groth16SetupRec', 'Groth16SetupRec.cfg', extra_files={'Groth16SetupRec.tla': mc, 'Groth16SetupRec.cfg': cfg},
                    workers=4, expect=('ok', 'invariant', 'error'), timeout=1800)
        ctx.traces += len(items)
        if t.status != 'ok':
            bad_go = any(r.get('problems') for r in recs)
            # TLC rejects a recorded key shape: decide which by the Go port of the same predicate
            culprit = [r for r in recs if not sigma_ok(r)]
            if culprit:
                for r in culprit:
                    ctx.report('groth16 setup: commitment keys are not independent / consistent (circuit=%s)' % r['circuit'],
                               {'curve': r['curve'], 'circuit': r['circuit'], 'rec': r['rec'], 'tlc': t.violated})
            elif not bad_go:
                sizes = [r for r in recs if not sizes_ok(r)]
                for r in sizes:
                    ctx.report('groth16 setup: key sizes do not match the wire partition (circuit=%s)' % r['circuit'],
                               {'curve': r['curve'], 'circuit': r['circuit'], 'rec': r['rec'], 'layout': r['layout']})
                if not sizes:
                    raise vlib.Infra('TLC rejected the recorded key shapes (%s) but no record explains it:\n%s' % (t.violated, '\n'.join(t.output.splitlines()[-25:])))
    else:
        seen, items = set(), []
        for r in recs:
            if not r.get('small') or r.get('problems'):
                continue
            sysrec = {'nbPub': r['nbPub'], 'gates': [list(g) for g in (r['gates'] or [])], 'size': r['size'], 'nbVars': r['nbVars'], 'recS': r['recS']}
            k = json.dumps(sysrec, sort_keys=True)
            if k in seen:
                continue
            seen.add(k)
            items.append(vlib.tla(sysrec))
        if items:
            mc = '---- MODULE PlonkTraceRec ----\nEXTENDS PlonkTrace\nRecSystems == %s\n====\n' % vlib.tla_set(items)
            cfg = 'SPECIFICATION Spec\nCONSTANTS\n  Systems <- RecSystems\nINVARIANTS TranscriptionOK RecordedOK\nCHECK_DEADLOCK FALSE\n'
            t = ctx.tlc('PlonkTraceRec', 'PlonkTraceRec.cfg', extra_files={'PlonkTraceRec.tla': mc, 'PlonkTraceRec.cfg': cfg},
                        workers=4, expect=('ok', 'invariant'), timeout=1800)
            ctx.traces += len(items)
            if t.status != 'ok':
                ctx.report('plonk setup: recorded permutation rejected by PlonkTrace.tla (%s)' % t.violated,
                           {'tlc_tail': t.output.splitlines()[-40:]})
    ctx.extra['key_records'] = len(recs)


def re_digits(s):
    import re
    return re.sub(r'\d+', 'N', s)[:140]


def sigma_ok(r):
    rec = r['rec']
    n = len(r['layout']['commits'])
    if len(rec['sigmaOwn']) != n or not all(rec['sigmaOwn']):
        return False
    return not any(rec['sigmaCross'][j][k] for j in range(len(rec['sigmaCross'])) for k in range(len(rec['sigmaCross'][j])) if j != k)


def sizes_ok(r):
    lay, rec = r['layout'], r['rec']
    n = len(lay['commits'])
    priv = sum(len(c['priv']) for c in lay['commits'])
    return (rec['lenVkK'] == lay['nbPub'] + n and rec['lenPkK'] == lay['nbWires'] - lay['nbPub'] - n - priv
            and rec['ckSizes'] == [len(c['priv']) for c in lay['commits']] and rec['nbVkCommitKeys'] == n)
