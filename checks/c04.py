"""C04 - compiled R1CS and sparse R1CS compute exactly what the circuit specifies.
TLC generates straight-line programs over frontend.API (ProgGen.tla: all programs of length 1, seeded random
programs of length 2-4) together with their meaning under ApiSemantics.tla on probe assignments; each program is
compiled by both real builders over the 47-element field and solved for EVERY assignment of the inputs it uses
(plus compile-option variants and the large scalar fields on corner assignments); success/failure and every
computed value are compared with the reference semantics."""
import vlib
from prog_common import gen_programs, judge_prog, prog_str

C04_CLASSES = {
    'solve fails although every assertion holds',
    'solve fails on the documented unconstrained case DivUnchecked(0,0)',
    'solve succeeds although an assertion is violated',
    'computed value differs from the reference semantics',
    'compile rejects a program the reference semantics can satisfy',
    'solver panic',
}


def run(ctx):
    quick = ctx.tier == 'quick'
    ctx.rule = ('case = (program, builder, field[, compile option]) solved on all 47^k assignments of the inputs it uses (x6 secret probes) '
                'over tinyfield, on corner assignments over large fields; non-trivial = the reference semantics accepts >=1 assignment')
    ctx.assumptions += [
        'ApiSemantics.tla is the documented meaning; its Go port is cross-checked against TLC on 64 probe assignments of every program on every run',
        'DivUnchecked by the literal constant 0 is rejected at compile time: accepted as outside the documented domain',
        'values are observed through a capture hint that takes every intermediate result as input (adds no constraint)',
    ]
    behs, n_exh = gen_programs(ctx, quick)
    ctx.extra['programs'] = len(behs)
    ctx.extra['programs_exhaustive_len1'] = n_exh
    res = ctx.harness(['progrun', '--field', 'tinyfield', '--par', '16', '--checkevery', '0'], behs, timeout=7200)
    judge_prog(ctx, behs, res, C04_CLASSES, 'tinyfield')
    # compile-option variants: compression threshold (long linear expressions are folded into a fresh wire)
    multi = [b for b in behs if len(b['prog']) >= 2]
    ctx.rng.shuffle(multi)
    for thr in (2, 3, 4, 8):
        sub = multi[:400 if quick else 3000]
        res = ctx.harness(['progrun', '--field', 'tinyfield', '--par', '16', '--checkevery', '0', '--compress', str(thr), '--builders', 'r1cs'], sub, timeout=7200)
        judge_prog(ctx, sub, res, C04_CLASSES, 'tinyfield compress=%d' % thr)
    # the other supported fields on corner assignments (0,1,2,3,p-1,p-2,p/2,2^k-1,2^k,2^64..)
    fields = ['bn254', ['bls12-377', 'bls12-381', 'bls24-315', 'bls24-317', 'bw6-633', 'bw6-761', 'babybear', 'koalabear'][ctx.seed % 8]]
    if not quick:
        fields = ['bn254', 'bls12-377', 'bls12-381', 'bls24-315', 'bls24-317', 'bw6-633', 'bw6-761', 'babybear', 'koalabear']
    allp = list(behs)
    ctx.rng.shuffle(allp)
    for f in fields:
        sub = allp[:700 if quick else 5000]
        res = ctx.harness(['progrun', '--field', f, '--par', '16', '--checkevery', '0'], sub, timeout=7200)
        judge_prog(ctx, sub, res, C04_CLASSES, f)
    ctx.extra['fields'] = ['tinyfield'] + fields
    ctx.exhaustive = False
    ctx.sample({'program': prog_str(behs[10]['prog']), 'probe': behs[10]['probes'][5]})
    ctx.sample({'program': prog_str(behs[-1]['prog']), 'probe': behs[-1]['probes'][9]})
