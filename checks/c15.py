"""C15 - in-circuit hash functions equal their reference implementations for all messages.
HashFraming.tla transcribes the padding rules of the Merkle-Damgard (SHA-256, RIPEMD-160) and sponge (SHA3-256/384/512,
Keccak-256/512) gadgets, and TLC checks that the replayed length classes contain every length (with its predecessor) at
which the number of compression / permutation calls or the padding shape changes; it enumerates family x length x
write chunking, the variable-length variants (actual length x declared maximum x minimal-length option), field hashers
(MiMC, Poseidon2) by element count / chunking / state export point, Merkle proofs by tree size and leaf, Fiat-Shamir
transcripts by challenge and binding counts.  Every case runs on the real gadget and must give the digest of the native
implementation (crypto/sha256, x/crypto, gnark-crypto); a wrong digest, the digest of a shorter prefix, a wrong leaf index
or altered sibling must be rejected."""
import vlib
from protocol_common import CURVES


def desc(c):
    if c['kind'] == 'fixed':
        return '%s len=%d chunking=%s' % (c['family'], c['len'], c['chunking'])
    if c['kind'] == 'varlen':
        return '%s variable length len=%d of max=%d minlen=%d' % (c['family'], c['len'], c['max'], c['minlen'])
    if c['kind'] == 'field':
        return '%s %d elements chunking=%s export=%d' % (c['family'], c['len'], c['chunking'], c['export'])
    if c['kind'] == 'merkle':
        return 'merkle proof leaves=%d index=%d' % (c['leaves'], c['index'])
    return 'fiat-shamir transcript challenges=%d bindings=%d%s' % (c['challenges'], c['bindings'], ' shared-hasher-in-use' if c.get('dirty') else '')


def sig(c):
    """signature: the framing class, not the exact case"""
    if c['kind'] == 'fixed':
        return '%s blocks=%d pad=%s chunking=%s' % (c['family'], c['blocks'], c['pad'], c['chunking'])
    if c['kind'] == 'varlen':
        return '%s variable length blocks=%d pad=%s' % (c['family'], c['blocks'], c['pad'])
    return desc(c)


def run(ctx):
    quick = ctx.tier == 'quick'
    ctx.rule = ('case = one framing case (hash family, length, chunking / declared maximum / export point / tree position) on one native field; '
                'non-trivial = message longer than 0 or more than one Write')
    ctx.assumptions += [
        'message contents are pseudo-random (seeded per case): the gadgets are data-oblivious circuits, what varies their control is the framing, which is enumerated',
        'lengths up to two blocks + 1; three-block behaviour is the two-block behaviour repeated',
        'the test engine evaluates the gadget code; a sample of cases is also compiled by both builders and solved by the real solvers',
    ]
    r = ctx.tlc('HashFraming', 'HashFraming.cfg', workers=1, timeout=1800)
    cases = r.beh
    if len(cases) < 1500:
        raise vlib.Infra('HashFraming produced %d cases' % len(cases))
    for i, c in enumerate(cases):
        c['id'] = i
    ctx.exhaustive = not quick
    if quick:
        s = ctx.seed
        cases = [c for c in cases if c['kind'] in ('field', 'merkle', 'transcript')
                 or (c['kind'] == 'fixed' and (c['chunking'] == 'one' or c['id'] % 6 == s % 6))
                 or (c['kind'] == 'varlen' and (c['id'] % 8 == s % 8 or (c.get('maxpad') == 'spills' and c['pad'] == 'spills' and c['minlen'] == 0)))]
    byid = {c['id']: c for c in cases}
    curves = ['bn254'] if quick else ['bn254', 'bls12-377', 'bw6-761']
    for curve in curves:
        sub = cases if curve == 'bn254' else [c for c in cases if c['kind'] != 'varlen' and (c['kind'] != 'fixed' or c['chunking'] in ('one', 'splitB'))]
        res = ctx.harness(['hashreplay', '--curve', curve, '--par', '16', '--compileevery', '150' if quick else '40'], sub, timeout=14000)
        if len(res) != len(sub):
            raise vlib.Infra('short hash replay')
        for rr in res:
            c = byid[rr['id']]
            ctx.case(key='%s %s' % (curve, desc(c)), nontrivial=c.get('len', 1) > 0)
            ctx.traces += rr['runs']
            for p in rr['problems'] or []:
                if p.startswith('INFRA'):
                    raise vlib.Infra(p)
                ctx.report('hash gadget %s: %s' % (sig(c), p.split(':')[0]), {'curve': curve, 'case': c, 'problem': p})
    ctx.extra['cases'] = len(cases)
    ctx.sample(cases[3])
    ctx.sample(cases[-30])
