"""C17 - recursive in-circuit verifiers accept exactly what the native verifiers accept.
Inner side: the behaviours of Groth16Protocol.tla and PlonkProtocol.tla (circuit shape x edits to a genuine (proof,
verifying key, public witness): element replacements by other-proof / negated / infinity / torsion / off-subgroup elements,
altered claimed values and public inputs, other keys, tampered assignments, padding) produced by TLC as for C01 / C02.
Outer side: Recursion.tla enumerates how std/recursion hands the triple to the in-circuit verifier (key as witness, key as
circuit constant, key selected among candidates by a circuit variable - including a selector that designates another key
or no key -, PLONK batches with a genuine proof, complete / incomplete arithmetic) and states which verdict the outer
circuit must have.  Every (behaviour, configuration) pair is run on the native BLS12-377 verifier configured with the
recursion options and on the in-circuit verifier over BW6-761: the outer circuit must be satisfiable exactly when the native
verifier accepts the triple against the selected key, and both must agree with Recursion.tla."""
import vlib
from protocol_common import beh_sig

G16_SHAPES = ('p1', 'p2u', 'c1s', 'c1p', 'c1po')          # the in-circuit Groth16 verifier supports at most one commitment
PLONK_SHAPES = ('p1', 'p2u', 'c1s', 'c1p', 'c1po', 'c2', 'c2i')
LENGTH_EDITS = ('ExtendPub', 'TruncPub', 'TruncCV', 'ExtendCV', 'BsbDrop', 'BsbAppend', 'CommitDrop', 'CommitAppend')
SPECIAL = ('inf', 'zero', 'vkel', 'dup')


def cfg_key(c):
    return (c['backend'], c['mode'], c['nkeys'], c['pos'], c['idx'], c['arith'])


KZG_SRC = '/repo/std/commitments/kzg/verifier.go'
# challenge derivation -> (function holding it, values the protocol requires it to bind, by normalised argument)
FS_REQUIRED = {
    'multipoint_lambda': ('FoldProofsMultiPoint', ['digests', 'proofs.Quotient', 'proofs.ClaimedValue', 'points']),
    'batch_gamma': ('deriveGamma', ['point', 'digests', 'claimedValues']),
}


def fs_binding(ctx):
    """Extracted model: which values the KZG gadget writes into the hash of each folding challenge (read from the source),
    checked by TLC against the values an adaptive prover must not be able to choose after the challenge (FsBinding.tla)."""
    import re
    try:
        src = open(KZG_SRC).read()
    except OSError as e:
        raise vlib.Infra('cannot read %s: %s' % (KZG_SRC, e))
    bound = {}
    for chal, (fn, req) in FS_REQUIRED.items():
        m = re.search(r'\nfunc \(v \*Verifier\[[^\]]*\]\) %s\(.*?\n}\n' % fn, src, re.S)
        if not m:
            raise vlib.Infra('model out of date: function %s not found in the KZG gadget' % fn)
        args = re.findall(r'Marshal(?:G1|Scalar)\(([^()]*)\)', m.group(0))
        norm = set()
        for a in args:
            a = a.strip().lstrip('&*')
            a = re.sub(r'\[[^\]]*\]', '', a)
            a = a.replace('.G1El', '')
            norm.add(a)
        if not norm:
            raise vlib.Infra('model out of date: no transcript writes recognised in %s' % fn)
        bound[chal] = sorted(norm)
    setlit = lambda xs: '{' + ', '.join('"%s"' % x for x in xs) + '}'
    mc = ['---- MODULE FsBindingMC ----', 'EXTENDS FsBinding',
          'MCChallenges == ' + setlit(sorted(FS_REQUIRED)),
          'MCBound == ' + ' @@ '.join('("%s" :> %s)' % (c, setlit(bound[c])) for c in sorted(bound)),
          'MCRequired == ' + ' @@ '.join('("%s" :> %s)' % (c, setlit(FS_REQUIRED[c][1])) for c in sorted(FS_REQUIRED)),
          '====']
    cfg = 'SPECIFICATION Spec\nCONSTANTS\n  Challenges <- MCChallenges\n  Bound <- MCBound\n  Required <- MCRequired\n  Emit = TRUE\nCHECK_DEADLOCK FALSE\n'
    r = ctx.tlc('FsBindingMC', 'FsBindingMC.cfg', workers=1, extra_files={'FsBindingMC.tla': '\n'.join(mc) + '\n', 'FsBindingMC.cfg': cfg})
    if len(r.beh) != len(FS_REQUIRED):
        raise vlib.Infra('FsBinding produced %d rows' % len(r.beh))
    for row in r.beh:
        ctx.case(key='fiat-shamir binding ' + row['challenge'], nontrivial=True)
        if row['verdict'] == 'forgeable':
            ctx.report('kzg gadget challenge %s does not bind %s: an adaptive prover chooses it after the challenge'
                       % (row['challenge'], ', '.join(sorted(row['free']))), {'bound': bound, 'row': row})
    ctx.extra['fs_binding_extracted'] = bound


def run(ctx):
    quick = ctx.tier == 'quick'
    fs_binding(ctx)
    ctx.rule = ('case = inner behaviour (circuit shape x edit sequence, TLC) x outer configuration (Recursion.tla) judged natively '
                'and in-circuit; non-trivial = at least one edit or a selector that does not designate the triple\'s own key')
    ctx.assumptions += [
        'two-chain recursion (BLS12-377 inner, BW6-761 outer); Groth16 inner circuits with 0 or 1 commitment (the in-circuit '
        'verifier supports no more), PLONK inner circuits with 0-2 commitments; native prover / verifier run with the recursion options',
        'the outer circuit is evaluated by the test engine (satisfiability of the verifier gadget), not proven',
        'edits that change a length (public witness, claimed values, commitments) are outside the in-circuit verifier\'s input '
        'space: the sizes are fixed by the outer circuit',
        'incomplete arithmetic: behaviours with exceptional elements (infinity, key elements, zero scalars) are not judged',
        'not covered: emulated pairings (BN254 / BLS12-381 / BW6-761 inner over BN254), BLS24-315 in BW6-633',
    ]
    # ---- outer configurations
    rc = ctx.tlc('Recursion', 'Recursion.cfg', workers=1)
    expect = {}
    for r in rc.beh:
        c = r['cfg']
        expect[cfg_key(c) + (c['innerOK'], c['special'])] = r['expect']
    outer = sorted({cfg_key(r['cfg']) for r in rc.beh})
    if len(outer) < 20:
        raise vlib.Infra('Recursion.tla produced %d outer configurations' % len(outer))
    ctx.extra['outer_configurations'] = len(outer)
    # ---- inner behaviours
    def fits(b, shapes):
        return b['shape'] in shapes and not any(e['op'] in LENGTH_EDITS for e in b['edits'])
    inner = {}
    for backend, module, shapes in (('groth16', 'Groth16Protocol', G16_SHAPES), ('plonk', 'PlonkProtocol', PLONK_SHAPES)):
        r1 = ctx.tlc(module, module + '_gen1.cfg', workers=1)
        rp = ctx.tlc(module, module + '_pad.cfg', workers=1)
        behs = [b for b in r1.beh + rp.beh if fits(b, shapes)]
        if not quick:
            r2 = ctx.tlc(module, module + '_gen2.cfg', workers=1, timeout=1800)
            pairs = [b for b in r2.beh if len(b['edits']) == 2 and fits(b, shapes)]
            ctx.rng.shuffle(pairs)
            behs += pairs[:1500]
        if len(behs) < 40:
            raise vlib.Infra('too few %s behaviours: %d' % (backend, len(behs)))
        # the same behaviours on inner circuits whose public inputs are zero (exceptional scalars of the in-circuit MSM)
        zero = [dict(b, shape=z) for b in behs if b['shape'] == 'p1' and len(b['edits']) <= 1 for z in ('p1z', 'p3z')]
        inner[backend] = behs + zero
    # ---- pair every behaviour with outer configurations: every behaviour in witness mode, and a rotation through the others
    cases = []
    for backend, behs in inner.items():
        cfgs = [c for c in outer if c[0] == backend]
        others = [c for c in cfgs if not (c[1] == 'witness' and c[5] == 'complete')]
        ctx.rng.shuffle(behs)
        per = 1 if quick else 3
        for n, b in enumerate(behs):
            special = any(e.get('cls') in SPECIAL for e in b['edits']) or b['shape'] in ('p1z', 'p3z')   # zero scalars
            chosen = [(backend, 'witness', 1, 0, 0, 'complete')]
            for k in range(per):
                chosen.append(others[(n * per + k) % len(others)])
            if not b['edits']:
                chosen = cfgs          # the genuine triple goes through every configuration
            for c in chosen:
                if c[5] == 'incomplete' and special:
                    continue
                cases.append(dict(b, backend=c[0], mode=c[1], nkeys=c[2], pos=c[3], idx=c[4], arith=c[5], special=special))
    if quick:
        keep = [c for c in cases if not c['edits']]
        rest = [c for c in cases if c['edits']]
        ctx.rng.shuffle(rest)
        cases = keep + rest[:1400]
    for i, c in enumerate(cases):
        c['id'] = i
    ctx.exhaustive = False
    res = ctx.harness(['c17replay', '--par', '16'], cases, timeout=10000)
    if len(res) != len(cases):
        raise vlib.Infra('short recursion replay')
    judged = 0
    seen_cfg = set()
    verdicts = {}
    for rr in res:
        b = cases[rr['id']]
        if rr['circuit'] in ('skip', 'unsupported'):
            continue
        if rr['native'] not in ('accept', 'reject'):
            raise vlib.Infra('native verdict unusable: %s' % rr)
        circuit = 'reject' if rr['circuit'] == 'unassignable' else rr['circuit']
        name = '%s mode=%s keys=%d pos=%d idx=%d arith=%s %s' % (b['backend'], b['mode'], b['nkeys'], b['pos'], b['idx'], b['arith'], beh_sig(b))
        # what Recursion.tla demands, given the native verdict on the triple's own key
        if b['mode'] == 'switch' and b['idx'] != b['pos']:
            # the selector designates another key or no key: rejected whatever the triple is
            models = {expect.get((b['backend'], b['mode'], b['nkeys'], b['pos'], b['idx'], b['arith'], ok, b['special'])) for ok in (True, False)}
            model = models.pop() if len(models) == 1 else None
        else:
            model = expect.get((b['backend'], b['mode'], b['nkeys'], b['pos'], b['idx'], b['arith'], rr['native'] == 'accept', b['special']))
        if model is None:
            raise vlib.Infra('no Recursion.tla configuration for %s' % name)
        if model == 'either':
            continue
        if model != rr['native']:
            raise vlib.Infra('native oracle and Recursion.tla disagree on %s: %s vs %s' % (name, rr['native'], model))
        judged += 1
        seen_cfg.add(cfg_key(b))
        verdicts[(b['backend'], rr['native'])] = verdicts.get((b['backend'], rr['native']), 0) + 1
        ctx.case(key=name, nontrivial=len(b['edits']) > 0 or (b['mode'] == 'switch' and b['idx'] != b['pos']))
        ctx.traces += 1
        if circuit != rr['native']:
            ctx.report('recursion %s mode=%s idx%spos arith=%s %s: native verifier %ss, in-circuit verifier %ss'
                       % (b['backend'], b['mode'], '=' if b['idx'] == b['pos'] else '!=', b['arith'], beh_sig(b), rr['native'], circuit),
                       {'case': b, 'result': rr})
    if judged < len(cases) // 3:
        raise vlib.Infra('only %d of %d cases reached the in-circuit verifier' % (judged, len(cases)))
    missing = [c for c in outer if c not in seen_cfg]
    if missing:
        raise vlib.Infra('outer configurations never judged: %s' % missing[:5])
    for k in (('groth16', 'accept'), ('groth16', 'reject'), ('plonk', 'accept'), ('plonk', 'reject')):
        if verdicts.get(k, 0) < 5:
            raise vlib.Infra('vacuous: only %d %s cases with native verdict %s' % (verdicts.get(k, 0), k[0], k[1]))
    ctx.extra['judged'] = judged
    ctx.extra['verdicts'] = {'%s/%s' % k: v for k, v in verdicts.items()}
    ctx.sample(cases[0])
    ctx.sample(cases[-1])
