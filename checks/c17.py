"""C17 - recursive in-circuit verifiers accept exactly what the native verifiers accept.
The behaviours of Groth16Protocol.tla (circuit shape x edits to a genuine (proof, verifying key, public witness): element
replacements by other-proof / negated / infinity / torsion elements, public-input edits, padding, replays) are produced by
TLC as for C01; each edited triple is judged by the native BLS12-377 verifier and handed to the in-circuit verifier of
std/recursion/groth16 compiled over BW6-761 (complete arithmetic and subgroup checks, the options matching the native
verifier): the outer circuit must be satisfiable exactly when the native verifier accepts."""
import vlib
from protocol_common import beh_sig

SHAPES = ('p1', 'p2u')     # inner circuits without commitments


def run(ctx):
    quick = ctx.tier == 'quick'
    ctx.rule = ('behaviour = inner circuit shape x edit sequence (TLC, Groth16Protocol.tla) judged natively and in-circuit; '
                'non-trivial = at least one edit')
    ctx.assumptions += [
        'Groth16 two-chain (BLS12-377 inner, BW6-761 outer) with witness-supplied verifying key; inner circuits without commitments',
        'the outer circuit is evaluated by the test engine (satisfiability of the verifier gadget), not proven',
        'edits that change the length of the public witness are outside the in-circuit verifier\'s input space (the size is fixed by the outer circuit)',
        'not covered: PLONK recursion, emulated pairings (BN254 / BLS12-381 / BW6 in BN254), Pedersen commitments in the inner proof, key switching',
    ]
    r1 = ctx.tlc('Groth16Protocol', 'Groth16Protocol_gen1.cfg', workers=1)
    rp = ctx.tlc('Groth16Protocol', 'Groth16Protocol_pad.cfg', workers=1)
    # a public witness of another length cannot be expressed for the in-circuit verifier (its size is part of the circuit)
    fits = lambda b: b['shape'] in SHAPES and not any(e['op'] in ('ExtendPub', 'TruncPub') for e in b['edits'])
    behs = [b for b in r1.beh + rp.beh if fits(b)]
    if not quick:
        r2 = ctx.tlc('Groth16Protocol', 'Groth16Protocol_gen2.cfg', workers=1, timeout=1800)
        pairs = [b for b in r2.beh if len(b['edits']) == 2 and fits(b)]
        ctx.rng.shuffle(pairs)
        behs += pairs[:600]
    if len(behs) < 40:
        raise vlib.Infra('too few behaviours without commitments: %d' % len(behs))
    if quick:
        ctx.rng.shuffle(behs)
        behs = behs[:160]
    for i, b in enumerate(behs):
        b['id'] = i
    ctx.exhaustive = False
    res = ctx.harness(['c17replay', '--par', '16'], behs, timeout=10000)
    if len(res) != len(behs):
        raise vlib.Infra('short recursion replay')
    judged = 0
    for rr in res:
        b = behs[rr['id']]
        if rr['circuit'] == 'skip':
            continue
        if rr['native'] not in ('accept', 'reject'):
            raise vlib.Infra('native verdict unusable: %s' % rr)
        judged += 1
        ctx.case(key=beh_sig(b), nontrivial=len(b['edits']) > 0)
        ctx.traces += 1
        circuit = 'reject' if rr['circuit'] == 'unassignable' else rr['circuit']
        if circuit != rr['native']:
            ctx.report('recursion groth16 %s: native verifier %ss, in-circuit verifier %ss' % (beh_sig(b), rr['native'], circuit),
                       {'behaviour': b, 'result': rr})
    if judged < len(behs) // 3:
        raise vlib.Infra('only %d of %d behaviours reached the in-circuit verifier' % (judged, len(behs)))
    ctx.extra['judged'] = judged
    ctx.sample(behs[0])
    ctx.sample(behs[-1])
