"""C02 - PLONK verification accepts only proofs of the stated public inputs.
Same construction as C01 on specs/PlonkProtocol.tla."""
from protocol_common import run_protocol, key_checks, CURVES
from c01 import RULE, ASSUME


def run(ctx):
    ctx.rule = RULE % 'PlonkProtocol'
    ctx.assumptions += ASSUME
    run_protocol(ctx, 'PlonkProtocol', 'plonkreplay', 'plonk', quick_pairs=1500, thorough_pairs=40000)
    ctx.tlc('PlonkTraceMC', 'PlonkTraceMC.cfg', workers=8)
    key_checks(ctx, 'plonk', CURVES if ctx.tier != 'quick' else ['bn254', CURVES[1 + ctx.seed % 6]])
