"""C02 - PLONK verification accepts only proofs of the stated public inputs.
Same construction as C01 on specs/PlonkProtocol.tla."""
from protocol_common import run_protocol
from c01 import RULE, ASSUME


def run(ctx):
    ctx.rule = RULE % 'PlonkProtocol'
    ctx.assumptions += ASSUME
    run_protocol(ctx, 'PlonkProtocol', 'plonkreplay', 'plonk', quick_pairs=1500, thorough_pairs=40000)
