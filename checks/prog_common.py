"""Shared driver for the R3 program checks (C04, C06): TLC-generated straight-line programs are compiled by the
real builders and solved for every assignment; results are compared with ApiSemantics."""
import json
import vlib


def prog_str(p):
    return '; '.join(i['op'] + ('[%d]' % i['n'] if i['op'] in ('ToBinary', 'GRangePlain', 'GPartition') else '') + '(' + ','.join(a['k'] + str(a['i']) for a in i['a']) + ')' for i in p)


def gen_programs(ctx, quick):
    progs = []
    r1 = ctx.tlc('ProgGenMC', 'ProgGen_len1.cfg', workers=1, timeout=1800)
    progs += r1.beh
    rd = ctx.tlc('ProgGenMC', 'ProgGen_derived.cfg', workers=1, timeout=1800)
    progs += rd.beh
    rb = ctx.tlc('ProgGenMC', 'ProgGen_bool.cfg', workers=1, timeout=1800)
    progs += rb.beh
    n_exh = len(progs)
    sims = [(2, 1200, 30), (3, 1500, 40), (4, 600, 50)] if quick else [(2, 6000, 30), (3, 8000, 40), (4, 4000, 50)]
    for L, num, depth in sims:
        r = ctx.tlc('ProgGenMC', 'ProgGen_len%d.cfg' % L, workers=1, simulate=num, depth=depth, deadlock=False, timeout=3600)
        progs += r.beh
    seen, out = set(), []
    for b in progs:
        k = json.dumps(b['prog'], sort_keys=True)
        if k in seen:
            continue
        seen.add(k)
        b['id'] = len(out)
        out.append(b)
    return out, n_exh


CLASS_PROPERTY = {
    'returned solution is not a satisfying assignment': 'C06',
    'solver panic': 'C06',
}


def judge_prog(ctx, behs, results, want_classes=None, label=''):
    byid = {b['id']: b for b in behs}
    for r in results:
        b = byid[r['id']]
        if r.get('port_vs_tlc'):
            raise vlib.Infra('Go port of ApiSemantics disagrees with TLC on %s: %s' % (prog_str(b['prog']), r['port_vs_tlc']))
        ctx.case(key='%s %s %s %s' % (label, r['field'], r['builder'], prog_str(b['prog'])), nontrivial=r['oracle_sat'] > 0 and r['solves'] > 1)
        ctx.traces += 1
        ctx.extra['solves'] = ctx.extra.get('solves', 0) + r['solves']
        ctx.extra['solution_checks'] = ctx.extra.get('solution_checks', 0) + r['solution_checks']
        for cls, example in (r.get('disc') or {}).items():
            if cls.startswith('INFRA'):
                raise vlib.Infra('program driver: %s %s (%s)' % (cls, example, prog_str(b['prog'])))
            if want_classes is not None and cls not in want_classes:
                continue
            ops = '+'.join(sorted({i['op'] for i in b['prog']})) if len(b['prog']) > 1 else prog_str(b['prog'])
            sig = '%s: %s builder=%s program=%s' % (label, cls, r['builder'], ops if len(b['prog']) > 1 else prog_str(b['prog']))
            ctx.report(sig, {'program': prog_str(b['prog']), 'prog': b['prog'], 'builder': r['builder'], 'field': r['field'],
                             'class': cls, 'example': example, 'count': r['disc_count'][cls]})
