"""C14 - comparison, selection and bit-slice gadgets have exact semantics.
The documented relation of each gadget (cmp.IsLess / IsLessOrEqual, selector.Mux with 2-5 inputs, selector.Map,
selector.Decoder, bitslice.Partition) is part of ApiSemantics.tla; ProgGen.tla enumerates every gadget call with every
operand-kind pattern; each is compiled by both real builders over F_47 and (a) solved honestly for every assignment
(exact result inside the domain, unsatisfiable outside it where documented), (b) enumerated adversarially: every
satisfying assignment of every wire - every hinted indicator / bit - must obey the relation (ConstraintSat.tla)."""
import vlib
from prog_common import judge_prog, prog_str
import c05

CLASSES = {
    'solve fails although every assertion holds',
    'solve succeeds although an assertion is violated',
    'computed value differs from the reference semantics',
    'compile rejects a program the reference semantics can satisfy',
    'solver panic',
}


def run(ctx):
    quick = ctx.tier == 'quick'
    ctx.rule = ('case = one gadget call with one operand-kind pattern, compiled by one builder over F_47 (and the large fields for the honest run); '
                'non-trivial = the reference relation accepts >= 1 assignment')
    ctx.assumptions += [
        'exhaustive over F_47 for all operand values; the bounded comparator and the 8/32/64-bit word gadgets are not in this generator (their widths exceed the toy field)',
        'Go enumerator = twin of ConstraintSat.tla, validated against TLC by exact state counts on a seeded subset',
    ]
    r = ctx.tlc('ProgGenMC', 'ProgGen_gadgets.cfg', workers=1, timeout=1800)
    behs = r.beh
    for i, b in enumerate(behs):
        b['id'] = i
    ctx.exhaustive = True
    # (a) honest semantics, all assignments; plus large fields on corner values
    res = ctx.harness(['progrun', '--field', 'tinyfield', '--par', '16', '--checkevery', '3'], behs, timeout=7200)
    judge_prog(ctx, behs, res, CLASSES | {'returned solution is not a satisfying assignment'}, 'tinyfield')
    for f in (['bn254'] if quick else ['bn254', 'bls12-377', 'bw6-761', 'babybear']):
        res = ctx.harness(['progrun', '--field', f, '--par', '16', '--checkevery', '0'], behs, timeout=7200)
        judge_prog(ctx, behs, res, CLASSES, f)
    # (b) soundness: every satisfying assignment
    en = ctx.harness(['satenum', '--field', 'tinyfield', '--cases', '1', '--budget', '80000000', '--par', '16'], behs, timeout=7200)
    usable = [e for e in en if not e.get('skip')]
    bud = [e['name'] for e in en if (e.get('skip') or '').startswith('budget')]
    ctx.extra['cases'] = len(usable)
    ctx.extra['cases_budget_exceeded'] = bud
    if bud:
        ctx.exhaustive = False
    for e in usable:
        ctx.case(key='sat ' + e['name'], nontrivial=e['nb_rows'] > 0)
        ctx.traces += 1
        if e['nb_violations']:
            ctx.report('gadget constraints admit an assignment outside the documented relation: %s' % e['name'],
                       {'case': e['name'], 'examples': e['violations'], 'count': e['nb_violations']})
    cand = [e for e in usable if e['tree'] <= 5000 and e['explored'] == e['tree'] and e['case']['rows'] and e['case']['op']]
    ctx.rng.shuffle(cand)
    pick, total = [], 0
    for e in cand:
        if total + e['tree'] > (15000 if quick else 400000):
            continue
        pick.append(e)
        total += int(e['tree'])
    for e in pick:
        c = e['case']
        c['rows'] = c.get('rows') or []
        c['args'] = c.get('args') or []
        if not c05.tables_ok(c):
            raise vlib.Infra('exporter tables inconsistent for ' + c['name'])
    if pick:
        before = ctx.states
        found = c05.run_sat(ctx, [e['case'] for e in pick], 'gadgets', timeout=3000)
        for case, asg in found:
            if not c05.check_counterexample(case, asg):
                raise vlib.Infra('TLC counterexample does not satisfy the exported rows: ' + case['name'])
            ctx.report('gadget constraints admit an assignment outside the documented relation: %s' % case['name'],
                       {'case': case['name'], 'assignment': dict(zip(case['order'], asg)), 'found_by': 'TLC'})
        if not found and ctx.states - before != sum(int(e['tree']) for e in pick):
            raise vlib.Infra('TLC / Go enumerator state counts differ on the gadget subset')
    ctx.extra['tlc_subset_cases'] = len(pick)
    wide(ctx, quick)
    ctx.sample({'program': prog_str(behs[0]['prog']), 'probe': behs[0]['probes'][3]})
    ctx.sample({'program': prog_str(behs[-1]['prog'])})


def wide_desc(c):
    if c['g'] == 'cmp':
        return 'BoundedComparator(%d).%s' % (c['U'], c['m'])
    if c['g'] == 'bitpart':
        return 'bitslice.Partition(split=%d, WithNbDigits(%d))' % (c['split'], c['digits'])
    if c['g'] == 'selpart':
        return 'selector.Partition(n=%d, rightSide=%s)' % (c['n'], c['right'])
    if c['g'] == 'slice':
        return 'selector.Slice(n=%d)' % c['n']
    return 'selector.Mux(1 input)'


def wide(ctx, quick):
    """GadgetsWide.tla: bounded comparator contract over a toy prime (TLC) + cases replayed on the real gadgets."""
    import re
    r = ctx.tlc('GadgetsWide', 'GadgetsWide.cfg', workers=1, timeout=1800)
    if not quick:
        ctx.tlc('GadgetsWide', 'GadgetsWide_47.cfg', workers=1, timeout=1800)
    cases = r.beh
    if len(cases) < 2000:
        raise vlib.Infra('GadgetsWide produced %d cases' % len(cases))
    for i, c in enumerate(cases):
        c['id'] = i
    for curve in (['bn254'] if quick else ['bn254', 'bls12-377', 'bw6-761']):
        res = ctx.harness(['gwreplay', '--curve', curve, '--par', '16'], cases, timeout=7200)
        if len(res) != len(cases):
            raise vlib.Infra('short wide-gadget replay')
        for rr in res:
            c = cases[rr['id']]
            ctx.case(key='wide %s %s %s %s' % (curve, wide_desc(c), c['in'], c['exp']), nontrivial=c['exp'] != 'either')
            ctx.traces += rr['runs']
            for p in rr['problems'] or []:
                if p.startswith('INFRA'):
                    raise vlib.Infra(p)
                head = re.sub(r'\d{4,}', 'N', p.split(':')[0])
                ctx.report('wide gadget %s: %s' % (wide_desc(c), head), {'curve': curve, 'case': c, 'problem': p})
    ctx.extra['wide_cases'] = len(cases)
    ctx.extra['wide_hint_perturbations'] = sum(rr['tampered'] for rr in res)
    ctx.sample({'wide_case': cases[7]})
