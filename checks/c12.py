"""C12 - emulated (non-native) field arithmetic is correct and cannot be cheated.
EmulatedOps.tla defines programs over an emulated field Z_q (witness elements, minimal-limb constants, temporaries;
Add/Sub/Mul/Div/Inverse/Reduce/Select/Mux/Lookup2/Sum/long addition chains/IsZero) with integer arithmetic modulo q as
their meaning; TLC generates every one-instruction program and simulates longer ones, and evaluates them over the toy
modulus 13 on 32 probes.  Each program is replayed on the real emulated.Field for several parameter sets (a 13-modulus
with 3-bit limbs, where every overflow/padding path is hit by tiny values, and secp256k1 / bn254 / P-384 / goldilocks /
bls12-381), through the test engine and through the real provers: the result must equal the reference, a result off by
one must be rejected, division by zero must be unsatisfiable, and perturbing any emulated hint's output must make the
prover fail."""
import vlib


def prog_str(p):
    def ref(r):
        return 't%d' % r['i'] if r['k'] == 't' else r['k']
    return '; '.join('%s(%s)' % (i['op'], ','.join(ref(r) for r in i['a'])) for i in p)


def run(ctx):
    quick = ctx.tier == 'quick'
    ctx.rule = ('case = one program x one emulated parameter set x one valuation (a, b, selector); '
                'non-trivial = program uses at least one hinted operation (Mul, Div, Inverse, Reduce, long chain, IsZero)')
    ctx.assumptions += [
        'values: all 32 TLC probes for the toy modulus; 16 corner valuations x 4 selector values for the large moduli',
        'the Go port of the reference semantics used for large moduli is compared with the TLC evaluation on every toy-modulus probe',
        '0/0 under Div is treated as unspecified (q*0 == 0 holds for every q)',
        'a program that no valuation satisfies (constant division by zero) may be rejected at compile time',
        'adversaries: every called hint output perturbed by one (first / last output), and the wrap attack on the deferred multiplication check (EmulatedMulCheck.tla) for single multiplications of two witnesses',
    ]
    # what the deferred multiplication check binds, over toy parameters (bounded vs free carries)
    ctx.tlc('EmulatedMulCheck', 'EmulatedMulCheck.cfg', workers=1, timeout=900)
    r1 = ctx.tlc('EmulatedOps', 'EmulatedOps_len1.cfg', workers=1, timeout=1800)
    one = r1.beh
    if len(one) != 1330:
        raise vlib.Infra('expected 1330 one-instruction programs, TLC produced %d' % len(one))
    ctx.exhaustive = not quick
    if quick:
        ctx.rng.shuffle(one)
        # every operation stays represented
        keep, per = [], {}
        for b in one:
            op = b['prog'][0]['op']
            # the two-witness multiplications carry the wrap-attack replay: always kept
            if prog_str(b['prog']) in ('Mul(a,b)', 'Mul(a,a)', 'Sqr(a)') or per.get(op, 0) < 5:
                per[op] = per.get(op, 0) + 1
                keep.append(b)
        one = keep
    r2 = ctx.tlc('EmulatedOps', 'EmulatedOps_len2.cfg', workers=1, simulate=(40 if quick else 600), depth=40, timeout=1800, deadlock=True)
    r3 = ctx.tlc('EmulatedOps', 'EmulatedOps_len3.cfg', workers=1, simulate=(40 if quick else 600), depth=60, timeout=1800, deadlock=True)
    rt = ctx.tlc('EmulatedOps', 'EmulatedOps_targets.cfg', workers=1, timeout=900)
    if len(rt.beh) < 14:
        raise vlib.Infra('targeted programs missing: %d' % len(rt.beh))
    seen, behs = set(), []
    for b in rt.beh + one + r2.beh + r3.beh:
        k = prog_str(b['prog'])
        if k in seen:
            continue
        seen.add(k)
        b['id'] = len(behs)
        behs.append(b)
    if len(behs) < 100:
        raise vlib.Infra('too few programs: %d' % len(behs))
    sets = ['mod13', 'secp256k1'] if quick else ['mod13', 'secp256k1', 'bn254fp', 'goldilocks', 'p384', 'bls12381fr', 'mod65521']
    natives = ['bn254'] if quick else ['bn254', 'bls12-377']
    byid = {b['id']: b for b in behs}
    hinted = {'Mul', 'Sqr', 'Div', 'Inverse', 'Reduce', 'AddChain', 'IsZeroSel', 'MulNR', 'SqrtSq', 'Exp', 'CanonBits', 'Bits', 'AssertEq', 'AssertDiff', 'LeqStrict', 'ReduceStrict', 'Eval2', 'ModMulB', 'ModAddB', 'ModExpB', 'LookupOvf', 'ModAddChain'}
    for native in natives:
        ps = sets if native == 'bn254' else ['mod13', 'secp256k1']
        res = ctx.harness(['emureplay', '--curve', native, '--params', ','.join(ps), '--par', '16'], behs, timeout=14000)
        if len(res) != len(behs) * len(ps):
            raise vlib.Infra('short emulated replay: %d of %d' % (len(res), len(behs) * len(ps)))
        for rr in res:
            b = byid[rr['id']]
            nt = any(i['op'] in hinted for i in b['prog'])
            for _ in range(1):
                ctx.case(key='%s %s %s' % (native, rr['params'], prog_str(b['prog'])), nontrivial=nt)
            ctx.traces += rr['cases']
            for p in rr['problems'] or []:
                if p.startswith('INFRA'):
                    raise vlib.Infra(p)
                import re
                head = p.split(':')[0]
                ctx.report('emulated %s: %s [%s]' % (rr['params'], re.sub(r'\d{3,}', 'N', head)[:120], prog_str(b['prog'])),
                           {'native': native, 'params': rr['params'], 'program': prog_str(b['prog']), 'problem': p})
    ctx.extra['programs'] = len(behs)
    ctx.extra['parameter_sets'] = sets
    ctx.sample({'program': prog_str(behs[0]['prog']), 'probe': behs[0]['probes'][5]})
    ctx.sample({'program': prog_str(behs[-1]['prog']), 'probe': behs[-1]['probes'][9]})
