"""C19 - GKR-delegated computation equals direct computation and cannot be forged.
GkrTopo.tla builds GKR circuits one choice at a time (add / sub / mul / neg / identity gates over 1-2 inputs, fan-out,
1-8 instances, an optional series dependency feeding an output of instance k into an input of instance k+1) and
evaluates them directly over F_47 on a probe; every one-gate topology and simulated 2-4 gate topologies are replayed
through std/gkr on the real fields: exported values must equal the direct evaluation (test engine, and the compiled
circuit through the real Groth16 prover), a wrong expectation must be rejected, and every output of the solving hint and
of the proving hint perturbed by one must make the circuit unsatisfiable."""
import vlib
from protocol_common import CURVES


def topo_str(b):
    g = '; '.join('%s(%s)' % (x['op'], ','.join(str(a) for a in x['a'])) for x in b['gates'])
    s = '' if b['series']['input'] < 0 else ' series(%s) in%d<-g%d' % (b['series']['pattern'], b['series']['input'], b['series']['gate'])
    s += ' late-import' if b.get('late') else ''
    return '%d inputs: %s x%d%s' % (b['nIn'], g, b['nInst'], s)


def run(ctx):
    quick = ctx.tier == 'quick'
    ctx.rule = ('case = one topology (gates, instance count, series dependency) on one curve; '
                'non-trivial = more than one instance or more than one gate')
    ctx.assumptions += [
        'gates are the natively registered ones (add, sub, mul, neg, identity): custom gates need registration in an internal package the harness cannot import',
        'the dishonest prover serves the GKR solving / proving hints itself (the constraint system is pointed at unused hint ids), with the genuine functions and one output perturbed',
        'Fiat-Shamir hash: MiMC of the curve',
    ]
    r1 = ctx.tlc('GkrTopo', 'GkrTopo_g1.cfg', workers=1, timeout=900)
    r4 = ctx.tlc('GkrTopo', 'GkrTopo_g4.cfg', workers=1, simulate=(200 if quick else 800), depth=40, timeout=900, deadlock=True)
    seen, behs = set(), []
    for b in r1.beh + r4.beh:
        k = topo_str(b)
        if k in seen:
            continue
        seen.add(k)
        b['id'] = len(behs)
        behs.append(b)
    if len(behs) < 120:
        raise vlib.Infra('GkrTopo produced %d topologies' % len(behs))
    ctx.exhaustive = False
    curves = ['bn254', CURVES[1 + ctx.seed % (len(CURVES) - 1)]] if quick else CURVES
    for curve in curves:
        sub = behs if curve == 'bn254' else behs[::3]
        res = ctx.harness(['c19replay', '--curve', curve, '--par', '16', '--tamperevery', '2' if quick else '1'], sub, timeout=7200, crash_ok=True)
        if ctx.last_crash:
            import re
            ctx.report('gkr: solving a delegated circuit crashed the process: %s' % re.sub(r'\d+', 'N', ctx.last_crash)[:160], {'curve': curve, 'crash': ctx.last_crash})
            continue
        if len(res) != len(sub):
            raise vlib.Infra('short GKR replay')
        byid = {b['id']: b for b in sub}
        for rr in res:
            b = byid[rr['id']]
            ctx.case(key='%s %s' % (curve, topo_str(b)), nontrivial=b['nInst'] > 1 or len(b['gates']) > 1)
            ctx.traces += rr['runs']
            for p in rr['problems'] or []:
                if p.startswith('INFRA'):
                    raise vlib.Infra(p)
                head = p.split(':')[0]
                tail = 'index out of range' if 'index out of range' in p else ''
                ctx.report('gkr instances=%d gates=%d%s: %s %s' % (b['nInst'], len(b['gates']), ' series' if b['series']['input'] >= 0 else '', head, tail),
                           {'curve': curve, 'topology': topo_str(b), 'behaviour': b, 'problem': p})
    ctx.extra['topologies'] = len(behs)
    ctx.extra['hint_perturbations'] = sum(rr['tampered'] for rr in res)
    ctx.sample({'topology': topo_str(behs[3]), 'probe': behs[3]['probe']})
    ctx.sample({'topology': topo_str(behs[-1]), 'probe': behs[-1]['probe']})
