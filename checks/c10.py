"""C10 - solving and proving are independent of scheduling and of concurrent use.
(1) SharedCS.tla model-checked by TLC (lookup-blueprint cache shared between concurrent Solve calls; option
    slice appended in place or copied); (2) every complete schedule of the gate-level model replayed
    deterministically on the real solver through the verif gates - the entries each caller really reads are
    compared with the model's prediction and with the caller's own table (Isolation); (3) stress / history
    differential on the real code: solver task counts, call histories, concurrent Solve, concurrent
    Prove+Verify sharing cs/pk/vk and an option slice with spare capacity; thorough tier also under -race."""
import json, os, re, subprocess
import vlib


def run(ctx):
    quick = ctx.tier == 'quick'
    ctx.rule = ('(a) schedule = complete interleaving of the gate-level actions of 2 callers of one lookup-table system, '
                'enumerated exhaustively by TLC; (b) stress case = (kind, circuit, system) with its runs; '
                'non-trivial = a schedule in which the callers interleave / a case with >1 run')
    ctx.assumptions += [
        'gated replay covers Solve; Prove-level sharing (option slice, keys, proof objects) is covered by the stress differential',
        'stress runs can miss a race but cannot invent one: a failure is a wrong result, panic or hang of the real code',
    ]
    # ---- (1) design-level model checking
    fine = ctx.tlc('SharedCS', 'SharedCS_fine.cfg', workers=4, expect=('ok', 'invariant'))
    ctx.extra['model_fine_grained'] = ('violates %s (the shared cache design is not isolation-safe: finding F5)' % fine.violated
                                        if fine.status == 'invariant' else 'holds')
    inplace = ctx.tlc('SharedCS', 'SharedCS_inplace.cfg', workers=4, expect=('invariant',), count=False)
    ctx.extra['model_inplace_append'] = 'violates %s (what finding F7 was)' % inplace.violated
    gen = ctx.tlc('SharedCS', 'SharedCS_gen.cfg', workers=1)
    behs = gen.beh
    for i, b in enumerate(behs):
        b['id'] = i
    # ---- (2) gated deterministic replay
    mismatches = []
    for builder in ('r1cs', 'scs'):
        res = ctx.harness(['c10gated', '--builder', builder], behs, timeout=1800)
        if len(res) != len(behs):
            raise vlib.Infra('short gated replay')
        for b, r in zip(behs, res):
            if r['status'] != 'ok':
                # the real code could not follow the schedule (e.g. blocked where the model says it can run)
                mismatches.append({'sched': b['sched'], 'status': r['status']})
                continue
            interleaved = any(b['sched'][k]['c'] != b['sched'][k + 1]['c'] for k in range(len(b['sched']) - 1))
            ctx.case(key='sched %s %d' % (builder, b['id']), nontrivial=interleaved)
            ctx.traces += 1
            model = [o['read'] for o in b['outcome']]
            if r['read'] != model:
                mismatches.append({'sched': b['sched'], 'model': model, 'real': r['read']})
            foreign = [c + 1 for c, rd in enumerate(r['read']) if any(x != c + 1 for x in rd)]
            if foreign:
                kinds = sorted({('zero' if x == 0 else 'foreign') for c in foreign for x in r['read'][c - 1] if x != c})
                ctx.report('concurrent Solve sharing a lookup-table system (%s): caller reads table entries not computed from its own witness (%s)'
                           % (builder, '+'.join(kinds)), {'schedule': b['sched'], 'read': r['read'], 'errors': r['err']})
    ctx.extra['gated_schedules'] = len(behs)
    ctx.extra['model_vs_code_mismatches'] = len(mismatches)
    ctx.extra['model_vs_code_mismatch_samples'] = mismatches[:3]
    ctx.sample({'schedule': behs[len(behs) // 2]['sched'], 'model_outcome': behs[len(behs) // 2]['outcome']})
    ctx.tlc('SolverSplitMC', 'SolverSplit.cfg', workers=16, timeout=1200)
    # ---- (3) stress / history differential
    curves = ['bn254'] if quick else ['bn254', 'bls12-377', 'bw6-761']
    for curve in curves:
        recs = ctx.harness(['c10stress', '--curve', curve, '--seed', str(ctx.seed), '--rounds', '6' if quick else '20', '--goroutines', '8' if quick else '16'],
                           timeout=3600, crash_ok=True)
        if ctx.last_crash:
            import re as _re
            ctx.report('stress / history driver: the real code crashed the process: %s' % _re.sub(r'\d+', 'N', ctx.last_crash)[:150], {'curve': curve, 'crash': ctx.last_crash})
        if recs:
            judge_stress(ctx, recs)
    if not quick:
        race = build_race()
        outp = os.path.join(ctx.scratch, 'race.out')
        p = subprocess.run([race, 'c10stress', '--curve', 'bn254', '--rounds', '3', '--goroutines', '8', '--wide', '600', '--out', outp],
                           stdout=subprocess.PIPE, stderr=subprocess.PIPE, text=True, timeout=3600, env=dict(vlib.GOENV, GORACE='halt_on_error=0'))
        races = re.findall(r'WARNING: DATA RACE(.*?)={18}', p.stderr, re.S)
        ctx.extra['race_detector_reports'] = len(races)
        for rep in races[:20]:
            frames = re.findall(r'\n\s+(github\.com/consensys/gnark[^\s(]*)', rep)
            top = frames[0] if frames else 'unknown'
            ctx.report('data race reported by the race detector at %s' % top, {'report': rep[:3000]})
        if p.returncode != 0 and not races:
            raise vlib.Infra('race run failed: ' + p.stderr[-3000:])
        if os.path.exists(outp):
            judge_stress(ctx, [json.loads(l) for l in open(outp) if l.strip()])


def validate_splits(ctx, recs):
    """The task ranges the real solver pushed (recorded through the hooks) are validated by TLC against SolverSplit.tla."""
    sp = [r for r in recs if r['kind'] == 'split' and not (r.get('err') or '').startswith('panic')]
    if not sp:
        return
    items = ['[level |-> %d, nbTasks |-> %d, ranges |-> %s]' % (r['level'], r['nbTasks'], vlib.tla([list(x) for x in r['ranges']])) for r in sp]
    mc = '---- MODULE SolverSplitRec ----\nEXTENDS SolverSplit\nRec == <<\n  %s\n>>\n====\n' % ',\n  '.join(items)
    cfg = 'SPECIFICATION Spec\nCONSTANTS\n  MaxLevel = 1\n  TaskCounts = {1}\n  Recorded <- Rec\nINVARIANT RecordedOK\nCHECK_DEADLOCK FALSE\n'
    t = ctx.tlc('SolverSplitRec', 'SolverSplitRec.cfg', extra_files={'SolverSplitRec.tla': mc, 'SolverSplitRec.cfg': cfg},
                workers=1, expect=('ok', 'invariant'), timeout=900)
    ctx.traces += len(sp)
    if t.status != 'ok':
        bad = [r for r in sp if not valid_split(r)]
        if not bad:
            raise vlib.Infra('TLC rejects the recorded task splits but the Python twin of ValidSplit accepts them all')
        for r in bad[:5]:
            ctx.report('solver task split is not a partition of the level (nbTasks=%d)' % r['nbTasks'],
                       {'level': r['level'], 'nbTasks': r['nbTasks'], 'ranges': r['ranges'][:6] + r['ranges'][-3:]})


def valid_split(r):
    rs, L = r['ranges'], r['level']
    if not rs:
        return True
    if rs[0][0] != 0 or rs[-1][1] != L or len(rs) > r['nbTasks']:
        return False
    return all(a < b <= L for a, b in rs) and all(rs[k][1] == rs[k + 1][0] for k in range(len(rs) - 1))


def judge_stress(ctx, recs):
    if not recs:
        raise vlib.Infra('stress driver produced nothing')
    validate_splits(ctx, recs)
    for r in recs:
        ctx.case(key='%s %s %s %s' % (r['kind'], r['circuit'], r['system'], r['detail']), nontrivial=r['runs'] > 1 or r['kind'] == 'nbtasks')
        ctx.traces += 1
        if r['ok']:
            continue
        if (r.get('err') or '').startswith('INFRA'):
            raise vlib.Infra('stress driver: ' + r['err'])
        what = 'wrong result'
        e = r.get('err') or ''
        if e.startswith('panic'):
            what = 'panic'
        elif e.startswith('hang'):
            what = 'hang'
        if r['kind'] == 'split':
            r = dict(r, ranges=r['ranges'][:4])
        prefix = 'plonk shared solver option slice / keys' if (r['kind'] == 'concurrent-prove' and r['system'] == 'plonk') else r['kind']
        ctx.report('%s: %s circuit=%s system=%s' % (prefix, what, r['circuit'], r['system']), r)
    ctx.sample(recs[0])


_race = None


def build_race():
    global _race
    if _race:
        return _race
    exe = os.path.join(vlib.BUILD, 'verifh_race')
    env = dict(vlib.GOENV, CGO_ENABLED='1')
    p = subprocess.run(['go', 'build', '-race', '-tags', 'verif', '-o', exe, './cmd/verifh'], cwd=vlib.HARNESS, env=env,
                       stdout=subprocess.PIPE, stderr=subprocess.STDOUT, text=True)
    if p.returncode != 0:
        raise vlib.Infra('race build failed: ' + p.stdout[-4000:])
    _race = exe
    return exe
