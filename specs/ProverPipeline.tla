---------------------------- MODULE ProverPipeline ----------------------------
(***************************************************************************)
(* C03 (bounded time): the PLONK prover is an errgroup of goroutines that   *)
(* synchronise by closing channels.  The processes and their steps are      *)
(* EXTRACTED from backend/plonk/<curve>/prove.go on every run (constant     *)
(* Procs): each process is a sequence of                                    *)
(*   wait(ch, ctx)  - blocks until ch is closed; if ctx = TRUE the select   *)
(*                    has a ctx.Done() alternative and the process gives up *)
(*                    once the group is cancelled;                          *)
(*   close(ch)                                                              *)
(*   fail           - a step that may return an error (any subset of them   *)
(*                    may fail): errgroup then cancels the context.         *)
(* TLC explores every interleaving and every set of failing steps.  With    *)
(* deadlock checking ON, a reachable state in which some process is blocked *)
(* forever (Prove would hang in g.Wait) is reported; a channel closed twice *)
(* would panic.                                                            *)
(***************************************************************************)
EXTENDS Naturals, Sequences, FiniteSets, TLC

CONSTANT Procs      \* sequence of [name, ops]; op = [op, ch, ctx]

P == 1..Len(Procs)
Chans == UNION {{Procs[p].ops[k].ch : k \in {j \in 1..Len(Procs[p].ops) : Procs[p].ops[j].op \in {"wait", "close"}}} : p \in P}

VARIABLES pc, closed, cancelled, status
vars == <<pc, closed, cancelled, status>>

Init == /\ pc = [p \in P |-> 1]
        /\ closed = [c \in Chans |-> FALSE]
        /\ cancelled = FALSE
        /\ status = [p \in P |-> IF Procs[p].spawned THEN "idle" ELSE "running"]

Op(p) == Procs[p].ops[pc[p]]
Running(p) == status[p] = "running"

Finish(p) == /\ Running(p) /\ pc[p] > Len(Procs[p].ops)
             /\ status' = [status EXCEPT ![p] = "done"]
             /\ UNCHANGED <<pc, closed, cancelled>>

Wait(p) == /\ Running(p) /\ pc[p] <= Len(Procs[p].ops) /\ Op(p).op = "wait"
           /\ \/ /\ closed[Op(p).ch]
                 /\ pc' = [pc EXCEPT ![p] = @ + 1] /\ UNCHANGED <<status, closed, cancelled>>
              \/ /\ Op(p).ctx /\ cancelled      \* case <-s.ctx.Done(): return errContextDone
                 /\ status' = [status EXCEPT ![p] = "gaveup"] /\ UNCHANGED <<pc, closed, cancelled>>

Close(p) == /\ Running(p) /\ pc[p] <= Len(Procs[p].ops) /\ Op(p).op = "close"
            /\ closed' = [closed EXCEPT ![Op(p).ch] = TRUE]
            /\ pc' = [pc EXCEPT ![p] = @ + 1] /\ UNCHANGED <<status, cancelled>>

\* a fallible step either succeeds or returns an error, which cancels the group's context
Fail(p) == /\ Running(p) /\ pc[p] <= Len(Procs[p].ops) /\ Op(p).op = "fail"
           /\ \/ pc' = [pc EXCEPT ![p] = @ + 1] /\ UNCHANGED <<status, closed, cancelled>>
              \/ /\ status' = [status EXCEPT ![p] = "failed"] /\ cancelled' = TRUE
                 /\ UNCHANGED <<pc, closed>>

\* `go func(){...}()`: the child goroutine starts now
Spawn(p) == /\ Running(p) /\ pc[p] <= Len(Procs[p].ops) /\ Op(p).op = "spawn"
            /\ status' = [q \in P |-> IF Procs[q].name = Op(p).ch /\ status[q] = "idle" THEN "running" ELSE status[q]]
            /\ pc' = [pc EXCEPT ![p] = @ + 1] /\ UNCHANGED <<closed, cancelled>>

AllStopped == \A p \in P : ~Running(p)
Done == AllStopped /\ UNCHANGED vars     \* g.Wait() returns: stutter

Next == (\E p \in P : Finish(p) \/ Wait(p) \/ Close(p) \/ Fail(p) \/ Spawn(p)) \/ Done
Spec == Init /\ [][Next]_vars

NoDoubleClose == \A p \in P : (Running(p) /\ pc[p] <= Len(Procs[p].ops) /\ Op(p).op = "close") => ~closed[Op(p).ch]
\* if nothing failed, every process ran to completion (the proof is complete)
CompleteIfNoFailure == (AllStopped /\ ~cancelled) => \A p \in P : status[p] \in {"done", "idle"}
=============================================================================
