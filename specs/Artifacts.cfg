SPECIFICATION Spec
CONSTANTS
  Circuits = {"p1", "pub2", "c1p", "c3r", "arith", "hint", "lookup2", "range", "commit", "emul", "defer", "logs", "selector", "wide", "gkr"}
  Emit = TRUE
INVARIANT Interchangeable
CHECK_DEADLOCK FALSE
