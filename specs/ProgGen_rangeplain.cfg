SPECIFICATION Spec
CONSTANTS
  P = 47
  MaxLen = 1
  ConstVals = {0, 1, 2, 46}
  ProbeSeq <- MCProbeSeq
  OpSet = {"GRangePlain"}
  Derived = 0
  Emit = TRUE
INVARIANT WellFormed
CHECK_DEADLOCK FALSE
