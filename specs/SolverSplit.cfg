SPECIFICATION Spec
CONSTANTS
  MaxLevel = 3000
  TaskCounts = {1, 2, 3, 7, 16, 33, 52, 64, 100, 128, 512}
  Recorded <- NoRecords
INVARIANTS TranscriptionPartitions TaskCountOK
CHECK_DEADLOCK FALSE
