------------------------------ MODULE EmulatedOps ------------------------------
(***************************************************************************)
(* C12: emulated field arithmetic is correct and cannot be cheated.         *)
(*                                                                         *)
(* Programs over an emulated field Z_q: two witness elements a, b, the      *)
(* in-circuit constants 0, 1, q-1 (constants carry a minimal number of      *)
(* limbs - Zero() has none) and temporaries.  The reference semantics is    *)
(* integer arithmetic modulo q; TLC evaluates it over a toy modulus on      *)
(* probe values (so that the port used for the 256..384-bit moduli is       *)
(* cross-checked), and generates the programs one choice at a time.         *)
(* Operation sequences drive the overflow bookkeeping of the real library   *)
(* (long addition chains force automatic reductions, Sub computes paddings  *)
(* from the tracked overflow, Mul defers a polynomial identity check).      *)
(* Witness inputs also take the non-canonical values q and q+2, which fit  *)
(* the limbs and which a prover may assign.  Equality and zero tests, bit   *)
(* decompositions, square roots, exponentiation and the variable-modulus    *)
(* operations are part of the alphabet; cases the documentation leaves      *)
(* open (0/0, 0^0, a non-canonical exponent, modulus 0) are marked          *)
(* unspecified and not judged.                                              *)
(* Each program is replayed on the real emulated.Field of several parameter *)
(* sets through the real prover; hint-using programs are also replayed      *)
(* with every hint output perturbed, which must make the prover fail.       *)
(***************************************************************************)
EXTENDS Integers, Sequences, FiniteSets, TLC, Json

CONSTANTS Q, MaxLen, Emit

Ops == {"Add", "Sub", "Mul", "Neg", "Div", "Inverse", "Reduce", "MulConst3", "Select", "Mux3", "Lookup2", "Sum3", "AddChain", "Sqr", "IsZeroSel",
        "SqrtSq", "Exp", "CanonBits", "Bits", "AssertEq", "AssertDiff", "LeqStrict", "ReduceStrict", "MulNR", "Eval2",
        "ModMulB", "ModAddB", "ModExpB", "LookupOvf", "ModAddChain"}
Arity(op) == CASE op \in {"Neg", "Inverse", "Reduce", "MulConst3", "AddChain", "Sqr", "SqrtSq", "CanonBits", "Bits", "ReduceStrict", "ModAddChain"} -> 1
               [] op \in {"Add", "Sub", "Mul", "Div", "Select", "IsZeroSel", "Exp", "AssertEq", "AssertDiff", "LeqStrict", "MulNR", "Eval2",
                          "ModMulB", "ModAddB", "ModExpB", "LookupOvf"} -> 2
               [] op \in {"Mux3", "Sum3"} -> 3
               [] op = "Lookup2" -> 4
\* variable-modulus operations (modulus = the witness b) are defined on the integer values of their operands, and the
\* exponent of Exp is used as an integer: these positions only take inputs (whose integer value the program fixes), not temporaries
RawOperand(op, pos) == op \in {"ModMulB", "ModAddB", "ModExpB", "ModAddChain"} \/ (op = "Exp" /\ pos = 2)

Inv(x) == CHOOSE y \in 0..(Q - 1) : (x * y) % Q = 1
IsQR(x) == \E y \in 0..(Q - 1) : (y * y) % Q = x
RECURSIVE PowMod(_, _, _)
PowMod(x, e, m) == IF e = 0 THEN 1 % m ELSE (x * PowMod(x, e - 1, m)) % m

V(x) == [ok |-> TRUE, un |-> FALSE, v |-> x % Q]
Fail == [ok |-> FALSE, un |-> FALSE, v |-> 0]
Unspec == [ok |-> FALSE, un |-> TRUE, v |-> 0]

\* a: operand values (integers; witness inputs may be non-canonical: q, q+2); c[i] = a[i] mod Q
\* sel: the value of the native selector input; m: the integer value of the witness b (modulus of the Mod operations)
Eval(op, a, sel, m) ==
  LET c == [i \in DOMAIN a |-> a[i] % Q] IN
  CASE op = "Add" -> V(c[1] + c[2])
    [] op = "Sub" -> V(c[1] + Q - c[2])
    [] op = "Mul" -> V(c[1] * c[2])
    [] op = "MulNR" -> V(c[1] * c[2])                                   \* Reduce(MulNoReduce(x, y))
    [] op = "Sqr" -> V(c[1] * c[1])
    [] op = "Neg" -> V(Q - c[1])
    [] op = "Div" -> IF c[2] = 0 THEN (IF c[1] = 0 THEN Unspec ELSE Fail) ELSE V(c[1] * Inv(c[2]))   \* 0/0: any quotient satisfies q*0 = 0
    [] op = "Inverse" -> IF c[1] = 0 THEN Fail ELSE V(Inv(c[1]))
    [] op = "Reduce" -> V(c[1])
    [] op = "ReduceStrict" -> V(c[1])
    [] op = "MulConst3" -> V(3 * c[1])
    [] op = "AddChain" -> V(c[1] * 341)                                 \* x added to itself 340 times
    [] op = "Select" -> V(IF sel % 2 = 1 THEN c[1] ELSE c[2])
    [] op = "Mux3" -> V(c[(sel % 3) + 1])
    [] op = "Lookup2" -> V(c[(sel % 4) + 1])
    [] op = "Sum3" -> V(c[1] + c[2] + c[3])
    [] op = "Eval2" -> V(c[1] * c[1] + 2 * c[1] * c[2] + 3 * c[2])      \* Eval({{x,x},{x,y},{y}}, {1,2,3})
    [] op = "IsZeroSel" -> V(IF c[1] = 0 THEN c[2] ELSE c[2] + 1)       \* Select(IsZero(x), y, y+1)
    [] op = "SqrtSq" -> IF IsQR(c[1]) THEN V(c[1]) ELSE Fail            \* Mul(Sqrt(x), Sqrt(x)); no root: unsatisfiable
    [] op = "Exp" -> IF a[2] >= Q \/ (c[1] = 0 /\ a[2] = 0) THEN Unspec ELSE V(PowMod(c[1], a[2], Q))
    [] op = "CanonBits" -> V(c[1])                                      \* FromBits(ToBitsCanonical(x)); native output checked too
    [] op = "Bits" -> V(c[1])                                           \* FromBits(ToBits(x))
    [] op = "AssertEq" -> IF c[1] = c[2] THEN V(c[1]) ELSE Fail
    [] op = "AssertDiff" -> IF c[1] # c[2] THEN V(c[1]) ELSE Fail
    [] op = "LeqStrict" -> IF c[1] <= c[2] THEN V(c[1]) ELSE Fail       \* AssertIsLessOrEqual(ReduceStrict(x), ReduceStrict(y))
    \* variable modulus: result congruent modulo m to the integer result; v carries the canonical residue modulo m
    \* table x, 2x, 4x, 8x built with unreduced additions (entries of different tracked overflow), then (y - entry) * y
    [] op = "LookupOvf" -> V((c[2] + Q * 8 - (2 ^ (sel % 4)) * c[1]) * c[2])
    \* acc = x; 200 times acc = ModAdd(x, acc, b): the overflow bookkeeping forces variable-modulus reductions on the way
    [] op = "ModAddChain" -> IF m = 0 THEN Unspec ELSE [ok |-> TRUE, un |-> FALSE, v |-> (201 * a[1]) % m]
    [] op = "ModMulB" -> IF m = 0 THEN Unspec ELSE [ok |-> TRUE, un |-> FALSE, v |-> (a[1] * a[2]) % m]
    [] op = "ModAddB" -> IF m = 0 THEN Unspec ELSE [ok |-> TRUE, un |-> FALSE, v |-> (a[1] + a[2]) % m]
    [] op = "ModExpB" -> IF m = 0 \/ (a[1] = 0 /\ a[2] = 0) THEN Unspec ELSE [ok |-> TRUE, un |-> FALSE, v |-> PowMod(a[1] % m, a[2], m)]

VARIABLES prog, cur, done
vars == <<prog, cur, done>>

Refs(n) == {[k |-> "a"], [k |-> "b"], [k |-> "zero"], [k |-> "one"], [k |-> "qm1"]} \cup {[k |-> "t", i |-> j] : j \in 0..(n - 1)}
NoCur == [op |-> "", a |-> <<>>]

Init == prog = <<>> /\ cur = NoCur /\ done = FALSE
ChooseOp == /\ Len(prog) < MaxLen /\ cur = NoCur /\ \E op \in Ops : cur' = [op |-> op, a |-> <<>>] /\ UNCHANGED <<prog, done>>
ChooseOperand ==
  /\ cur # NoCur
  /\ \E r \in Refs(Len(prog)) :
       /\ (RawOperand(cur.op, Len(cur.a) + 1) => r.k # "t")
       \* the result of a variable-modulus operation is only defined modulo b: it is checked, not reused
       /\ (r.k = "t" => prog[r.i + 1].op \notin {"ModMulB", "ModAddB", "ModExpB", "ModAddChain"})
       /\ LET c2 == [cur EXCEPT !.a = Append(cur.a, r)] IN
          IF Len(c2.a) = Arity(c2.op) THEN prog' = Append(prog, c2) /\ cur' = NoCur ELSE cur' = c2 /\ UNCHANGED prog
  /\ UNCHANGED done

RefVal(r, av, bv, temps) == CASE r.k = "a" -> av [] r.k = "b" -> bv [] r.k = "zero" -> 0 [] r.k = "one" -> 1 % Q [] r.k = "qm1" -> Q - 1 [] r.k = "t" -> temps[r.i + 1]

RECURSIVE Run(_, _, _, _, _, _)
Run(p, k, av, bv, sel, st) ==
  IF k > Len(p) \/ ~st.ok THEN st
  ELSE LET r == Eval(p[k].op, [j \in 1..Len(p[k].a) |-> RefVal(p[k].a[j], av, bv, st.temps)], sel, bv)
       IN Run(p, k + 1, av, bv, sel, [ok |-> r.ok, un |-> r.un, temps |-> IF r.ok THEN Append(st.temps, r.v) ELSE st.temps])

\* the last two values of a are non-canonical representations a witness can carry (value q and q+2 fit the limbs)
ProbeA == <<0, 1, 2, Q - 1, Q, Q + 2>>
ProbeB == <<0, 1, 2, Q - 1>>
Probes == [i \in 1..48 |-> LET av == ProbeA[((i - 1) % 6) + 1]  bv == ProbeB[(((i - 1) \div 6) % 4) + 1]
                               sel == ((i - 1) + ((i - 1) \div 6) + 2 * ((i - 1) \div 24)) % 4
                               r == Run(prog, 1, av, bv, sel, [ok |-> TRUE, un |-> FALSE, temps |-> <<>>])
                           IN [a |-> av, b |-> bv, sel |-> sel, ok |-> r.ok, un |-> r.un, temps |-> r.temps]]

Finish == /\ Len(prog) = MaxLen /\ cur = NoCur /\ ~done /\ done' = TRUE /\ UNCHANGED <<prog, cur>>
          /\ (IF Emit THEN PrintT("BEH" \o ToJson([prog |-> prog, q |-> Q, probes |-> Probes])) ELSE TRUE)
Next == ChooseOp \/ ChooseOperand \/ Finish
Spec == Init /\ [][Next]_vars

(* ---- targeted programs: operation chains that steer the overflow bookkeeping and the canonical-form checks ---- *)
RA == [k |-> "a"]  RB == [k |-> "b"]  ROne == [k |-> "one"]  RT(i) == [k |-> "t", i |-> i]
I1(op, x) == [op |-> op, a |-> <<x>>]
I2(op, x, y) == [op |-> op, a |-> <<x, y>>]
Targets == {
  <<I2("Mul", RA, RB), I1("CanonBits", RT(0))>>,
  <<I2("Add", RA, RB), I1("CanonBits", RT(0))>>,
  <<I2("Sub", RA, RA), I2("IsZeroSel", RT(0), ROne)>>,
  <<I2("Sub", RA, RB), I2("IsZeroSel", RT(0), ROne)>>,
  <<I2("Sub", RB, RA), I2("IsZeroSel", RT(0), RA)>>,
  <<I2("Add", RA, RB), I2("IsZeroSel", RT(0), RB)>>,
  <<I2("Mul", RA, RB), I2("IsZeroSel", RT(0), ROne)>>,
  <<I1("AddChain", RA), I2("IsZeroSel", RT(0), RB)>>,
  <<I2("LookupOvf", RA, RB)>>,
  <<I2("LookupOvf", RB, RA)>>,
  <<I1("AddChain", RA), I2("LookupOvf", RT(0), RB)>>,
  <<I1("ModAddChain", RA)>>,
  <<I1("AddChain", RA), I2("Sub", RB, RT(0)), I2("Mul", RT(1), RB)>>,
  <<I1("AddChain", RA), I1("Neg", RT(0)), I2("AssertDiff", RT(1), ROne)>> }
InitT == prog \in Targets /\ cur = NoCur /\ done = FALSE
FinishT == /\ ~done /\ done' = TRUE /\ UNCHANGED <<prog, cur>>
           /\ (IF Emit THEN PrintT("BEH" \o ToJson([prog |-> prog, q |-> Q, probes |-> Probes])) ELSE TRUE)
SpecT == InitT /\ [][FinishT]_vars

\* field axioms on the toy modulus: the semantics itself is sane
InvOK == \A x \in 1..(Q - 1) : (x * Inv(x)) % Q = 1
=============================================================================
