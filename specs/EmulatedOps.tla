------------------------------ MODULE EmulatedOps ------------------------------
(***************************************************************************)
(* C12: emulated field arithmetic is correct and cannot be cheated.         *)
(*                                                                         *)
(* Programs over an emulated field Z_q: two witness elements a, b, the      *)
(* in-circuit constants 0, 1, q-1 (constants carry a minimal number of      *)
(* limbs - Zero() has none) and temporaries.  The reference semantics is    *)
(* integer arithmetic modulo q; TLC evaluates it over a toy modulus on      *)
(* probe values (so that the port used for the 256..384-bit moduli is       *)
(* cross-checked), and generates the programs one choice at a time.         *)
(* Operation sequences drive the overflow bookkeeping of the real library   *)
(* (long addition chains force automatic reductions, Sub computes paddings  *)
(* from the tracked overflow, Mul defers a polynomial identity check).      *)
(* Each program is replayed on the real emulated.Field of several parameter *)
(* sets through the real prover; hint-using programs are also replayed      *)
(* with every hint output perturbed, which must make the prover fail.       *)
(***************************************************************************)
EXTENDS Integers, Sequences, FiniteSets, TLC, Json

CONSTANTS Q, MaxLen, Emit

Ops == {"Add", "Sub", "Mul", "Neg", "Div", "Inverse", "Reduce", "MulConst3", "Select", "Mux3", "Lookup2", "Sum3", "AddChain", "Sqr", "IsZeroSel"}
Arity(op) == CASE op \in {"Neg", "Inverse", "Reduce", "MulConst3", "AddChain", "Sqr"} -> 1
               [] op \in {"Add", "Sub", "Mul", "Div", "Select", "IsZeroSel"} -> 2
               [] op \in {"Mux3", "Sum3"} -> 3
               [] op = "Lookup2" -> 4

Inv(x) == CHOOSE y \in 0..(Q - 1) : (x * y) % Q = 1

\* sel is the value of the native selector input (0/1, or 0..2 for Mux3) taken from the probe
Eval(op, a, sel) ==
  CASE op = "Add" -> [ok |-> TRUE, v |-> (a[1] + a[2]) % Q]
    [] op = "Sub" -> [ok |-> TRUE, v |-> (a[1] + Q - a[2]) % Q]
    [] op = "Mul" -> [ok |-> TRUE, v |-> (a[1] * a[2]) % Q]
    [] op = "Sqr" -> [ok |-> TRUE, v |-> (a[1] * a[1]) % Q]
    [] op = "Neg" -> [ok |-> TRUE, v |-> (Q - a[1]) % Q]
    [] op = "Div" -> IF a[2] = 0 THEN [ok |-> FALSE, v |-> 0] ELSE [ok |-> TRUE, v |-> (a[1] * Inv(a[2])) % Q]
    [] op = "Inverse" -> IF a[1] = 0 THEN [ok |-> FALSE, v |-> 0] ELSE [ok |-> TRUE, v |-> Inv(a[1])]
    [] op = "Reduce" -> [ok |-> TRUE, v |-> a[1]]
    [] op = "MulConst3" -> [ok |-> TRUE, v |-> (3 * a[1]) % Q]
    [] op = "AddChain" -> [ok |-> TRUE, v |-> (a[1] * 341) % Q]          \* x added to itself 340 times
    [] op = "Select" -> [ok |-> TRUE, v |-> IF sel % 2 = 1 THEN a[1] ELSE a[2]]
    [] op = "Mux3" -> [ok |-> TRUE, v |-> a[(sel % 3) + 1]]
    [] op = "Lookup2" -> [ok |-> TRUE, v |-> a[(sel % 4) + 1]]
    [] op = "Sum3" -> [ok |-> TRUE, v |-> (a[1] + a[2] + a[3]) % Q]
    [] op = "IsZeroSel" -> [ok |-> TRUE, v |-> IF a[1] = 0 THEN a[2] ELSE (a[2] + 1) % Q]   \* Select(IsZero(x), y, y+1)

VARIABLES prog, cur, done
vars == <<prog, cur, done>>

Refs(n) == {[k |-> "a"], [k |-> "b"], [k |-> "zero"], [k |-> "one"], [k |-> "qm1"]} \cup {[k |-> "t", i |-> j] : j \in 0..(n - 1)}
NoCur == [op |-> "", a |-> <<>>]

Init == prog = <<>> /\ cur = NoCur /\ done = FALSE
ChooseOp == /\ Len(prog) < MaxLen /\ cur = NoCur /\ \E op \in Ops : cur' = [op |-> op, a |-> <<>>] /\ UNCHANGED <<prog, done>>
ChooseOperand ==
  /\ cur # NoCur
  /\ \E r \in Refs(Len(prog)) :
       LET c2 == [cur EXCEPT !.a = Append(cur.a, r)] IN
       IF Len(c2.a) = Arity(c2.op) THEN prog' = Append(prog, c2) /\ cur' = NoCur ELSE cur' = c2 /\ UNCHANGED prog
  /\ UNCHANGED done

RefVal(r, av, bv, temps) == CASE r.k = "a" -> av [] r.k = "b" -> bv [] r.k = "zero" -> 0 [] r.k = "one" -> 1 % Q [] r.k = "qm1" -> Q - 1 [] r.k = "t" -> temps[r.i + 1]

RECURSIVE Run(_, _, _, _, _, _)
Run(p, k, av, bv, sel, st) ==
  IF k > Len(p) \/ ~st.ok THEN st
  ELSE LET r == Eval(p[k].op, [j \in 1..Len(p[k].a) |-> RefVal(p[k].a[j], av, bv, st.temps)], sel)
       IN Run(p, k + 1, av, bv, sel, [ok |-> r.ok, temps |-> Append(st.temps, r.v)])

ProbeVals == <<0, 1, 2, Q - 1>>
Probes == [i \in 1..32 |-> LET av == ProbeVals[((i - 1) % 4) + 1]  bv == ProbeVals[(((i - 1) \div 4) % 4) + 1]  sel == (i - 1) \div 16
                               r == Run(prog, 1, av, bv, sel, [ok |-> TRUE, temps |-> <<>>])
                           IN [a |-> av, b |-> bv, sel |-> sel, ok |-> r.ok, temps |-> r.temps]]

Finish == /\ Len(prog) = MaxLen /\ cur = NoCur /\ ~done /\ done' = TRUE /\ UNCHANGED <<prog, cur>>
          /\ (IF Emit THEN PrintT("BEH" \o ToJson([prog |-> prog, q |-> Q, probes |-> Probes])) ELSE TRUE)
Next == ChooseOp \/ ChooseOperand \/ Finish
Spec == Init /\ [][Next]_vars

\* field axioms on the toy modulus: the semantics itself is sane
InvOK == \A x \in 1..(Q - 1) : (x * Inv(x)) % Q = 1
=============================================================================
