SPECIFICATION Spec
CONSTANTS
  MaxInstr = 5
  MaxInternal = 5
  Recorded <- NoRecorded
INVARIANT TranscriptionSound
CHECK_DEADLOCK FALSE
