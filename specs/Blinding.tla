------------------------------- MODULE Blinding -------------------------------
(***************************************************************************)
(* C20: proofs are freshly blinded and committed values are masked.         *)
(*                                                                         *)
(* Prover randomness is modelled as a resource: every Draw yields a fresh   *)
(* symbol.  A proof element is  det(witness, key) + sum of coeff * symbol.  *)
(* A history is a sequence of Prove calls in one process (same witness).    *)
(*   Groth16: draws r, s;  Ar = A + r.delta,  Bs = B + s.delta,             *)
(*            Krs = K + s.Ar + r.Bs1 - rs.delta; one mask symbol per        *)
(*            commitment (the Randomize hint wire committed with the rest). *)
(*   PLONK:   blinding polynomials of L, R, O (2 coefficients each), of Z   *)
(*            (3); the quotient shards inherit them; BSB22 commitment       *)
(*            polynomials get random cells; two more symbols when the       *)
(*            statistical zero-knowledge option randomises the shards.      *)
(* Invariants: every blinded element of every proof contains a symbol that  *)
(* occurs in no earlier proof (Fresh) - hence differs from its              *)
(* deterministic part and from the same element of every other proof.       *)
(* Elements that are deterministic functions of blinded ones (claimed       *)
(* evaluations) are not listed, so that nothing more than the property is   *)
(* demanded.  Each history is emitted and replayed on the real provers.     *)
(***************************************************************************)
EXTENDS Naturals, Sequences, FiniteSets, TLC, Json

CONSTANTS MaxProofs, Emit

Shapes == [ p1 |-> 0, p2u |-> 0, c1s |-> 1, c1p |-> 1, c2 |-> 2, c3 |-> 3, c3r |-> 3, commit |-> 2, range |-> 1 ]   \* name -> number of commitments

VARIABLES backend, shape, statZK, n, proofs, draws, done
vars == <<backend, shape, statZK, n, proofs, draws, done>>

NC == Shapes[shape]

\* element names of a proof that must carry fresh randomness
E(name) == <<name, 0>>
G16Elems == {E("Ar"), E("Bs"), E("Krs")} \cup {<<"Commitment", i>> : i \in 1..NC}
PlonkElems == {E("L"), E("R"), E("O"), E("Z"), E("H0"), E("H1"), E("H2")} \cup {<<"Bsb22", i>> : i \in 1..NC}
Elems == IF backend = "groth16" THEN G16Elems ELSE PlonkElems

Init ==
  /\ backend \in {"groth16", "plonk"}
  /\ shape \in DOMAIN Shapes
  /\ statZK \in (IF backend = "plonk" THEN BOOLEAN ELSE {FALSE})
  /\ n \in 2..MaxProofs
  /\ proofs = <<>> /\ draws = 0 /\ done = FALSE

\* symbols are numbered; a proof maps each blinded element to the set of symbols it depends on
Prove ==
  /\ Len(proofs) < n
  /\ IF backend = "groth16"
     THEN LET r == draws + 1  s == draws + 2
              mask(i) == draws + 2 + i
          IN /\ proofs' = Append(proofs,
                   [e \in Elems |-> IF e[1] = "Ar" THEN {r} ELSE IF e[1] = "Bs" THEN {s} ELSE IF e[1] = "Krs" THEN {r, s}
                                    ELSE {mask(e[2])}])
             /\ draws' = draws + 2 + NC
     ELSE LET bl == draws + 1 br == draws + 3 bo == draws + 5 bz == draws + 7   \* first symbol of each blinding polynomial
              cell(i) == draws + 9 + i
              zk == draws + 10 + NC
          IN /\ proofs' = Append(proofs,
                   [e \in Elems |-> CASE e[1] = "L" -> {bl, bl + 1} [] e[1] = "R" -> {br, br + 1} [] e[1] = "O" -> {bo, bo + 1}
                                      [] e[1] = "Z" -> {bz, bz + 1, bz + 2}
                                      [] e[1] \in {"H0", "H1", "H2"} -> {bl, br, bo, bz} \cup (IF statZK THEN {zk, zk + 1} ELSE {})
                                      [] OTHER -> {cell(e[2])}])
             /\ draws' = draws + 12 + NC
  /\ UNCHANGED <<backend, shape, statZK, n, done>>

Finish ==
  /\ Len(proofs) = n /\ ~done /\ done' = TRUE
  /\ IF Emit THEN PrintT("BEH" \o ToJson([backend |-> backend, shape |-> shape, statZK |-> statZK, n |-> n,
                                          blinded |-> IF backend = "groth16" THEN <<"Ar", "Bs", "Krs">> ELSE <<"L", "R", "O", "Z", "H0", "H1", "H2">>,
                                          nbCommit |-> NC])) ELSE TRUE
  /\ UNCHANGED <<backend, shape, statZK, n, proofs, draws>>

Next == Prove \/ Finish
Spec == Init /\ [][Next]_vars

\* every blinded element depends on a symbol no earlier proof used
Fresh == \A k \in 1..Len(proofs) : \A e \in DOMAIN proofs[k] :
           \E sym \in proofs[k][e] : \A j \in 1..(k - 1) : \A f \in DOMAIN proofs[j] : sym \notin proofs[j][f]
NonEmpty == \A k \in 1..Len(proofs) : \A e \in DOMAIN proofs[k] : proofs[k][e] # {}
\* consequently two proofs never share a blinded element's randomness
Distinct == \A j, k \in 1..Len(proofs) : j # k => \A e \in DOMAIN proofs[k] : proofs[j][e] # proofs[k][e]
=============================================================================
