----------------------------- MODULE SolverSplit -----------------------------
(***************************************************************************)
(* C10 / C06: the level-parallel solver (constraint/<field>/solver.go run)  *)
(* cuts each level of independent instructions into tasks.  This module     *)
(*  (1) transcribes the split arithmetic (minWorkPerCPU = 50, nbTasks       *)
(*      capped by ceil(len/50), iterations per task, the extra tasks getting *)
(*      one more instruction) and TLC checks, for every level size and task  *)
(*      count in range, that the pushed ranges are a partition of the level; *)
(*  (2) defines ValidSplit, the predicate the schedules RECORDED from the    *)
(*      real solver (verif hook events EvLevel / EvTaskPush) are validated   *)
(*      against: the implementation may split differently, but what it       *)
(*      pushes must be in-bounds, non-empty, disjoint and cover the level.   *)
(***************************************************************************)
EXTENDS Integers, Sequences, FiniteSets, TLC

CONSTANTS MaxLevel,    \* level sizes 1..MaxLevel are model-checked
          TaskCounts,  \* set of configured task counts
          Recorded     \* sequence of recorded splits [level, nbTasks, ranges] (<<>> when only model checking)

MinWork == 50

CeilDiv(a, b) == (a + b - 1) \div b

\* the ranges run() pushes for a level of size L with T configured tasks (<<>> = level run sequentially)
RECURSIVE Push(_, _, _, _, _, _)
Push(k, nb, iters, extra, off, acc) ==
  IF k = nb THEN acc
  ELSE LET start == k * iters + off
           end == start + iters + (IF extra > 0 THEN 1 ELSE 0)
       IN Push(k + 1, nb, iters, IF extra > 0 THEN extra - 1 ELSE 0, IF extra > 0 THEN off + 1 ELSE off, Append(acc, <<start, end>>))

Split(L, T) ==
  IF L <= MinWork \/ T = 1 THEN <<>>                     \* maxCPU <= 1.0 || nbTasks == 1
  ELSE LET nb0 == IF T > CeilDiv(L, MinWork) THEN CeilDiv(L, MinWork) ELSE T
           it0 == L \div nb0
           nb == IF it0 < 1 THEN L ELSE nb0
           iters == IF it0 < 1 THEN 1 ELSE it0
       IN Push(0, nb, iters, L - nb * iters, 0, <<>>)

\* ranges (half-open [start,end)) form a partition of 0..L-1 in order
ValidSplit(L, rs) ==
  \/ rs = <<>>
  \/ /\ rs[1][1] = 0
     /\ rs[Len(rs)][2] = L
     /\ \A k \in 1..Len(rs) : rs[k][1] < rs[k][2] /\ rs[k][2] <= L
     /\ \A k \in 1..(Len(rs) - 1) : rs[k][2] = rs[k + 1][1]

VARIABLES L, T
Init == L \in 1..MaxLevel /\ T \in TaskCounts
Next == UNCHANGED <<L, T>>
Spec == Init /\ [][Next]_<<L, T>>

TranscriptionPartitions == ValidSplit(L, Split(L, T))
\* never more tasks than configured, never an idle task
TaskCountOK == Len(Split(L, T)) <= T
\* every recorded schedule of the real solver is a valid split of its level
RecordedOK == \A k \in 1..Len(Recorded) :
                 /\ ValidSplit(Recorded[k].level, Recorded[k].ranges)
                 /\ Len(Recorded[k].ranges) <= Recorded[k].nbTasks
=============================================================================
