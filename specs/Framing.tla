------------------------------ MODULE Framing ------------------------------
(***************************************************************************)
(* C08 (decoders): byte-level framing of the artifacts an untrusted party   *)
(* sends - Groth16 proof, PLONK proof, public witness - and the adversary's *)
(* framing alphabet.  An encoding is a sequence of atoms (fixed-size group  *)
(* element / scalar / 32-bit length prefix of the slice that follows).  The *)
(* decoder is a prefix-driven reader: it consumes atoms in order and, for a *)
(* slice, as many elements as the prefix says.                              *)
(*                                                                         *)
(* The reader model predicts, at the level of shapes, whether decoding      *)
(* ends in an error or yields a value and with which lengths; the property  *)
(* checked on the model is that every mutation ends in Error or in a value  *)
(* whose variable-length parts are exactly what the bytes declared (which   *)
(* VerifierRobust then takes over) - and never reads outside the buffer.    *)
(* Every (artifact, shape, mutation) is emitted and applied to the real     *)
(* encodings; layouts are checked against the real encoders by the harness. *)
(***************************************************************************)
EXTENDS Naturals, Sequences, TLC, Json

CONSTANTS Emit

ShapeDef ==
  [ p1  |-> [nbPub |-> 1, nbCommit |-> 0],
    c1p |-> [nbPub |-> 2, nbCommit |-> 1],
    c2  |-> [nbPub |-> 2, nbCommit |-> 2] ]

Artifacts == {"g16proof", "plonkproof", "witness"}

RECURSIVE Rep(_, _)
Rep(e, n) == IF n = 0 THEN <<>> ELSE <<e>> \o Rep(e, n - 1)

\* atom kinds: G1, G2, Fr (fixed size), Len (u32 slice-length prefix; `of` = element kind, `n` = genuine count), U32 (header word)
Atoms(a, s) ==
  LET S == ShapeDef[s] IN
  CASE a = "g16proof" ->
         <<[k |-> "G1"], [k |-> "G2"], [k |-> "G1"], [k |-> "Len", of |-> "G1", n |-> S.nbCommit]>>
         \o Rep([k |-> "G1"], S.nbCommit) \o <<[k |-> "G1"]>>
    [] a = "plonkproof" ->
         Rep([k |-> "G1"], 8) \o <<[k |-> "Len", of |-> "Fr", n |-> 6 + S.nbCommit]>> \o Rep([k |-> "Fr"], 6 + S.nbCommit)
         \o <<[k |-> "G1"], [k |-> "Fr"], [k |-> "Len", of |-> "G1", n |-> S.nbCommit]>> \o Rep([k |-> "G1"], S.nbCommit)
    [] a = "witness" ->
         <<[k |-> "U32", n |-> S.nbPub], [k |-> "U32", n |-> 0], [k |-> "Len", of |-> "Fr", n |-> S.nbPub]>>
         \o Rep([k |-> "Fr"], S.nbPub)

LenClasses == {"zero", "minus1", "plus1", "plus2", "big", "huge", "max"}

VARIABLES art, shape, enc, mut, done
vars == <<art, shape, enc, mut, done>>

A == Atoms(art, shape)

Init ==
  /\ art \in Artifacts /\ shape \in DOMAIN ShapeDef
  /\ enc \in {"bin", "raw"}
  /\ (art = "witness" => enc = "bin")
  /\ mut = [kind |-> "none"] /\ done = FALSE

Mutate(m) == /\ ~done /\ mut.kind = "none" /\ mut' = m /\ UNCHANGED <<art, shape, enc, done>>

TruncAt == \E k \in 1..Len(A), w \in {"before", "inside"} : Mutate([kind |-> "trunc", atom |-> k, where |-> w])
SetLen == \E k \in 1..Len(A), c \in LenClasses :
             /\ A[k].k = "Len"
             /\ (c = "minus1" => A[k].n > 0)
             /\ Mutate([kind |-> "setlen", atom |-> k, cls |-> c])
SetHeader == \E k \in 1..2, c \in {"zero", "plus1", "big", "huge", "max"} :
             /\ art = "witness"
             /\ Mutate([kind |-> "sethdr", atom |-> k, cls |-> c])
\* both header words raised by 2^31: their 32-bit sum wraps back onto the true vector length
WrapHeader == art = "witness" /\ Mutate([kind |-> "wraphdr"])
Trailing == \E n \in {1, 64} : Mutate([kind |-> "trail", n |-> n])
FlipIn == \E k \in 1..Len(A), w \in {"first", "last"} :
             /\ A[k].k \in {"G1", "G2", "Fr"}
             /\ Mutate([kind |-> "flip", atom |-> k, where |-> w])
Empty == Mutate([kind |-> "empty"])

(* ---- reader model --------------------------------------------------------- *)
\* Number of whole atoms available after the mutation, counted in genuine atoms (truncation only).
\* The ideal decoder: Error when the bytes run out before every declared atom was read;
\* a declared length beyond what any buffer can hold must be an Error *before* allocating.
Predicted ==
  CASE mut.kind = "none"  -> "same"
    [] mut.kind = "trail" -> "same"                  \* ReadFrom stops after the last atom
    [] mut.kind = "trunc" -> "error"
    [] mut.kind = "empty" -> "error"
    [] mut.kind = "setlen" /\ mut.cls \in {"big", "huge", "max"} -> "error"
    [] mut.kind = "setlen" /\ mut.cls \in {"plus1", "plus2"} ->
         \* reads elements out of the atoms that follow: runs out of bytes unless enough atoms follow
         "error-or-reshaped"
    [] mut.kind = "setlen" -> "error-or-reshaped"    \* zero / minus1: later atoms are read from shifted bytes
    [] mut.kind = "sethdr" -> "error-or-inconsistent" \* header words disagree with the vector
    [] mut.kind = "wraphdr" -> "error-or-inconsistent"
    [] mut.kind = "flip" -> "error-or-other-value"

Behaviour == [artifact |-> art, shape |-> shape, enc |-> enc, mut |-> mut, atoms |-> A, predicted |-> Predicted]

Finish ==
  /\ ~done /\ done' = TRUE
  /\ IF Emit THEN PrintT("BEH" \o ToJson(Behaviour)) ELSE TRUE
  /\ UNCHANGED <<art, shape, enc, mut>>

Next == TruncAt \/ SetLen \/ SetHeader \/ WrapHeader \/ Trailing \/ FlipIn \/ Empty \/ Finish
Spec == Init /\ [][Next]_vars

(* every slice prefix is followed by exactly its elements, of its kind: the layouts are well-formed *)
LayoutOK == \A k \in 1..Len(A) : A[k].k = "Len" =>
               /\ k + A[k].n <= Len(A)
               /\ \A j \in 1..A[k].n : A[k + j].k = A[k].of
MutOK == mut.kind \in {"none", "trunc", "setlen", "sethdr", "wraphdr", "trail", "flip", "empty"}
=============================================================================
