SPECIFICATION Spec
CONSTANTS
  MaxN = 3
  Emit = TRUE
CHECK_DEADLOCK FALSE
