------------------------------- MODULE GkrTopo -------------------------------
(***************************************************************************)
(* C19: a computation delegated to the GKR sub-protocol equals its direct   *)
(* evaluation.                                                             *)
(*                                                                         *)
(* A GKR circuit is a list of gates over input variables (add, sub, mul,    *)
(* neg, identity - the gates available natively on every curve), evaluated  *)
(* on N = 1, 2, 4 or 8 instances; a series dependency feeds an output of    *)
(* instance k into an input of instance k+1.  The reference semantics is    *)
(* the direct evaluation, instance by instance; TLC builds topologies one   *)
(* choice at a time and evaluates them over F_47 on a probe assignment.     *)
(* Each topology is replayed through std/gkr on the real fields: the        *)
(* exported values must equal the direct evaluation (ported evaluator,      *)
(* cross-checked against TLC on the probe), a wrong expectation must be     *)
(* rejected, and every output of the solving hint and of the proving hint   *)
(* perturbed must make the circuit unsatisfiable.                           *)
(***************************************************************************)
EXTENDS Integers, Sequences, FiniteSets, TLC, Json

CONSTANTS P, MaxGates, Emit

Ops == {"add", "sub", "mul", "neg", "id"}
Arity(op) == IF op \in {"neg", "id"} THEN 1 ELSE 2

VARIABLES nIn, gates, cur, nInst, series, late, done
vars == <<nIn, gates, cur, nInst, series, late, done>>
NoCur == [op |-> "", a |-> <<>>]
NoSeries == [input |-> 0 - 1, gate |-> 0 - 1, pattern |-> "none"]
\* which instance k takes the dependent input from (Src(k), -1 for none): the previous one for all / every other / only the
\* second instance; "rev": the NEXT one (the instances have to be solved in reverse order); "rot": 0 <- 2 and 1 <- 0 (solving
\* order 2, 0, 1, 3: the permutation of the instances is a 3-cycle, not its own inverse)
Patterns == {"chain", "alt", "single", "rev", "rot"}
Src(k) == IF series = NoSeries THEN 0 - 1
          ELSE CASE series.pattern = "chain"  -> IF k > 0 THEN k - 1 ELSE 0 - 1
                 [] series.pattern = "alt"    -> IF k % 2 = 1 THEN k - 1 ELSE 0 - 1
                 [] series.pattern = "single" -> IF k = 1 THEN 0 ELSE 0 - 1
                 [] series.pattern = "rev"    -> IF k < nInst - 1 THEN k + 1 ELSE 0 - 1
                 [] series.pattern = "rot"    -> IF k = 0 THEN 2 ELSE IF k = 1 THEN 0 ELSE 0 - 1
                 [] OTHER -> 0 - 1
Dep(k) == Src(k) >= 0

\* variables are numbered inputs first (0..nIn-1), then gates
Refs == 0..(nIn + Len(gates) - 1)
\* late: the second input is imported after the first gate was created (the API does not require imports first)
Init == nIn \in 1..2 /\ gates = <<>> /\ cur = NoCur /\ nInst \in {1, 2, 4, 8} /\ series = NoSeries /\ late \in BOOLEAN /\ done = FALSE

ChooseOp == /\ ~done /\ cur = NoCur /\ Len(gates) < MaxGates
            /\ \E op \in Ops : cur' = [op |-> op, a |-> <<>>]
            /\ UNCHANGED <<nIn, gates, nInst, series, late, done>>
ChooseOperand ==
  /\ cur # NoCur
  /\ \E r \in Refs :
       LET c2 == [cur EXCEPT !.a = Append(cur.a, r)] IN
       IF Len(c2.a) = Arity(c2.op) THEN gates' = Append(gates, c2) /\ cur' = NoCur ELSE cur' = c2 /\ UNCHANGED gates
  /\ UNCHANGED <<nIn, nInst, series, late, done>>

Used(v) == \E k \in 1..Len(gates) : \E j \in 1..Len(gates[k].a) : gates[k].a[j] = v
IsOutput(g) == ~Used(nIn + g - 1)          \* gate g (1-based) is not consumed by another gate
WellFormed == /\ Len(gates) >= 1 /\ cur = NoCur
              /\ \A v \in 0..(nIn - 1) : Used(v)           \* the API rejects unused inputs

\* optionally: input `input` of instance k+1 is the value of output gate `gate` of instance k
ChooseSeries == /\ ~done /\ WellFormed /\ series = NoSeries /\ nInst > 1
                /\ \E i \in 0..(nIn - 1), g \in 1..Len(gates), pt \in Patterns :
                      IsOutput(g) /\ (pt = "rot" => nInst >= 4) /\ series' = [input |-> i, gate |-> g, pattern |-> pt]
                /\ UNCHANGED <<nIn, gates, cur, nInst, late, done>>

(* ---- direct evaluation over F_P ------------------------------------------- *)
EvalGate(op, x) == CASE op = "add" -> (x[1] + x[2]) % P
                     [] op = "sub" -> (x[1] + P - x[2]) % P
                     [] op = "mul" -> (x[1] * x[2]) % P
                     [] op = "neg" -> (P - x[1]) % P
                     [] op = "id" -> x[1]
RECURSIVE EvalAll(_, _)
\* vals: values of the variables so far (inputs then gates)
EvalAll(vals, k) == IF k > Len(gates) THEN vals
                    ELSE EvalAll(Append(vals, EvalGate(gates[k].op, [j \in 1..Len(gates[k].a) |-> vals[gates[k].a[j] + 1]])), k + 1)
\* probe inputs: instance t, input i -> (3 t + 5 i + 2) mod P ; with a series dependency the value comes from the previous instance
ProbeIn(t, i) == (3 * t + 5 * i + 2) % P
RECURSIVE InstVals(_)
\* the values of instance t: its dependent input is an output of instance Src(t) (the dependency relation is acyclic)
InstVals(t) == LET ins == [i \in 1..nIn |-> IF series # NoSeries /\ series.input = i - 1 /\ Dep(t) THEN InstVals(Src(t))[nIn + series.gate] ELSE ProbeIn(t, i - 1)]
               IN EvalAll(ins, 1)
Instances(t, prev) == [k \in 1..nInst |-> InstVals(k - 1)]

\* Series takes an OUTPUT variable of the circuit: the dependency must still be on an output when the topology is complete
LateOK == late => (nIn = 2 /\ \A j \in 1..Len(gates[1].a) : gates[1].a[j] # 1)
Finish == /\ ~done /\ WellFormed /\ LateOK /\ (series = NoSeries \/ IsOutput(series.gate)) /\ done' = TRUE /\ UNCHANGED <<nIn, gates, cur, nInst, series, late>>
          /\ (IF Emit THEN PrintT("BEH" \o ToJson([nIn |-> nIn, gates |-> gates, nInst |-> nInst, series |-> series, late |-> late,
                                                   outputs |-> {g \in 1..Len(gates) : IsOutput(g)},
                                                   probe |-> Instances(0, <<>>)])) ELSE TRUE)
Next == ChooseOp \/ ChooseOperand \/ ChooseSeries \/ Finish
Spec == Init /\ [][Next]_vars
TypeOK == Len(gates) <= MaxGates
=============================================================================
