----------------------------- MODULE GadgetsWide -----------------------------
(***************************************************************************)
(* C14, second half: gadgets whose domain is wider than a toy field lets    *)
(* the constraint enumeration of ConstraintSat.tla reach, or that sit on    *)
(* the commitment-based range checker:                                      *)
(*   cmp.BoundedComparator (AssertIsLessEq / AssertIsLess / IsLess /        *)
(*   IsLessEq / Min), bitslice.Partition with WithNbDigits,                 *)
(*   selector.Partition / Slice (step masks), selector.Mux with one input.  *)
(*                                                                         *)
(* Part 1 transcribes the bounded comparator's decision procedure (one      *)
(* binary decomposition of absDiffUpp.BitLen() bits of a difference in the  *)
(* field) and checks over the toy prime PT, for every admissible bound and  *)
(* every pair of signed operands, the documented contract:                  *)
(*   |a-b| <= U                      : exactly the correct answer           *)
(*   U < |a-b| < PT - 2^BitLen(U)    : no answer or the correct answer      *)
(* Part 2 gives the documented relation of each gadget on small signed      *)
(* integers (negative values stand for P - x in the large field) and        *)
(* enumerates cases with the verdict "ok" (must be accepted, outputs        *)
(* exact), "fail" (must be unsatisfiable) or "either".  Each case is        *)
(* replayed on the real gadget through the test engine and the real         *)
(* provers, with every hint output perturbed.                               *)
(***************************************************************************)
EXTENDS Integers, Sequences, FiniteSets, TLC, Json

CONSTANTS PT,      \* toy prime for the transcribed decision procedure
          Emit

RECURSIVE Pow2(_)
Pow2(n) == IF n = 0 THEN 1 ELSE 2 * Pow2(n - 1)
RECURSIVE BitLen(_)
BitLen(x) == IF x = 0 THEN 0 ELSE 1 + BitLen(x \div 2)
Abs(x) == IF x < 0 THEN -x ELSE x
Min2(a, b) == IF a < b THEN a ELSE b

(* ---- part 1: the bounded comparator in F_PT -------------------------------- *)
\* NewBoundedComparator(absDiffUpp = U, allowNonDeterministicBehaviour = FALSE) does not panic
ConstructOK(U) == /\ U > 0 /\ U < PT
                  /\ BitLen(PT - U - 1) > BitLen(U)
                  /\ PT > Pow2(BitLen(U) + 1)
\* assertIsNonNegative(x): ToBinary(x, WithNbDigits(k)) is satisfiable iff the canonical representative of x is below 2^k
NonNeg(x, k) == (x % PT) < Pow2(k)

\* solution sets of the constraints each method emits, for field images of the signed integers a, b
SolAssertLessEq(a, b, k) == IF NonNeg(b - a, k) THEN {"sat"} ELSE {}
SolAssertLess(a, b, k) == SolAssertLessEq(a, b - 1, k)
SolIsLess(a, b, k) == (IF NonNeg(b - a - 1, k) THEN {1} ELSE {}) \cup (IF NonNeg(a - b, k) THEN {0} ELSE {})
SolIsLessEq(a, b, k) == SolIsLess(a, b + 1, k)
\* (a-m)(b-m) = 0 and (a-m)+(b-m) >= 0 ; m is a field element, reported as the operand it equals
SolMin(a, b, k) == {m \in {a, b} : NonNeg((a - m) + (b - m), k)}

ToyAnchors == {0 - 3, 0, 5}
Contract(U, a, b) ==
  LET k == BitLen(U)
      d == Abs(a - b)
      in == d <= U
      mid == d > U /\ d < PT - Pow2(k)
      Exact(S, v) == (in => S = {v}) /\ (mid => S \subseteq {v})
      AssertM(S, holds) == (in => (S # {}) = holds) /\ (mid => (S # {} => holds))
  IN /\ AssertM(SolAssertLessEq(a, b, k), a <= b)
     /\ AssertM(SolAssertLess(a, b, k), a < b)
     /\ Exact(SolIsLess(a, b, k), IF a < b THEN 1 ELSE 0)
     /\ Exact(SolIsLessEq(a, b, k), IF a <= b THEN 1 ELSE 0)
     /\ Exact(SolMin(a, b, k), Min2(a, b))
ComparatorContract == \A U \in 1..(PT - 1) : ConstructOK(U) =>
                         \A a \in ToyAnchors, d \in (1 - PT)..(PT - 1) : Contract(U, a, a + d)

(* ---- part 2: relations and case enumeration --------------------------------- *)
Bounds == {1, 2, 3, 4, 7, 8, 15, 16, 255, 256}
Methods == {"AssertIsLessEq", "AssertIsLess", "IsLess", "IsLessEq", "Min"}
\* differences b - a around the bound
Diffs(U) == {0 - U - 1, 0 - U, 1 - U, 0 - 1, 0, 1, U - 1, U, U + 1, Pow2(BitLen(U)), Pow2(BitLen(U)) + 1}
Anchors == {0 - 3, 0, 5, 1000}

CmpCase(m, U, a, d) ==
  LET b == a + d
      in == Abs(d) <= U
      holds == CASE m = "AssertIsLessEq" -> a <= b [] m = "AssertIsLess" -> a < b [] OTHER -> TRUE
      out == CASE m = "IsLess" -> <<IF a < b THEN 1 ELSE 0>>
               [] m = "IsLessEq" -> <<IF a <= b THEN 1 ELSE 0>>
               [] m = "Min" -> <<Min2(a, b)>>
               [] OTHER -> <<>>
  IN [g |-> "cmp", m |-> m, U |-> U, in |-> <<a, b>>,
      exp |-> IF in THEN (IF holds THEN "ok" ELSE "fail")
              ELSE (IF holds THEN "either" ELSE "fail"),     \* outside the bound: no proof or the correct answer
      out |-> out]

\* bitslice.Partition(v, split, WithNbDigits(d)): v < 2^d, lower = v mod 2^split, upper = v div 2^split
PartParams == {<<0, 3>>, <<1, 3>>, <<2, 4>>, <<0, 8>>, <<4, 8>>, <<3, 16>>, <<0, 1>>}
PartVals(s, d) == {0, 1, Pow2(s) - 1, Pow2(s), Pow2(d) - 1, Pow2(d), Pow2(d) + 1, Pow2(d + 1), 0 - 1}
PartCase(s, d, v) ==
  [g |-> "bitpart", split |-> s, digits |-> d, in |-> <<v>>,
   exp |-> IF v >= 0 /\ v < Pow2(d) THEN "ok" ELSE "fail",
   out |-> IF v >= 0 /\ v < Pow2(d) THEN <<v % Pow2(s), v \div Pow2(s)>> ELSE <<>>]

\* selector.Partition(pivot, rightSide, input): input[i] kept on one side of the pivot; 0 <= pivot <= n
InputVals == <<7, 11, 13, 17>>
SelPartCase(n, right, p) ==
  [g |-> "selpart", n |-> n, right |-> right, in |-> <<p>>,
   exp |-> IF p >= 0 /\ p <= n THEN "ok" ELSE "fail",
   out |-> IF p >= 0 /\ p <= n
           THEN [i \in 1..n |-> IF (right /\ i - 1 >= p) \/ (~right /\ i - 1 < p) THEN InputVals[i] ELSE 0]
           ELSE <<>>]
\* selector.Slice(start, end, input): start >= 0, end <= n
SliceCase(n, s, e) ==
  [g |-> "slice", n |-> n, in |-> <<s, e>>,
   exp |-> IF s >= 0 /\ s <= n /\ e >= 0 /\ e <= n THEN "ok" ELSE "fail",
   out |-> IF s >= 0 /\ s <= n /\ e >= 0 /\ e <= n
           THEN [i \in 1..n |-> IF i - 1 >= s /\ i - 1 < e THEN InputVals[i] ELSE 0]
           ELSE <<>>]
\* selector.Mux(sel, x) with a single input: sel must be 0
Mux1Case(s) == [g |-> "mux1", in |-> <<s>>, exp |-> IF s = 0 THEN "ok" ELSE "fail", out |-> IF s = 0 THEN <<InputVals[1]>> ELSE <<>>]

AllCases ==
  {CmpCase(m, U, a, d) : m \in Methods, U \in Bounds, a \in Anchors, d \in UNION {Diffs(U2) : U2 \in Bounds}}
  \cup UNION {{PartCase(pp[1], pp[2], v) : v \in PartVals(pp[1], pp[2])} : pp \in PartParams}
  \cup {SelPartCase(n, r, p) : n \in 2..4, r \in BOOLEAN, p \in 0 - 1 .. 5}
  \cup {SliceCase(n, s, e) : n \in 2..4, s \in 0 - 1 .. 5, e \in 0 - 1 .. 5}
  \cup {Mux1Case(s) : s \in {0 - 1, 0, 1, 2}}

\* only differences that belong to the bound under test (plus its neighbours) are kept for the comparator
Relevant(c) == c.g = "cmp" => (c.in[2] - c.in[1]) \in Diffs(c.U)

VARIABLES cur, done
vars == <<cur, done>>
NoCase == [g |-> "none"]
Init == cur = NoCase /\ done = FALSE
Pick == /\ cur = NoCase /\ \E c \in AllCases : Relevant(c) /\ cur' = c
        /\ UNCHANGED done
Finish == /\ cur # NoCase /\ ~done /\ done' = TRUE /\ UNCHANGED cur
          /\ (IF Emit THEN PrintT("BEH" \o ToJson(cur)) ELSE TRUE)
Next == Pick \/ Finish
Spec == Init /\ [][Next]_vars

\* the relation used for case generation agrees with the transcribed procedure wherever the toy field can host the case
CaseAgreesWithProcedure ==
  (cur # NoCase /\ cur.g = "cmp" /\ ConstructOK(cur.U) /\ Abs(cur.in[2] - cur.in[1]) < PT - Pow2(BitLen(cur.U))) =>
    LET a == cur.in[1]  b == cur.in[2]  k == BitLen(cur.U)
        S == CASE cur.m = "AssertIsLessEq" -> SolAssertLessEq(a, b, k)
               [] cur.m = "AssertIsLess" -> SolAssertLess(a, b, k)
               [] cur.m = "IsLess" -> SolIsLess(a, b, k)
               [] cur.m = "IsLessEq" -> SolIsLessEq(a, b, k)
               [] cur.m = "Min" -> SolMin(a, b, k)
    IN /\ (cur.exp = "ok" => S # {} /\ (cur.out # <<>> => S = {cur.out[1]}))
       /\ (cur.exp = "fail" => S = {})
       /\ (cur.exp = "either" => (cur.out # <<>> => S \subseteq {cur.out[1]}))
=============================================================================
