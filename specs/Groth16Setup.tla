---------------------------- MODULE Groth16Setup ----------------------------
(***************************************************************************)
(* C01 (key side): the wire classification of Groth16 Setup                 *)
(* (backend/groth16/<curve>/setup.go, loop "for i := range A") and the      *)
(* shape of the keys it produces.                                           *)
(*                                                                         *)
(* A layout is [nbPub (incl. the ONE wire), nbWires, commits], where        *)
(* commits is a sequence of [wire (commitment wire id), priv (ascending     *)
(* sequence of privately committed wire ids)].  Declaratively every wire    *)
(* belongs to exactly one class:                                            *)
(*     public | commitment | private-committed-by-j | private               *)
(* vk.K lists public then commitment wires in wire order, ck[j] lists       *)
(* commitment j's private wires in order, pk.K the rest in order.  The      *)
(* transcription walks the wires with the code's counters (vI,              *)
(* nbPrivateCommittedSeen, nbCommitmentsSeen and one cursor per commitment) *)
(* and TLC checks it against the declarative partition for all small        *)
(* layouts.  KeyShapeOK is the predicate real keys are validated against:   *)
(* sizes, plus one independent Pedersen trapdoor (sigma) per commitment.    *)
(***************************************************************************)
EXTENDS Integers, Sequences, FiniteSets, TLC

CONSTANT Layouts      \* set of layouts explored (model checking) or recorded (artifact validation)

VARIABLES lay, i, vI, nPCS, nCS, cur, vkK, pkK, ckK, done
vars == <<lay, i, vI, nPCS, nCS, cur, vkK, pkK, ckK, done>>

NbCommit(l) == Len(l.commits)
CommitWires(l) == {l.commits[j].wire : j \in 1..NbCommit(l)}
PrivOf(l, j) == {l.commits[j].priv[k] : k \in 1..Len(l.commits[j].priv)}

Class(l, w) ==
  IF w < l.nbPub THEN "public"
  ELSE IF w \in CommitWires(l) THEN "commitment"
  ELSE IF \E j \in 1..NbCommit(l) : w \in PrivOf(l, j) THEN "committed"
  ELSE "private"

RECURSIVE SeqOf(_, _, _)
\* ascending sequence of the wires in lo..hi satisfying Pred
SeqOf(Pred(_), lo, hi) == IF lo > hi THEN <<>> ELSE (IF Pred(lo) THEN <<lo>> ELSE <<>>) \o SeqOf(Pred, lo + 1, hi)

ExpectedVk(l) == LET P(w) == Class(l, w) \in {"public", "commitment"} IN SeqOf(P, 0, l.nbWires - 1)
ExpectedPk(l) == LET P(w) == Class(l, w) = "private" IN SeqOf(P, 0, l.nbWires - 1)
ExpectedCk(l, j) == l.commits[j].priv

WellFormed(l) ==
  /\ l.nbPub >= 1 /\ l.nbPub <= l.nbWires
  /\ \A j \in 1..NbCommit(l) :
       /\ l.commits[j].wire \in l.nbPub..(l.nbWires - 1)
       /\ \A k \in 1..Len(l.commits[j].priv) : l.commits[j].priv[k] \in l.nbPub..(l.nbWires - 1)
       /\ \A k \in 1..(Len(l.commits[j].priv) - 1) : l.commits[j].priv[k] < l.commits[j].priv[k + 1]
       /\ \A k \in 1..Len(l.commits[j].priv) : l.commits[j].priv[k] < l.commits[j].wire   \* committed before the commitment exists
       /\ l.commits[j].wire \notin PrivOf(l, j)
  /\ \A j, k \in 1..NbCommit(l) : j < k => /\ l.commits[j].wire < l.commits[k].wire
                                            /\ PrivOf(l, j) \cap PrivOf(l, k) = {}      \* a private wire is committed once
  /\ \A j, k \in 1..NbCommit(l) : l.commits[j].wire \notin PrivOf(l, k)

(* ---- transcription of the wire walk ------------------------------------- *)
Init ==
  /\ lay \in Layouts /\ WellFormed(lay)
  /\ i = 0 /\ vI = 0 /\ nPCS = 0 /\ nCS = 0
  /\ cur = [j \in 1..NbCommit(lay) |-> 1]        \* cursor into each commitment's private list (the merge iterator)
  /\ vkK = <<>> /\ pkK = <<>> /\ ckK = [j \in 1..NbCommit(lay) |-> <<>>]
  /\ done = FALSE

\* index of the commitment whose next private wire is i, or 0
CommitIdx == IF \E j \in 1..NbCommit(lay) : cur[j] <= Len(lay.commits[j].priv) /\ lay.commits[j].priv[cur[j]] = i
             THEN CHOOSE j \in 1..NbCommit(lay) : cur[j] <= Len(lay.commits[j].priv) /\ lay.commits[j].priv[cur[j]] = i
             ELSE 0

Walk ==
  /\ ~done
  /\ IF i >= lay.nbWires THEN done' = TRUE /\ UNCHANGED <<lay, i, vI, nPCS, nCS, cur, vkK, pkK, ckK>>
     ELSE
       LET isPublic == i < lay.nbPub
           isCommitment == ~isPublic /\ nCS < NbCommit(lay) /\ lay.commits[nCS + 1].wire = i
           cIdx == IF isPublic \/ isCommitment THEN 0 ELSE CommitIdx
       IN /\ nCS' = IF isCommitment THEN nCS + 1 ELSE nCS
          /\ IF isPublic \/ isCommitment
             THEN /\ vkK' = Append(vkK, i) /\ vI' = vI + 1
                  /\ UNCHANGED <<pkK, ckK, nPCS, cur>>
             ELSE IF cIdx # 0
             THEN /\ ckK' = [ckK EXCEPT ![cIdx] = Append(@, i)]
                  /\ cur' = [cur EXCEPT ![cIdx] = @ + 1]
                  /\ nPCS' = nPCS + 1
                  /\ UNCHANGED <<vkK, pkK, vI>>
             ELSE \* pkK[i - vI - nbPrivateCommittedSeen] = t1 : the index must be the next free slot
                  /\ Assert(i - vI - nPCS = Len(pkK), "pk.K index arithmetic collides")
                  /\ pkK' = Append(pkK, i)
                  /\ UNCHANGED <<vkK, ckK, vI, nPCS, cur>>
          /\ i' = i + 1 /\ UNCHANGED <<lay, done>>

Next == Walk
Spec == Init /\ [][Next]_vars

PartitionOK == done =>
  /\ vkK = ExpectedVk(lay)
  /\ pkK = ExpectedPk(lay)
  /\ \A j \in 1..NbCommit(lay) : ckK[j] = ExpectedCk(lay, j)
  /\ Len(vkK) + Len(pkK) + nPCS = lay.nbWires

(* ---- what a key pair must look like (validated on recorded real keys) ----- *)
\* rec: [lenVkK, lenPkK, ckSizes (seq), nbVkCommitKeys, pacc (seq of seq), sigmaOwn (seq of BOOLEAN), sigmaCross (seq of seq of BOOLEAN)]
KeyShapeOK(l, rec) ==
  /\ rec.lenVkK = Len(ExpectedVk(l))
  /\ rec.lenPkK = Len(ExpectedPk(l))
  /\ Len(rec.ckSizes) = NbCommit(l) /\ \A j \in 1..NbCommit(l) : rec.ckSizes[j] = Len(l.commits[j].priv)
  /\ rec.nbVkCommitKeys = NbCommit(l)
  \* each commitment key is consistent with its own trapdoor ...
  /\ \A j \in 1..NbCommit(l) : rec.sigmaOwn[j]
  \* ... and no two commitments share a trapdoor (else one proof of knowledge covers the other's bases)
  /\ \A j, k \in 1..NbCommit(l) : j # k => ~rec.sigmaCross[j][k]
=============================================================================
