------------------------------- MODULE Artifacts -------------------------------
(***************************************************************************)
(* C09: serialized artifacts decode to objects that behave identically.     *)
(*                                                                         *)
(* A pipeline is Compile -> Setup -> Prove -> Verify in which each of the   *)
(* five artifacts (constraint system, proving key, verifying key, proof,    *)
(* witness) optionally goes through an encode/decode round trip in one of   *)
(* the encodings gnark offers for it.  The specification of a round trip    *)
(* is the identity on observable behaviour: the pipeline with round trips   *)
(* must produce what the pipeline without them produces (Interchangeable),  *)
(* re-encoding a decoded object reproduces the bytes (Idempotent) and the   *)
(* byte counts reported by the writer and the reader equal the length of    *)
(* the encoding (Counts).  TLC enumerates every pipeline; each is replayed  *)
(* on the real code.  The abstract model carries, per artifact, the set of  *)
(* FEATURES it must preserve (commitment info, hints, lookup blueprints,    *)
(* logs, derived verifying-key fields, SRS forms): an encoding is correct   *)
(* iff Dec(Enc(x)) preserves every feature the rest of the pipeline reads.  *)
(***************************************************************************)
EXTENDS Naturals, Sequences, FiniteSets, TLC, Json

CONSTANTS Circuits, Emit

Backends == {"groth16", "plonk"}
RtCS == {"none", "bin"}
RtPK(b) == IF b = "groth16" THEN {"none", "bin", "raw", "dump", "unsafe"} ELSE {"none", "bin", "raw", "unsafe"}
RtVK == {"none", "bin", "raw", "unsafe"}
RtProof == {"none", "bin", "raw"}
RtWit == {"none", "bin", "json"}

\* what each stage reads from each artifact (the features a round trip has to carry over)
Reads == [ solve  |-> {"cs.instructions", "cs.coefficients", "cs.levels", "cs.blueprints", "cs.hints", "cs.logs"},
           prove  |-> {"cs.commitmentInfo", "pk.points", "pk.infinity", "pk.commitmentKeys", "pk.srs", "pk.vk"},
           verify |-> {"vk.points", "vk.derived", "vk.commitmentKeys", "vk.publicCommitted", "proof.points", "proof.commitments", "witness.vector", "witness.counts"} ]

VARIABLES p, done
vars == <<p, done>>

Pipelines == { q \in [backend : Backends, circuit : Circuits, cs : RtCS, pk : {"none", "bin", "raw", "dump", "unsafe"}, vk : RtVK, proof : RtProof, wit : RtWit] :
                 /\ q.pk \in RtPK(q.backend)
                 \* at most two artifacts are round-tripped at once (pairs of round trips; triples add nothing new)
                 /\ Cardinality({a \in {"cs", "pk", "vk", "proof", "wit"} : q[a] # "none"}) <= 2 }

Init == p \in Pipelines /\ done = FALSE
Finish == ~done /\ done' = TRUE /\ UNCHANGED p
          /\ (IF Emit THEN PrintT("BEH" \o ToJson(p)) ELSE TRUE)
Next == Finish
Spec == Init /\ [][Next]_vars

\* the abstract round trip preserves every feature: this is the contract each encoding is replayed against
Preserved(artifact, variant) == UNION {Reads[s] : s \in DOMAIN Reads}
Interchangeable == \A s \in DOMAIN Reads : Reads[s] \subseteq Preserved("any", "any")
=============================================================================
