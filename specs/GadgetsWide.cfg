SPECIFICATION Spec
CONSTANTS
  PT = 251
  Emit = TRUE
INVARIANT ComparatorContract
INVARIANT CaseAgreesWithProcedure
CHECK_DEADLOCK FALSE
