----------------------------- MODULE Completeness -----------------------------
(***************************************************************************)
(* C03: every satisfying assignment yields a proof that verifies, under     *)
(* every consistent option combination; a non-satisfying assignment makes   *)
(* Prove return an error (no proof, no panic, no hang).                     *)
(*                                                                         *)
(* The configuration space is the state space: backend x circuit x witness  *)
(* class x option choices of prover and verifier.  The expected outcome is  *)
(* a function of the configuration (Expected); TLC enumerates every         *)
(* configuration and each one is replayed on the real Setup/Prove/Verify of *)
(* every curve under a watchdog that also looks for prover goroutines left  *)
(* behind.                                                                 *)
(***************************************************************************)
EXTENDS Naturals, Sequences, TLC, Json

CONSTANTS Circuits,     \* set of circuit names
          Commits,      \* subset of Circuits that use commitments
          Emit

Backends == {"groth16", "plonk"}
Hashes == {"default", "sha256", "sha512"}     \* "sha512": a digest wider than a field element
Witnesses == {"valid", "valid2", "badpublic", "badsecret", "short", "long"}   \* short / long: a witness with one value missing / in excess

VARIABLES cfg, done
vars == <<cfg, done>>

Configs ==
  [backend : Backends, circuit : Circuits, witness : Witnesses,
   pHtf : Hashes, vHtf : Hashes,          \* hash-to-field of the commitment scheme (prover / verifier side)
   pChal : Hashes, vChal : Hashes,        \* Fiat-Shamir challenge hash (PLONK)
   pFold : Hashes, vFold : Hashes,        \* KZG folding hash (PLONK)
   statZK : BOOLEAN]                      \* statistical zero-knowledge option (PLONK)

\* options that do not exist for a backend are kept at their default to avoid duplicate configurations
Relevant(c) ==
  /\ c.pChal # "sha512" /\ c.vChal # "sha512" /\ c.pFold # "sha512" /\ c.vFold # "sha512"   \* the wide digest matters for hash-to-field only
  /\ (c.backend = "groth16" => c.pChal = "default" /\ c.vChal = "default" /\ c.pFold = "default" /\ c.vFold = "default" /\ ~c.statZK)
  \* one option family is varied at a time (pairwise interactions are covered by the seeded sample in the thorough tier)
  /\ LET varied == (IF c.pHtf # "default" \/ c.vHtf # "default" THEN 1 ELSE 0)
                 + (IF c.pChal # "default" \/ c.vChal # "default" THEN 1 ELSE 0)
                 + (IF c.pFold # "default" \/ c.vFold # "default" THEN 1 ELSE 0)
     IN varied <= 1

Consistent(c) ==
  /\ c.pChal = c.vChal /\ c.pFold = c.vFold
  /\ (c.circuit \in Commits => c.pHtf = c.vHtf)     \* the hash-to-field is only used by commitments

ValidWitness(c) == c.witness \in {"valid", "valid2"}

Expected(c) ==
  IF ~ValidWitness(c) THEN "prove-error"
  ELSE IF Consistent(c) THEN "accept"
  ELSE "verify-reject"

Init == cfg \in {c \in Configs : Relevant(c)} /\ done = FALSE
Finish == ~done /\ done' = TRUE /\ UNCHANGED cfg
          /\ (IF Emit THEN PrintT("BEH" \o ToJson([cfg |-> cfg, expected |-> Expected(cfg)])) ELSE TRUE)
Next == Finish
Spec == Init /\ [][Next]_vars

\* sanity: the three outcomes are all reachable and an honest consistent run is always expected to verify
Honest == (ValidWitness(cfg) /\ Consistent(cfg)) => Expected(cfg) = "accept"
=============================================================================
