SPECIFICATION Spec
CONSTANTS
  P = 11
  V = 5
  Emit = TRUE
INVARIANT Theorem
CHECK_DEADLOCK FALSE
