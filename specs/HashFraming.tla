----------------------------- MODULE HashFraming -----------------------------
(***************************************************************************)
(* C15: in-circuit hash gadgets equal their native implementations for     *)
(* every message.                                                          *)
(*                                                                         *)
(* What differs between messages, for the gadgets, is FRAMING: how many    *)
(* blocks the padded message occupies, where the padding bytes fall, how   *)
(* the message was chunked over Write calls, and - for the variable-length *)
(* variants - how the actual length sits inside the declared maximum.  The *)
(* module transcribes the padding rules (Merkle-Damgard with a 64-bit      *)
(* length field: SHA-256, RIPEMD-160; sponge with multi-rate padding:      *)
(* SHA3-256/384/512, Keccak-256/512), computes the number of compression / *)
(* permutation calls and the padding shape for every length up to three    *)
(* blocks, and TLC checks that the length classes used for the replay hit  *)
(* every length at which the block count or the padding shape changes      *)
(* (BoundaryCover).  It then enumerates family x length x chunking and     *)
(* family x actual length x declared maximum x minimal-length option; each *)
(* case is replayed on the real gadget and compared with the native digest.*)
(* Field hashers (MiMC, Poseidon2 Merkle-Damgard), state export/import,    *)
(* Merkle proofs and Fiat-Shamir transcripts are enumerated by element     *)
(* count / chunking / position.                                            *)
(***************************************************************************)
EXTENDS Integers, Sequences, FiniteSets, TLC, Json

CONSTANTS Emit

Families == {"sha256", "ripemd160", "sha3-256", "sha3-384", "sha3-512", "keccak256", "keccak512"}
IsMD(f) == f \in {"sha256", "ripemd160"}
\* block size (MD) or rate (sponge), in bytes
Block(f) == CASE f \in {"sha256", "ripemd160"} -> 64
              [] f \in {"sha3-256", "keccak256"} -> 136
              [] f = "sha3-384" -> 104
              [] f \in {"sha3-512", "keccak512"} -> 72
HasVarLen(f) == f # "ripemd160"

\* number of compression-function / permutation calls for a message of n bytes
Blocks(f, n) == IF IsMD(f) THEN (n + 1 + 8 + Block(f) - 1) \div Block(f)   \* 0x80, zeros, 64-bit length
                ELSE n \div Block(f) + 1                                    \* at least one padding byte
\* shape of the padding: MD: does the length field fit the block of the last message byte?
\* sponge: are the domain-separation byte and the final 0x80 the same byte, adjacent, or apart?
PadShape(f, n) == IF IsMD(f) THEN (IF (n % Block(f)) + 9 <= Block(f) THEN "fits" ELSE "spills")
                  ELSE LET q == Block(f) - (n % Block(f)) IN IF q = 1 THEN "merged" ELSE IF q = 2 THEN "adjacent" ELSE "apart"

Lengths(f) == LET B == Block(f) IN
  IF IsMD(f) THEN {0, 1, B - 10, B - 9, B - 8, B - 1, B, B + 1, 2 * B - 10, 2 * B - 9, 2 * B - 8, 2 * B - 1, 2 * B, 2 * B + 1}
  ELSE {0, 1, B - 3, B - 2, B - 1, B, B + 1, 2 * B - 3, 2 * B - 2, 2 * B - 1, 2 * B, 2 * B + 1}

\* every length (up to 2 blocks + 1) at which the number of calls or the padding shape differs from its predecessor is a
\* replayed length, together with its predecessor
BoundaryCover == \A f \in Families : \A n \in 1..(2 * Block(f) + 1) :
                    (Blocks(f, n) # Blocks(f, n - 1) \/ PadShape(f, n) # PadShape(f, n - 1)) => {n - 1, n} \subseteq Lengths(f)
\* the two ways of counting blocks agree with the definition "smallest k with k*B >= n + minimal padding"
BlocksMinimal == \A f \in Families : \A n \in 0..(2 * Block(f) + 1) :
                    LET minpad == IF IsMD(f) THEN 9 ELSE 1  k == Blocks(f, n) IN
                    k * Block(f) >= n + minpad /\ (k - 1) * Block(f) < n + minpad
ASSUME BoundaryCover
ASSUME BlocksMinimal

\* chunkings of the Write calls: split points are byte offsets (clipped to the message)
\* "reuse": another hasher first digests a proper prefix of the same input slice (its padding must not leak into the input)
Chunkings(f) == {"one", "bytes", "split1", "splitB-1", "splitB", "splitB+1", "empties", "reuse"}
\* declared maximum (bytes written) for the variable-length sum, relative to the actual length n
\* the declared maximum has padding boundaries of its own (it fixes how many blocks the circuit allocates): besides values
\* relative to n, every maximum at which the allocated block count or the padding shape of the maximum changes
MaxLens(f, n) == LET B == Block(f) IN ({n, n + 1, (n \div B + 1) * B, n + B + 3, 2 * B + 5}
                                       \cup (IF IsMD(f) THEN {B - 9, B - 8, B - 4, B - 1, 2 * B - 9, 2 * B - 8, 2 * B - 1} ELSE {B - 2, B - 1, 2 * B - 2, 2 * B - 1}))
                                      \ {m \in 0..(4 * B) : m < n \/ m = 0}

Fixed == {[kind |-> "fixed", family |-> f, len |-> n, chunking |-> c, blocks |-> Blocks(f, n), pad |-> PadShape(f, n)] :
             f \in Families, n \in 0..300, c \in Chunkings("sha256")}
FixedCases == {x \in Fixed : x.len \in Lengths(x.family)}
VarCases == UNION {UNION {{[kind |-> "varlen", family |-> f, len |-> n, max |-> m, minlen |-> ml, blocks |-> Blocks(f, n), pad |-> PadShape(f, n), maxpad |-> PadShape(f, m)] :
                             m \in MaxLens(f, n), ml \in {0, n}} : n \in Lengths(f)} : f \in {g \in Families : HasVarLen(g)}}

\* field hashers: number of elements, chunking, point at which the state is exported and re-imported
FieldCases == {[kind |-> "field", family |-> h, len |-> n, chunking |-> c, export |-> e] :
                  h \in {"mimc", "poseidon2"}, n \in 0..5, c \in {"one", "each", "split1"}, e \in 0 - 1 .. 5}
FieldOK(x) == x.export <= x.len /\ (x.family = "poseidon2" => x.export = 0 - 1)
MerkleCases == {[kind |-> "merkle", leaves |-> n, index |-> i] : n \in {2, 3, 4, 5, 8}, i \in 0..7}
\* dirty: the circuit uses the transcript's hasher for something else between creating the transcript and the challenges
TranscriptCases == {[kind |-> "transcript", challenges |-> k, bindings |-> b, dirty |-> d] : k \in 1..3, b \in {0, 1, 3}, d \in BOOLEAN}

VARIABLES cur, done
vars == <<cur, done>>
NoCase == [kind |-> "none"]
Init == cur = NoCase /\ done = FALSE
Pick == /\ cur = NoCase /\ UNCHANGED done
        /\ \/ \E x \in FixedCases : cur' = x
           \/ \E x \in VarCases : cur' = x
           \/ \E x \in FieldCases : FieldOK(x) /\ cur' = x
           \/ \E x \in MerkleCases : x.index < x.leaves /\ cur' = x
           \/ \E x \in TranscriptCases : cur' = x
Finish == /\ cur # NoCase /\ ~done /\ done' = TRUE /\ UNCHANGED cur
          /\ (IF Emit THEN PrintT("BEH" \o ToJson(cur)) ELSE TRUE)
Next == Pick \/ Finish
Spec == Init /\ [][Next]_vars
=============================================================================
