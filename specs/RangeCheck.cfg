SPECIFICATION Spec
CONSTANTS
  P = 47
  MaxBits = 7
  Emit = TRUE
INVARIANT SoundInv
CHECK_DEADLOCK FALSE
