SPECIFICATION Spec
CONSTANTS
  MaxGates = 2
  MaxVars = 3
  Systems <- MCValidSystems
INVARIANT TranscriptionOK
CHECK_DEADLOCK FALSE
