SPECIFICATION Spec
CONSTANTS
  MaxLen = 4
  G16CountGuard = FALSE
  PlonkCVGuard = FALSE
  Emit = FALSE
INVARIANTS NoPanic
CHECK_DEADLOCK FALSE
