----------------------------- MODULE LevelBuilder -----------------------------
(***************************************************************************)
(* C06: the instruction levels the solver runs in parallel.                 *)
(*  (1) transcription of constraint.System.AddInstruction: an instruction   *)
(*      is placed one level above the highest level among the internal      *)
(*      wires it reads (level 0 if it reads inputs only) and its output     *)
(*      wires get that level; TLC checks LevelsSound for every sequence of  *)
(*      up to MaxInstr instructions over small wire sets;                   *)
(*  (2) LevelsSound is the predicate recorded systems (instruction reads /  *)
(*      writes observed through the blueprints' own tree callbacks, and the *)
(*      Levels the system really uses) are validated against:               *)
(*        - the levels partition the instructions,                          *)
(*        - every internal wire is produced by exactly one instruction,     *)
(*        - an instruction only reads wires produced in strictly earlier    *)
(*          levels (so all instructions of a level are independent).        *)
(***************************************************************************)
EXTENDS Integers, Sequences, FiniteSets, TLC

CONSTANTS Recorded,     \* set of recorded systems [nbInputs, nbWires, instrs, levels] (instr i = instrs[i+1])
          MaxInstr, MaxInternal

InstrIdx(s) == 0..(Len(s.instrs) - 1)
LevelOf(s, i) == CHOOSE l \in 1..Len(s.levels) : \E k \in 1..Len(s.levels[l]) : s.levels[l][k] = i
Producer(s, w) == {i \in InstrIdx(s) : w \in s.instrs[i + 1].writes}

MaxInstrPerLevel(s) == Len(s.instrs)

LevelsSound(s) ==
  /\ \A i \in InstrIdx(s) : Cardinality({<<l, k>> \in {<<l2, k2>> \in (1..Len(s.levels)) \X (1..MaxInstrPerLevel(s)) : k2 <= Len(s.levels[l2])} : s.levels[l][k] = i}) = 1
  /\ \A w \in s.nbInputs..(s.nbWires - 1) : Cardinality(Producer(s, w)) = 1
  /\ \A i \in InstrIdx(s) : \A w \in s.instrs[i + 1].reads :
        \A j \in Producer(s, w) : LevelOf(s, j) < LevelOf(s, i)

(* ---- transcription of AddInstruction's level assignment ---------------- *)
\* a program: sequence of [reads \subseteq earlier internal wires]; instruction k writes internal wire k
VARIABLES prog, wireLevel, levels
vars == <<prog, wireLevel, levels>>

Init == prog = <<>> /\ wireLevel = <<>> /\ levels = <<>>

Add ==
  /\ Len(prog) < MaxInstr
  /\ \E rd \in SUBSET (1..Len(prog)) :
       LET lvl == IF rd = {} THEN 1 ELSE 1 + CHOOSE m \in {wireLevel[w] : w \in rd} : \A x \in {wireLevel[w] : w \in rd} : x <= m
       IN /\ prog' = Append(prog, rd)
          /\ wireLevel' = Append(wireLevel, lvl)
          /\ levels' = IF lvl > Len(levels) THEN Append(levels, <<Len(prog)>>)
                       ELSE [levels EXCEPT ![lvl] = Append(@, Len(prog))]

Next == Add
Spec == Init /\ [][Next]_vars

AsSystem == [nbInputs |-> 1, nbWires |-> 1 + Len(prog),
             instrs |-> [k \in 1..Len(prog) |-> [reads |-> {w : w \in prog[k]}, writes |-> {k}]],
             levels |-> levels]
TranscriptionSound == LevelsSound(AsSystem)
RecordedSound == \A s \in Recorded : LevelsSound(s)
=============================================================================
