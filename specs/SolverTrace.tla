----------------------------- MODULE SolverTrace -----------------------------
(***************************************************************************)
(* C06 / C10: trace validation of the level-parallel solver.  A trace is    *)
(* the sequence of scheduling events the real solver emitted through the    *)
(* verif hooks during one Solve:  level(n) | instr(i) | set(w) | leveldone, *)
(* validated against the recorded system (LevelBuilder's record: what each  *)
(* instruction writes and which level it belongs to).  The trace spec       *)
(* enforces the barrier (an instruction runs only while its own level is    *)
(* open), single execution, single assignment, that a wire is set only      *)
(* while an instruction that produces it is running in the open level, and  *)
(* completeness at the end.                                                *)
(***************************************************************************)
EXTENDS Integers, Sequences, FiniteSets, TLC

CONSTANTS Pairs     \* sequence of [sys |-> [nbInputs, nbWires, instrs, levels], trace |-> sequence of [e, a]]

VARIABLES p, l, open, executed, setw
vars == <<p, l, open, executed, setw>>

Sys == Pairs[p].sys
Trace == Pairs[p].trace

Init == p \in 1..Len(Pairs) /\ l = 1 /\ open = 0 /\ executed = {} /\ setw = {}

Ev == Trace[l]

Level == /\ Ev.e = "level" /\ open' = open + 1
         /\ open + 1 <= Len(Sys.levels) /\ Ev.a = Len(Sys.levels[open + 1])
         \* barrier: the previous level is finished
         /\ (open > 0 => \A k \in 1..Len(Sys.levels[open]) : Sys.levels[open][k] \in executed)
         /\ UNCHANGED <<executed, setw>>
Instr == /\ Ev.e = "instr" /\ open > 0
         /\ \E k \in 1..Len(Sys.levels[open]) : Sys.levels[open][k] = Ev.a
         /\ Ev.a \notin executed
         /\ executed' = executed \cup {Ev.a} /\ UNCHANGED <<open, setw>>
SetWire == /\ Ev.e = "set" /\ open > 0
           /\ Ev.a \notin setw /\ Ev.a >= Sys.nbInputs
           /\ \E i \in executed : /\ Ev.a \in Sys.instrs[i + 1].writes
                                  /\ \E k \in 1..Len(Sys.levels[open]) : Sys.levels[open][k] = i
           /\ setw' = setw \cup {Ev.a} /\ UNCHANGED <<open, executed>>
Other == Ev.e = "leveldone" /\ UNCHANGED <<open, executed, setw>>

\* a trace that cannot be continued is a deadlock of this spec (deadlock checking is ON); a fully consumed
\* trace stutters
Finished == l = Len(Trace) + 1 /\ UNCHANGED vars
Next == \/ l <= Len(Trace) /\ (Level \/ Instr \/ SetWire \/ Other) /\ l' = l + 1 /\ UNCHANGED p
        \/ Finished
Spec == Init /\ [][Next]_vars

\* a successful solve assigned every internal wire and ran every instruction
Complete == l = Len(Trace) + 1 => /\ setw = Sys.nbInputs..(Sys.nbWires - 1)
                                   /\ executed = 0..(Len(Sys.instrs) - 1)
=============================================================================
