--------------------------- MODULE EmulatedMulCheck ---------------------------
(***************************************************************************)
(* C12: what the deferred multiplication check of std/math/emulated binds.  *)
(*                                                                         *)
(* field_mul.go checks  a(X) b(X) = r(X) + k(X) p(X) + (2^W - X) c(X)  at a *)
(* random point of the NATIVE field F_R, where a, b, r, k, p are the limb   *)
(* polynomials and c the carries returned by the hint.  By Schwartz-Zippel  *)
(* this is the identity of polynomials over F_R.  The limbs of a, b, r, k   *)
(* are range checked; the module evaluates, over toy parameters (R = 101,   *)
(* q = 13, two limbs of two bits: limb products stay below R but a*b does   *)
(* not), which triples (a, b, r) the identity accepts                       *)
(*   - when the carries are bounded to their honest range, and              *)
(*   - when they are arbitrary elements of F_R (what callMulHint does:      *)
(*     carries = newInternalElement(..), no range check).                   *)
(* TLC establishes: bounded carries => a*b = r (mod q) for every accepted   *)
(* triple; free carries => the identity only enforces a*b = r + k*p modulo  *)
(* R, and accepted triples with a*b # r (mod q) exist.  The second theorem  *)
(* is the model of known finding F18; the replay (emuWrapHint) exhibits it  *)
(* on the real gadget for the 256-bit moduli.                               *)
(***************************************************************************)
EXTENDS Integers, FiniteSets, TLC

CONSTANTS R, Q, W, B      \* native prime, emulated modulus, bits per limb, bound on honest carries

Base == 2 ^ W
Lim == 0..(Base - 1)
Elems == {<<x, y>> : x \in Lim, y \in Lim}
Val(e) == e[1] + Base * e[2]
P == <<Q % Base, Q \div Base>>
InvR(a) == CHOOSE y \in 0..(R - 1) : (a * y) % R = 1
\* centered representative of a field element
Centered(x) == IF (x % R) * 2 > R THEN (x % R) - R ELSE x % R

\* coefficients of d(X) = a(X)b(X) - r(X) - k(X)p(X) over the integers
D(a, b, r, k) == << a[1] * b[1] - r[1] - k[1] * P[1],
                    a[1] * b[2] + a[2] * b[1] - r[2] - (k[1] * P[2] + k[2] * P[1]),
                    a[2] * b[2] - k[2] * P[2] >>
\* d(X) = (Base - X) c(X) over F_R with c = c1 + c2 X:  d1 = Base c1,  d2 = Base c2 - c1,  d3 = -c2
Carries(d) == << (d[1] * InvR(Base)) % R, (0 - d[3]) % R >>
IdentityHolds(d, c) == (d[2] - (Base * c[2] - c[1])) % R = 0

Accepts(a, b, r, bounded) ==
  \E k \in Elems :
     LET d == D(a, b, r, k)  c == Carries(d) IN
     /\ IdentityHolds(d, c)
     /\ (bounded => \A i \in 1..2 : Centered(c[i]) >= 0 - B /\ Centered(c[i]) <= B)

Congruent(a, b, r) == (Val(a) * Val(b) - Val(r)) % Q = 0
Sound(bounded) == \A a \in Elems, b \in Elems, r \in Elems : Accepts(a, b, r, bounded) => Congruent(a, b, r)
\* honest provers are never rejected by the bound
Complete == \A a \in {e \in Elems : Val(e) < Q}, b \in {e \in Elems : Val(e) < Q} :   \* the quotient then fits its two limbs
               LET prod == Val(a) * Val(b)  r == <<(prod % Q) % Base, (prod % Q) \div Base>> IN Accepts(a, b, r, TRUE)
\* with free carries the identity says exactly: a*b = r + k*p modulo the native field
FreeMeansModNative == \A a \in Elems, b \in Elems, r \in Elems :
               Accepts(a, b, r, FALSE) <=> \E k \in Elems : (Val(a) * Val(b) - Val(r) - Val(k) * Q) % R = 0

ASSUME Sound(TRUE)
ASSUME Complete
ASSUME FreeMeansModNative
ASSUME ~Sound(FALSE)       \* F18: unbounded carries admit incongruent results

VARIABLE x
Init == x = 0
Next == UNCHANGED x
Spec == Init /\ [][Next]_x
=============================================================================
