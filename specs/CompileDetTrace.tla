--------------------------- MODULE CompileDetTrace ---------------------------
(* Trace validation for C11: a recorded history of compilations (ndjson, one   *)
(* event per compilation with the digest of the serialized constraint system)  *)
(* is accepted iff it is a behaviour of a deterministic compiler: for every    *)
(* (circuit, builder, field) all digests equal the first one recorded - the    *)
(* spec does not prescribe which output, only that there is exactly one.       *)
EXTENDS Naturals, Sequences, TLC, Json, IOUtils

Trace == ndJsonDeserialize("compiledet_trace.ndjson")

VARIABLES l, first
vars == <<l, first>>

KeyOf(e) == <<e.circuit, e.builder, e.field>>
AllKeys == {KeyOf(Trace[i]) : i \in 1..Len(Trace)}

Init == l = 1 /\ first = [k \in AllKeys |-> ""]

Compile ==
  /\ l <= Len(Trace)
  /\ LET e == Trace[l] IN
       /\ e.event = "compile"
       /\ e.digest # ""                                  \* a failed compilation is not a behaviour
       /\ \/ first[KeyOf(e)] = "" /\ first' = [first EXCEPT ![KeyOf(e)] = e.digest]
          \/ first[KeyOf(e)] = e.digest /\ UNCHANGED first
  /\ l' = l + 1

Next == Compile
Spec == Init /\ [][Next]_vars

\* acceptance: the whole trace was consumed
Accepted == TLCGet("stats").diameter - 1 = Len(Trace)
\* reports how far the trace was matched
Progress == TLCSet(1, l)
=============================================================================
