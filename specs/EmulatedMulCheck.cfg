SPECIFICATION Spec
CONSTANTS
  R = 101
  Q = 13
  W = 2
  B = 12
