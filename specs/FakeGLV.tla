------------------------------- MODULE FakeGLV -------------------------------
(***************************************************************************)
(* C16 (hint outputs of the fake-GLV decompositions): what the in-circuit   *)
(* checks of a hinted scalar multiplication bind.                           *)
(*                                                                         *)
(* Fake GLV proves Q = [s]P without computing it: the prover supplies Q     *)
(* and a short decomposition (s1, s2) with s1 + s2*s = 0 mod L (L the group *)
(* order), the circuit checks that relation and [s1]P + [s2]Q = 0.          *)
(* Toy instance: the group Z_L (a point is named by its discrete            *)
(* logarithm, P = 1), the circuit's native field Z_F.  The adversary        *)
(* chooses every hint output.  Three designs of the relation check:         *)
(*                                                                         *)
(*  "native"   s1 + s2*s = k*L evaluated in the native field Z_F with a     *)
(*             hinted, unconstrained k (std/algebra/native/twistededwards   *)
(*             scalarMulFakeGLV): TLC shows it binds nothing - k absorbs    *)
(*             any (s1, s2), in particular s1 = s2 = 0 accepts every Q;     *)
(*  "modL"     s1 + s2*s = 0 evaluated modulo L with s2 # 0 (the emulated   *)
(*             short-Weierstrass gadget): sound;                            *)
(*  "bypass"   as modL, but the final check is skipped when a special-case  *)
(*             flag is raised, and the flag for s = +-1 is derived from the *)
(*             HINTED point (Q = +-P) (sw_emulated scalarMulGLVAndFakeGLV   *)
(*             with complete arithmetic): every s admits Q = P.             *)
(*                                                                         *)
(* The strategies TLC finds are the ones replayed on the real gadgets.      *)
(***************************************************************************)
EXTENDS Integers, Sequences, FiniteSets, TLC, Json

CONSTANTS L,     \* prime group order
          F,     \* native field modulus (prime, larger than L)
          B,     \* bound on the sub-scalars (about sqrt(L))
          Emit

Scalars == 0..F-1                  \* the scalar is a native field element
Points == 0..L-1                   \* 0 is the neutral element

\* hint outputs chosen by the prover
Hints == [s1 : (0 - B)..B, s2 : 0..B, k : 0..F-1, q : Points]     \* s1 carries a sign (the sign bit of the gadget)
Mod(x, m) == (x + m * m * m) % m

GroupCheck(h) == Mod(h.s1 * 1 + h.s2 * h.q, L) = 0

Accepts(design, s, h) ==
  CASE design = "native" -> /\ Mod(h.s1 + h.s2 * s, F) = Mod(h.k * L, F)
                            /\ GroupCheck(h)
    [] design = "modL"   -> /\ Mod(h.s1 + h.s2 * s, L) = 0
                            /\ h.s2 # 0
                            /\ GroupCheck(h)
    [] design = "bypass" -> LET flag == (s % L = 0) \/ ((s + 1) % L = 0) \/ h.q = 1 \/ h.q = L - 1
                            IN  flag \/ (/\ Mod(h.s1 + h.s2 * s, L) = 0 /\ h.s2 # 0 /\ GroupCheck(h))

Right(s, h) == h.q = s % L

Sound(design) == \A s \in Scalars, h \in Hints : Accepts(design, s, h) => Right(s, h)
Complete(design) == \A s \in Scalars : s % L # 0 => \E h \in Hints : Accepts(design, s, h) /\ Right(s, h)

\* a concrete winning strategy per unsound design
Strategy(design) == IF Sound(design) THEN [name |-> "none"]
                    ELSE LET w == CHOOSE w \in Scalars \X Hints : Accepts(design, w[1], w[2]) /\ ~Right(w[1], w[2])
                         IN  [name |-> "wrong", s |-> w[1], s1 |-> w[2].s1, s2 |-> w[2].s2, k |-> w[2].k, q |-> w[2].q]

ASSUME Sound("modL") /\ Complete("modL")
ASSUME ~Sound("native")
\* the native-field design accepts the all-zero decomposition with any claimed result
ASSUME \A s \in Scalars, q \in Points : Accepts("native", s, [s1 |-> 0, s2 |-> 0, k |-> 0, q |-> q])
ASSUME ~Sound("bypass")
\* the bypass design accepts Q = P for every scalar
ASSUME \A s \in Scalars : Accepts("bypass", s, [s1 |-> 0, s2 |-> 0, k |-> 0, q |-> 1])

-----------------------------------------------------------------------------
(* The same question for the hinted RESIDUE WITNESS of the pairing checks: instead of raising f to the final     *)
(* exponent, the circuit asks the prover for w and a scaling factor s and checks  w^Q = f * s  (toy: the         *)
(* multiplicative group of Z_F, "final exponentiation" x -> x^((F-1)/Q), s restricted by construction to the     *)
(* elements the exponentiation kills, or zero).  Over the field the all-zero hint w = s = 0 satisfies the        *)
(* equation for EVERY f; excluding w = 0 (an inverse is demanded) makes the check sound.                          *)
Q == 3
RECURSIVE Pow(_, _)
Pow(x, n) == IF n = 0 THEN 1 ELSE (x * Pow(x, n - 1)) % F
FinalExpIsOne(f) == Pow(f, (F - 1) \div Q) = 1
Killed == {x \in 0..F-1 : x = 0 \/ Pow(x, (F - 1) \div Q) = 1}      \* what the scaling factor can be
ResidueAccepts(design, f, w, sc) == /\ Pow(w, Q) = (f * sc) % F
                                   /\ (design = "residueNonZero" => w # 0)
ResidueSound(design) == \A f \in 1..F-1, w \in 0..F-1, sc \in Killed : ResidueAccepts(design, f, w, sc) => FinalExpIsOne(f)
ASSUME (F - 1) % Q = 0
ASSUME ~ResidueSound("residueFree")
ASSUME \A f \in 1..F-1 : ResidueAccepts("residueFree", f, 0, 0)        \* the zero strategy
ASSUME ResidueSound("residueNonZero")
ASSUME \A f \in 1..F-1 : FinalExpIsOne(f) => \E w \in 1..F-1, sc \in Killed : ResidueAccepts("residueNonZero", f, w, sc)

-----------------------------------------------------------------------------
(* Two scalars at once (joint scalar multiplication [s]Q + [t]R with GLV): each scalar is split by a hint into       *)
(* (a + lambda*b) mod L.  Checking the two splits SEPARATELY binds both; checking only their SUM lets the prover    *)
(* move any amount d from one scalar to the other ([s+d]Q + [t-d]R): the "shiftDecomp" strategy.                    *)
Lambda == 2
Split == [a : 0..L-1, b : 0..L-1]
Val(x) == (x.a + Lambda * x.b) % L
JointAccepts(design, s, t, x, y) == IF design = "separate" THEN Val(x) = s % L /\ Val(y) = t % L
                                    ELSE (Val(x) + Val(y)) % L = (s + t) % L
JointSound(design) == \A s \in 0..L-1, t \in 0..L-1, x \in Split, y \in Split :
                         JointAccepts(design, s, t, x, y) => Val(x) = s /\ Val(y) = t
ASSUME JointSound("separate")
ASSUME ~JointSound("batched")
ASSUME \A s \in 0..L-2, t \in 1..L-1 : \E x \in Split, y \in Split : JointAccepts("batched", s, t, x, y) /\ Val(x) = s + 1 /\ Val(y) = t - 1

Designs == {"native", "modL", "bypass"}
VARIABLES cur, done
vars == <<cur, done>>
Init == cur = "none" /\ done = FALSE
Pick == cur = "none" /\ UNCHANGED done /\ \E d \in Designs : cur' = d
Finish == /\ cur # "none" /\ ~done /\ done' = TRUE /\ UNCHANGED cur
          /\ (IF Emit THEN PrintT("BEH" \o ToJson([design |-> cur, sound |-> Sound(cur), strategy |-> Strategy(cur)])) ELSE TRUE)
Next == Pick \/ Finish
Spec == Init /\ [][Next]_vars
=============================================================================
