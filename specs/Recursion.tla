------------------------------- MODULE Recursion -------------------------------
(***************************************************************************)
(* C17: recursive in-circuit verifiers accept exactly what the native       *)
(* verifiers accept.                                                        *)
(*                                                                         *)
(* The inner triple (proof, verifying key, public witness) and the verdict  *)
(* of the native verifier on it come from Groth16Protocol.tla /             *)
(* PlonkProtocol.tla (the C01 / C02 behaviours).  This module specifies     *)
(* the OUTER side: the ways std/recursion hands a triple to the in-circuit  *)
(* verifier and which key the circuit must end up verifying against.        *)
(*                                                                         *)
(*   mode witness : key supplied as circuit witness                         *)
(*   mode fixed   : key embedded as constants of the outer circuit          *)
(*   mode switch  : NKeys candidate keys, a selector variable Idx; the      *)
(*                  triple's own key sits at position Pos                   *)
(*   mode same    : (PLONK) the triple is batched with a genuine triple of  *)
(*                  the same key at position Pos of the batch               *)
(*                                                                         *)
(* The verifier is a small step machine: select the key, verify the         *)
(* triple(s) against the SELECTED key, conclude.  The property: the outer   *)
(* circuit is satisfiable iff the native verifier accepts the triple        *)
(* against the selected key.  With incomplete arithmetic the documented     *)
(* domain excludes exceptional elements (infinity, equal / opposite         *)
(* points, zero scalars): such behaviours are not judged ("either").        *)
(***************************************************************************)
EXTENDS Naturals, Sequences, FiniteSets, TLC, Json

CONSTANTS Emit

Backends == {"groth16", "plonk"}
Modes(b) == IF b = "plonk" THEN {"witness", "fixed", "switch", "same"} ELSE {"witness", "fixed", "switch"}

Configs == { c \in [backend : Backends, mode : {"witness", "fixed", "switch", "same"}, nkeys : 1..2, pos : 0..1, idx : 0..2,
                    arith : {"complete", "incomplete"}, innerOK : BOOLEAN, special : BOOLEAN] :
               /\ c.mode \in Modes(c.backend)
               /\ c.pos < c.nkeys
               /\ c.idx <= c.nkeys                          \* idx = nkeys: a selector that designates no key
               /\ (c.mode \in {"witness", "fixed"} => c.nkeys = 1 /\ c.idx = 0)
               /\ (c.mode = "same" => c.nkeys = 1 /\ c.idx = 0)   \* pos is the place in the batch
               /\ (c.mode # "same" /\ c.nkeys = 1 => c.pos = 0) }

VARIABLES c, pc, selected, verdict
vars == <<c, pc, selected, verdict>>

NoKey == 99

Init == c \in Configs /\ pc = "select" /\ selected = NoKey /\ verdict = "none"

\* step 1: which key do the following checks use
SelectKey == /\ pc = "select"
             /\ selected' = IF c.mode = "switch" THEN (IF c.idx < c.nkeys THEN c.idx ELSE NoKey) ELSE 0
             /\ pc' = "verify" /\ UNCHANGED <<c, verdict>>

\* the key the triple was made for
OwnKey == IF c.mode = "switch" THEN c.pos ELSE 0

\* step 2: the in-circuit checks, under the ideal rule "a proof verifies against a key iff it is genuine for that key"
VerifyInner == /\ pc = "verify"
               /\ verdict' = IF selected # NoKey /\ selected = OwnKey /\ c.innerOK THEN "accept" ELSE "reject"
               /\ pc' = "done" /\ UNCHANGED <<c, selected>>

Judged == ~(c.arith = "incomplete" /\ c.special)
Expected == IF ~Judged THEN "either" ELSE verdict

Finish == /\ pc = "done" /\ pc' = "emitted" /\ UNCHANGED <<c, selected, verdict>>
          /\ (IF Emit THEN PrintT("BEH" \o ToJson([cfg |-> c, expect |-> Expected])) ELSE TRUE)

Next == SelectKey \/ VerifyInner \/ Finish
Spec == Init /\ [][Next]_vars

\* the property, on the design
AcceptOnlySelected == verdict = "accept" => /\ selected = OwnKey
                                            /\ c.innerOK
                                            /\ (c.mode = "switch" => c.idx = c.pos)
AcceptComplete == pc \in {"done", "emitted"} /\ c.innerOK /\ (c.mode = "switch" => c.idx = c.pos) => verdict = "accept"
OutOfRangeSelectorRejected == pc \in {"done", "emitted"} /\ c.mode = "switch" /\ c.idx >= c.nkeys => verdict = "reject"
=============================================================================
