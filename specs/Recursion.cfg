SPECIFICATION Spec
CONSTANTS
  Emit = TRUE
INVARIANTS AcceptOnlySelected AcceptComplete OutOfRangeSelectorRejected
CHECK_DEADLOCK FALSE
