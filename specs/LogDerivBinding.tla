--------------------------- MODULE LogDerivBinding ---------------------------
(***************************************************************************)
(* C13: which values the log-derivative argument must bind BEFORE its       *)
(* challenge is drawn.                                                      *)
(*                                                                         *)
(* The argument checks  sum_i m_i / (x - t_i) = sum_j 1 / (x - q_j)  at a   *)
(* challenge x derived from a commitment.  A value that is not part of the  *)
(* commitment can be chosen by the prover after seeing x.  The game below   *)
(* is played over a toy field: table {0, 1} (one-bit limbs), a value V that *)
(* is out of range (no decomposition into two table limbs), the two limbs   *)
(* q0 + 2 q1 = V as queries and two multiplicities.  For every choice S of  *)
(* committed groups the prover fixes the groups in S, receives x, and then  *)
(* fixes the others; the design is sound iff the prover wins for at most    *)
(* half of the challenges.  TLC evaluates the game for every S and checks   *)
(* that it is sound exactly when the queries AND the multiplicities are     *)
(* committed - which is what std/internal/logderivarg does (plus the table  *)
(* entries when they are variables, which the prover could otherwise adapt  *)
(* to the challenge as well).                                               *)
(* Conformance: the committed wire set is extracted from compiled range     *)
(* check and lookup circuits and must contain every wire of every needed    *)
(* group: limb / result wires, index wires, multiplicities, variable table  *)
(* entries.                                                                *)
(***************************************************************************)
EXTENDS Integers, FiniteSets, Sequences, TLC, Json

CONSTANTS P, V, Emit

F == 0..(P - 1)
Inv(a) == CHOOSE y \in F : (a * y) % P = 1
Sub(a, b) == (a + P - b) % P
Half == Inv(2)

\* the identity at x for multiplicities m = <<m0, m1>> and limbs q0, q1 (q1 is fixed by the recomposition constraint)
Q1(q0) == (Sub(V, q0) * Half) % P
Defined(x, q0) == x # 0 /\ x # 1 /\ x # q0 /\ x # Q1(q0)
Identity(x, m, q0) ==
  /\ Defined(x, q0)
  /\ (m[1] * Inv(x) + m[2] * Inv(Sub(x, 1))) % P = (Inv(Sub(x, q0)) + Inv(Sub(x, Q1(q0)))) % P

Groups == {"query", "mult"}
Mults == {<<a, b>> : a \in F, b \in F}

\* number of challenges for which the prover wins, maximised over what it fixes in advance
WinsFor(S, m, q0) == {x \in F :
    \E m2 \in (IF "mult" \in S THEN {m} ELSE Mults), q2 \in (IF "query" \in S THEN {q0} ELSE F) : Identity(x, m2, q2)}
Forgeable(S) == \E m \in (IF "mult" \in S THEN Mults ELSE {<<0, 0>>}), q0 \in (IF "query" \in S THEN F ELSE {0}) :
                   2 * Cardinality(WinsFor(S, m, q0)) > P

\* V has no decomposition into table limbs: every accepted proof is a forgery
OutOfRange == \A q0 \in {0, 1} : Q1(q0) \notin {0, 1}
BindingTheorem == OutOfRange /\ \A S \in SUBSET Groups : (~Forgeable(S)) <=> (S = Groups)

(* ---- what each gadget configuration must commit (replayed on compiled circuits) ---- *)
Configs == {
  [config |-> "range",            needed |-> {"limbs", "mult"}],
  [config |-> "lookup-const",     needed |-> {"index", "result", "mult"}],
  [config |-> "lookup-var",       needed |-> {"index", "result", "mult", "table"}],
  [config |-> "lookup-var-repeat", needed |-> {"index", "result", "mult", "table"}] }

VARIABLES cur, done
vars == <<cur, done>>
Init == cur \in Configs /\ done = FALSE
Finish == ~done /\ done' = TRUE /\ UNCHANGED cur
          /\ (IF Emit THEN PrintT("BEH" \o ToJson(cur)) ELSE TRUE)
Next == Finish
Spec == Init /\ [][Next]_vars
Theorem == BindingTheorem
=============================================================================
