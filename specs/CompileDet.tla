----------------------------- MODULE CompileDet -----------------------------
(***************************************************************************)
(* C11: compilation is deterministic.                                       *)
(*                                                                         *)
(* The compile pipeline is modelled as a machine whose only sources of      *)
(* choice are explicit.  A program is a sequence of steps:                  *)
(*   Emit(x)        - deterministic emission (constraint, coefficient id,   *)
(*                    wire allocation): first-use numbering is a function   *)
(*                    of the order of calls, so it is deterministic;        *)
(*   Range(site,K)  - a `for k := range m` over a Go map with key set K at  *)
(*                    a source site; what it emits per key depends on the   *)
(*                    site's class (constant SiteClass, EXTRACTED from the  *)
(*                    sources on every run):                                *)
(*                      "insensitive" body only writes maps / sums,         *)
(*                      "sorted"      keys are sorted before use,           *)
(*                      "sensitive"   body emits per key in iteration order *)
(*   Defer(P)       - registers a callback (itself a program) run FIFO      *)
(*                    after the main body; callbacks may defer more.        *)
(* Go randomises map iteration, so Range on a sensitive site may pick any   *)
(* remaining key next.  Determinism is checked by self-composition: two     *)
(* runs of the same program must end with equal outputs.                    *)
(***************************************************************************)
EXTENDS Naturals, Sequences, FiniteSets, TLC

CONSTANTS Sites,       \* set of site names
          SiteClass,   \* function Sites -> {"insensitive","sorted","sensitive"}
          Keys         \* key universe for maps (small)

Classes == {"insensitive", "sorted", "sensitive"}
ASSUME \A s \in Sites : SiteClass[s] \in Classes

\* programs: up to two steps in the body, an optional deferred callback which may defer once more
Steps == [op : {"emit"}, x : Keys] \cup [op : {"range"}, site : Sites, ks : (SUBSET Keys) \ {{}}]
Bodies == {<<>>} \cup {<<a>> : a \in Steps} \cup {<<a, b>> : a \in Steps, b \in Steps}

VARIABLES body,      \* main body (chosen in Init)
          cb, cb2,   \* deferred callback and the callback it defers (both bodies)
          out,       \* out[r]: emitted sequence of run r \in {1,2}
          pos,       \* pos[r]: [phase, idx] of run r
          pending    \* pending[r]: keys of the range step in progress still to be visited
vars == <<body, cb, cb2, out, pos, pending>>

Runs == {1, 2}

Init ==
  /\ body \in Bodies /\ cb \in {<<>>} \cup {<<a>> : a \in Steps} /\ cb2 \in {<<>>} \cup {<<a>> : a \in Steps}
  /\ out = [r \in Runs |-> <<>>]
  /\ pos = [r \in Runs |-> [phase |-> 1, idx |-> 1]]
  /\ pending = [r \in Runs |-> {}]

Prog(ph) == IF ph = 1 THEN body ELSE IF ph = 2 THEN cb ELSE cb2   \* FIFO: body, then cb, then what cb deferred

Min(S) == CHOOSE x \in S : \A y \in S : x <= y

Advance(r) ==
  LET p == pos[r] IN
  IF p.idx < Len(Prog(p.phase)) THEN [pos EXCEPT ![r].idx = p.idx + 1]
  ELSE [pos EXCEPT ![r] = [phase |-> p.phase + 1, idx |-> 1]]

Step(r) ==
  LET p == pos[r] IN
  /\ p.phase <= 3
  /\ IF p.idx > Len(Prog(p.phase))
     THEN /\ pos' = [pos EXCEPT ![r] = [phase |-> p.phase + 1, idx |-> 1]]
          /\ UNCHANGED <<out, pending>>
     ELSE LET s == Prog(p.phase)[p.idx] IN
          IF s.op = "emit"
          THEN /\ out' = [out EXCEPT ![r] = Append(@, <<"e", s.x>>)]
               /\ pos' = Advance(r) /\ UNCHANGED pending
          ELSE \* range over a map
            IF pending[r] = {} /\ ~(\E k \in 1..Len(out[r]) : out[r][k] = <<"begin", p.phase, p.idx>>)
            THEN \* enter the loop
                 /\ pending' = [pending EXCEPT ![r] = s.ks]
                 /\ out' = [out EXCEPT ![r] = Append(@, <<"begin", p.phase, p.idx>>)]
                 /\ UNCHANGED pos
            ELSE IF pending[r] = {}
            THEN /\ pos' = Advance(r) /\ UNCHANGED <<out, pending>>
            ELSE \E k \in pending[r] :
                   /\ (SiteClass[s.site] = "sorted" => k = Min(pending[r]))
                   /\ pending' = [pending EXCEPT ![r] = @ \ {k}]
                   /\ out' = [out EXCEPT ![r] =
                                 IF SiteClass[s.site] = "insensitive" THEN @   \* nothing order-dependent is emitted
                                 ELSE Append(@, <<"k", s.site, k>>)]
                   /\ UNCHANGED pos
  /\ UNCHANGED <<body, cb, cb2>>

\* the two runs are independent, so it suffices to run them one after the other
Next == IF pos[1].phase <= 3 THEN Step(1) ELSE Step(2)
Spec == Init /\ [][Next]_vars

Finished(r) == pos[r].phase > 3
\* strip the loop markers (they are bookkeeping, identical in both runs)
Deterministic == (Finished(1) /\ Finished(2)) => out[1] = out[2]
=============================================================================
