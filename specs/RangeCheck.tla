------------------------------ MODULE RangeCheck ------------------------------
(***************************************************************************)
(* C13: a value passed to an n-bit range check is accepted only if it is    *)
(* an integer in [0, 2^n).                                                  *)
(*                                                                         *)
(* Transcription of std/rangecheck/rangecheck_commit.go:                    *)
(*   the limb width `base` is chosen by optimalWidth over the cost function *)
(*   of the builder for the whole mix of collected widths; a variable of    *)
(*   `bits` bits is decomposed into nbLimbs = ceil(bits/base) hinted limbs, *)
(*   recomposed (sum limb_j * 2^(base*j) == v in the field), every limb is  *)
(*   looked up in the table 0..2^base-1 and, when nbLimbs*base > bits, so   *)
(*   is the most significant limb shifted by the excess.                    *)
(* Accepts(v) says whether SOME limb values (the hint outputs are the       *)
(* prover's) satisfy those constraints.  TLC checks over toy prime fields   *)
(* - where the recomposition really wraps - that Accepts(v) <=> v < 2^bits  *)
(* for every width, base and value, and emits, for the widths mixes used in *)
(* the replay, the base / limb structure the real gadget must exhibit and   *)
(* the adversarial hint classes with their required outcome.                *)
(***************************************************************************)
EXTENDS Integers, Sequences, FiniteSets, TLC, Json

CONSTANTS P,        \* toy field for the exhaustive soundness check
          MaxBits,  \* widths 1..MaxBits
          Emit

RECURSIVE Pow2(_)
Pow2(n) == IF n = 0 THEN 1 ELSE 2 * Pow2(n - 1)

DecompSize(bits, base) == (bits + base - 1) \div base

(* ---- cost functions and optimalWidth (the mix is a sequence of widths) --- *)
RECURSIVE NbDecomposed(_, _, _)
NbDecomposed(mix, base, k) ==
  IF k > Len(mix) THEN 0
  ELSE LET n == DecompSize(mix[k], base) IN (IF n * base > mix[k] THEN n + 1 ELSE n) + NbDecomposed(mix, base, k + 1)

CostR1CS(base, mix) == Pow2(base) + NbDecomposed(mix, base, 1) + Len(mix) + 1
CostSCS(base, mix) == 3 * Pow2(base) + 3 * NbDecomposed(mix, base, 1) + NbDecomposed(mix, base, 1) + 1
Cost(builder, base, mix) == IF builder = "r1cs" THEN CostR1CS(base, mix) ELSE CostSCS(base, mix)

\* the first width in 2..17 with minimal cost
OptimalWidth(builder, mix) ==
  CHOOSE j \in 2..17 : /\ \A k \in 2..17 : Cost(builder, j, mix) <= Cost(builder, k, mix)
                       /\ \A k \in 2..(j - 1) : Cost(builder, k, mix) > Cost(builder, j, mix)

(* ---- what the constraints accept, over the toy field ---------------------- *)
\* all limb vectors of length n with entries below 2^base
RECURSIVE LimbVecs(_, _)
LimbVecs(n, base) == IF n = 0 THEN {<<>>} ELSE {Append(l, x) : l \in LimbVecs(n - 1, base), x \in 0..(Pow2(base) - 1)}

RECURSIVE Recompose(_, _, _)
Recompose(l, base, k) == IF k > Len(l) THEN 0 ELSE l[k] * Pow2(base * (k - 1)) + Recompose(l, base, k + 1)

Accepts(v, bits, base) ==
  LET n == DecompSize(bits, base)  shift == n * base - bits IN
  \E l \in LimbVecs(n, base) :
     /\ Recompose(l, base, 1) % P = v                       \* the recomposition constraint lives in the field
     /\ (shift > 0 => l[n] * Pow2(shift) < Pow2(base))      \* shifted most significant limb is in the table

Sound == \A bits \in 1..MaxBits, base \in 2..3, v \in 0..(P - 1) : Accepts(v, bits, base) <=> v < Pow2(bits)

(* ---- behaviours for the replay on the real gadget ------------------------ *)
Mixes == << <<5>>, <<8>>, <<7, 13, 3>>, <<1>>, <<16, 16, 16, 16>>, <<30>>, <<6, 6, 6>>, <<64, 64, 3>> >>
\* one variable checked several times, at different widths: every check binds (the narrowest decides)
SameMixes == << <<16, 8>>, <<8, 16>>, <<5, 3>>, <<3, 64>>, <<8, 8>> >>
Classes == {"honest-in", "honest-max", "honest-out", "limb-overflow", "limb-shift", "bad-multiplicity"}
SameClasses == {"honest-in", "honest-max", "honest-out", "honest-between"}
Expected(c) == IF c \in {"honest-in", "honest-max"} THEN "accept" ELSE "reject"
MinOf(mix) == CHOOSE w \in {mix[k] : k \in 1..Len(mix)} : \A k \in 1..Len(mix) : w <= mix[k]
MaxOf(mix) == CHOOSE w \in {mix[k] : k \in 1..Len(mix)} : \A k \in 1..Len(mix) : w >= mix[k]

VARIABLES builder, mode, m, i, cls, done
vars == <<builder, mode, m, i, cls, done>>
Init == /\ builder \in {"r1cs", "scs"} /\ done = FALSE
        /\ \/ mode = "mix" /\ m \in 1..Len(Mixes) /\ i \in 1..3 /\ i <= Len(Mixes[m]) /\ cls \in Classes
           \/ mode = "same" /\ m \in 1..Len(SameMixes) /\ i = 1 /\ cls \in SameClasses
                /\ (cls = "honest-between" => MinOf(SameMixes[m]) < MaxOf(SameMixes[m]))
Finish == ~done /\ done' = TRUE /\ UNCHANGED <<builder, mode, m, i, cls>>
          /\ (IF ~Emit THEN TRUE
              ELSE IF mode = "mix" THEN LET mix == Mixes[m] base == OptimalWidth(builder, mix) IN
                PrintT("BEH" \o ToJson([builder |-> builder, mode |-> mode, mix |-> mix, var |-> i, class |-> cls, expected |-> Expected(cls),
                                        base |-> base, nbLimbs |-> DecompSize(mix[i], base),
                                        shift |-> DecompSize(mix[i], base) * base - mix[i]]))
              ELSE LET mix == SameMixes[m] IN
                \* value classes are relative to the narrowest width: 1, 2^min - 1, 2^min, 2^max - 1
                PrintT("BEH" \o ToJson([builder |-> builder, mode |-> mode, mix |-> mix, var |-> 1, class |-> cls, expected |-> Expected(cls),
                                        base |-> 0, nbLimbs |-> 0, shift |-> 0, min |-> MinOf(mix), max |-> MaxOf(mix)])))
Next == Finish
Spec == Init /\ [][Next]_vars
SoundInv == Sound
=============================================================================
