SPECIFICATION Spec
CONSTANTS
  P = 47
  MaxGates = 4
  Emit = TRUE
INVARIANT TypeOK
CHECK_DEADLOCK FALSE
