------------------------------- MODULE ProgGen -------------------------------
(***************************************************************************)
(* Generator of straight-line programs over frontend.API (C04/C06).         *)
(* A program is a sequence of instructions [op, a, n] whose operands are    *)
(* references: constants, the public inputs p0,p1, the secret input s0, or  *)
(* temporaries produced by earlier instructions.  The state is the program  *)
(* prefix; Next appends any well-formed instruction.  For a fixed set of    *)
(* probe assignments the value of every temporary and the conjunction of    *)
(* all assertions under ApiSemantics is part of each emitted behaviour:     *)
(* that is the oracle the real compiler + solver are compared with.         *)
(***************************************************************************)
EXTENDS ApiSemantics, TLC, Json

CONSTANTS MaxLen,     \* exact program length emitted
          ConstVals,  \* constant operand values
          ProbeSeq,   \* sequence of the values each input takes in the probe assignments
          OpSet,      \* operations explored
          Derived,    \* 0: free programs; 1: programs start with DerivedPrefix and the appended call takes its operands among
                      \*    the derived values (operand kind "derived": -p0, 2*p1, s0+1), p0 and the constant 1;
                      \* 2: programs start with BoolPrefix (p0 asserted boolean, then -p0, 2*p0, p0+p0 derived from it)
          Emit

VARIABLES prog, nt, done, cur
vars == <<prog, nt, done, cur>>

InputRefs == {[k |-> "p", i |-> 0], [k |-> "p", i |-> 1], [k |-> "s", i |-> 0]}
ConstRefs == {[k |-> "c", i |-> v] : v \in ConstVals}
TempRefs(n) == {[k |-> "t", i |-> j] : j \in 0..(n - 1)}
DerivedPrefix == << [op |-> "Neg", a |-> <<[k |-> "p", i |-> 0]>>, n |-> 0],
                   [op |-> "Mul", a |-> <<[k |-> "p", i |-> 1], [k |-> "c", i |-> 2]>>, n |-> 0],
                   [op |-> "Add", a |-> <<[k |-> "s", i |-> 0], [k |-> "c", i |-> 1]>>, n |-> 0] >>
BoolPrefix == << [op |-> "AssertIsBoolean", a |-> <<[k |-> "p", i |-> 0]>>, n |-> 0],
                [op |-> "Neg", a |-> <<[k |-> "p", i |-> 0]>>, n |-> 0],
                [op |-> "Mul", a |-> <<[k |-> "p", i |-> 0], [k |-> "c", i |-> 2]>>, n |-> 0],
                [op |-> "Add", a |-> <<[k |-> "p", i |-> 0], [k |-> "p", i |-> 0]>>, n |-> 0] >>
Refs(n) == IF Derived > 0 THEN TempRefs(n) \cup {[k |-> "p", i |-> 0], [k |-> "c", i |-> 1]}
           ELSE InputRefs \cup ConstRefs \cup TempRefs(n)

NOut(op, n) == IF op = "ToBinary" THEN n
               ELSE IF op = "GDecoder3" THEN 3
               ELSE IF op = "GPartition" THEN 2
               ELSE IF op \in {"AssertIsEqual", "AssertIsDifferent", "AssertIsBoolean", "AssertIsCrumb", "AssertIsLessOrEqual", "PlonkGate", "GRangePlain"} THEN 0
               ELSE 1

L2Patterns == { <<[k |-> "p", i |-> 0], [k |-> "p", i |-> 1], [k |-> "s", i |-> 0], [k |-> "c", i |-> 2]>>,
                <<[k |-> "c", i |-> 0], [k |-> "c", i |-> 1], [k |-> "c", i |-> 2], [k |-> "c", i |-> 1]>>,
                <<[k |-> "p", i |-> 0], [k |-> "p", i |-> 0], [k |-> "p", i |-> 1], [k |-> "s", i |-> 0]>> }

\* An instruction is built one choice at a time (operation, then each operand): the set of programs is the
\* same as with one big step, but every state has few successors, which is what makes random simulation cheap.
NoCur == [op |-> "", a |-> <<>>, n |-> 0]

Init == /\ prog = (IF Derived = 1 THEN DerivedPrefix ELSE IF Derived = 2 THEN BoolPrefix ELSE <<>>)
        /\ nt = (IF Derived > 0 THEN 3 ELSE 0)
        /\ done = FALSE /\ cur = NoCur

ChooseOp ==
  /\ Len(prog) < MaxLen /\ cur = NoCur
  /\ \E op \in OpSet :
       \E w \in (IF op = "ToBinary" THEN {1, 3, FieldBits, FieldBits + 1} ELSE IF op \in {"PlonkExpr", "PlonkGate"} THEN {1, 2, 3}
                  ELSE IF op = "GPartition" THEN {1, 3, 5}
                  ELSE IF op = "GRangePlain" THEN {1, 3, FieldBits - 1, FieldBits, FieldBits + 1} ELSE {0}) :
         cur' = [op |-> op, a |-> <<>>, n |-> w]
  /\ UNCHANGED <<prog, nt, done>>

Commit(ins) ==
  /\ prog' = Append(prog, ins)
  /\ nt' = nt + NOut(ins.op, ins.n)
  /\ cur' = NoCur

\* data inputs of the multiplexers / map: fixed patterns (the selector ranges over every reference)
PatRefs == <<[k |-> "p", i |-> 0], [k |-> "p", i |-> 1], [k |-> "s", i |-> 0], [k |-> "c", i |-> 2], [k |-> "c", i |-> 46]>>
MuxPatterns(nin) == { [j \in 1..nin |-> PatRefs[j]],
                      [j \in 1..nin |-> PatRefs[((j + 1) % 5) + 1]],
                      [j \in 1..nin |-> IF j % 2 = 1 THEN [k |-> "p", i |-> 0] ELSE [k |-> "c", i |-> 1]] }
IsMux(op) == op \in {"GMux2", "GMux3", "GMux4", "GMux5", "GMap3"}

ChooseOperand ==
  /\ cur # NoCur
  /\ IF cur.op = "Lookup2" /\ Len(cur.a) = 2
     THEN \E pat \in L2Patterns : Commit([cur EXCEPT !.a = cur.a \o pat])
     ELSE IF IsMux(cur.op) /\ Len(cur.a) = 1 /\ Derived = 0
     THEN \E pat \in MuxPatterns(Arity(cur.op) - 1) : Commit([cur EXCEPT !.a = cur.a \o pat])
     ELSE \E r \in Refs(nt) :
            LET c2 == [cur EXCEPT !.a = Append(cur.a, r)]
            IN IF Len(c2.a) = Arity(c2.op) THEN Commit(c2)
               ELSE cur' = c2 /\ UNCHANGED <<prog, nt>>
  /\ UNCHANGED done

AppendInstr == ChooseOp \/ ChooseOperand

(* ---- evaluation under ApiSemantics ---------------------------------------- *)
RefVal(r, asg, temps) ==
  CASE r.k = "c" -> r.i
    [] r.k = "p" -> asg[r.i + 1]
    [] r.k = "s" -> asg[3]
    [] r.k = "t" -> temps[r.i + 1]

\* st = [temps, ok, any]: any[j] = TRUE iff temp j is (or depends on) an unconstrained value
RECURSIVE Run(_, _, _, _)
Run(p, k, asg, st) ==
  IF k > Len(p) \/ ~st.ok THEN st
  ELSE LET ins == p[k]
           args == [j \in 1..Len(ins.a) |-> RefVal(ins.a[j], asg, st.temps)]
           tainted == \E j \in 1..Len(ins.a) : ins.a[j].k = "t" /\ st.any[ins.a[j].i + 1]
           r == Eval(ins.op, args, ins.n)
       IN IF tainted
          THEN \* anything computed from an unconstrained value is itself unspecified: stop judging values
               Run(p, k + 1, asg, [temps |-> st.temps \o [j \in 1..NOut(ins.op, ins.n) |-> 0],
                                    ok |-> st.ok, any |-> st.any \o [j \in 1..NOut(ins.op, ins.n) |-> TRUE],
                                    unspec |-> TRUE])
          ELSE Run(p, k + 1, asg, [temps |-> st.temps \o r.out, ok |-> r.ok,
                                    any |-> st.any \o [j \in 1..Len(r.out) |-> r.any], unspec |-> st.unspec])

EvalProg(p, asg) == Run(p, 1, asg, [temps |-> <<>>, ok |-> TRUE, any |-> <<>>, unspec |-> FALSE])

NP == Len(ProbeSeq)
ProbeAsg(q) == <<ProbeSeq[(q % NP) + 1], ProbeSeq[((q \div NP) % NP) + 1], ProbeSeq[((q \div (NP * NP)) % NP) + 1]>>
ProbeAsgs == {ProbeAsg(q) : q \in 0..(NP * NP * NP - 1)}

Behaviour ==
  [prog |-> prog,
   probes |-> [q \in 1..(NP * NP * NP) |->
                 LET asg == ProbeAsg(q - 1) r == EvalProg(prog, asg)
                 IN [asg |-> asg, ok |-> r.ok, temps |-> r.temps, any |-> r.any, unspec |-> r.unspec]]]

Finish ==
  /\ Len(prog) = MaxLen /\ ~done /\ cur = NoCur
  /\ done' = TRUE
  /\ IF Emit THEN PrintT("BEH" \o ToJson(Behaviour)) ELSE TRUE
  /\ UNCHANGED <<prog, nt, cur>>

Next == AppendInstr \/ Finish
Spec == Init /\ [][Next]_vars

(* properties of the semantics themselves, evaluated on every generated program *)
\* evaluation is total and yields exactly nt temporaries when all assertions hold
WellFormed == done => \A asg \in ProbeAsgs : LET r == EvalProg(prog, asg) IN r.ok => Len(r.temps) = nt
=============================================================================
