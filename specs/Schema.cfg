SPECIFICATION Spec
CONSTANTS
  Emit = TRUE
INVARIANT Partition
CHECK_DEADLOCK FALSE
