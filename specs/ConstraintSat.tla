---------------------------- MODULE ConstraintSat ----------------------------
(***************************************************************************)
(* C05 (and C14, C13): TLC as an exhaustive constraint solver over F_P on   *)
(* the constraint rows EXPORTED FROM THE REAL COMPILER.                     *)
(*                                                                         *)
(* A case is one API operation compiled by one builder:                     *)
(*   [name, kind, nbWires, rows, order, op, n, args, outs]                  *)
(*   rows : R1C rows <<L,R,O>> with L,R,O sequences of <<coeff, wire>>, or  *)
(*          sparse gates [xa,xb,xc,ql,qr,qo,qm,qc]                          *)
(*   order: the order in which wires are assigned (inputs first, then the   *)
(*          wire completing most rows, outputs last)                        *)
(*   args : operand descriptors <<"w", wire>> or <<"c", value>>             *)
(*   outs : wires tied to the operation's results by equality               *)
(* The state is a partial assignment; Assign extends it by any value of     *)
(* the next wire for which every row that just became fully assigned        *)
(* holds.  Terminal states are exactly the satisfying full assignments -    *)
(* for EVERY value of every hinted / internal wire, i.e. for every          *)
(* dishonest prover.  Sound: in every terminal state the operation's        *)
(* documented relation (ApiSemantics!Eval) holds between operands and       *)
(* results.                                                                *)
(***************************************************************************)
EXTENDS ApiSemantics, TLC

CONSTANTS Cases,       \* sequence of cases
          ProbeVals    \* values a "probe" position ranges over

VARIABLES c, asg
vars == <<c, asg>>

Case == Cases[c]
Pos == Len(asg)

\* The exporter precomputes, for speed only (both are functions of rows and order, re-derived and
\* compared by the checker on every run):
\*   posOf   : wire id -> position in order (0 = never assigned), as a sequence indexed by wire+1
\*   checkAt : position -> indices of the rows whose last wire is assigned at that position
\*   dom     : position -> "F" (all field values) or "probe" (third operand of 3-operand operations)
Val(cs, a, w) == IF cs.kind = "r1cs" /\ w = 0 THEN 1 ELSE a[cs.posOf[w + 1]]

RECURSIVE EvalLE(_, _, _, _)
EvalLE(cs, a, le, k) == IF k > Len(le) THEN 0 ELSE (le[k][1] * Val(cs, a, le[k][2]) + EvalLE(cs, a, le, k + 1)) % P

RowHolds(cs, a, row) ==
  IF cs.kind = "r1cs"
  THEN (EvalLE(cs, a, row[1], 1) * EvalLE(cs, a, row[2], 1)) % P = EvalLE(cs, a, row[3], 1)
  ELSE \* a slot whose coefficients are all zero is unused (it carries wire id 0 by default)
       LET l == IF row.ql # 0 \/ row.qm # 0 THEN Val(cs, a, row.xa) ELSE 0
           r == IF row.qr # 0 \/ row.qm # 0 THEN Val(cs, a, row.xb) ELSE 0
           o == IF row.qo # 0 THEN Val(cs, a, row.xc) ELSE 0
       IN (row.ql * l + row.qr * r + row.qo * o + row.qm * ((l * r) % P) + row.qc) % P = 0

Init == c \in 1..Len(Cases) /\ asg = <<>>

Assign ==
  /\ Pos < Len(Case.order)
  /\ \E v \in (IF Case.dom[Pos + 1] = "probe" THEN ProbeVals ELSE F) :
       LET a2 == Append(asg, v)
       IN /\ \A k \in 1..Len(Case.checkAt[Pos + 1]) : RowHolds(Case, a2, Case.rows[Case.checkAt[Pos + 1][k]])
          /\ asg' = a2
  /\ UNCHANGED c

Next == Assign
Spec == Init /\ [][Next]_vars

Terminal == Pos = Len(Case.order)

ArgVal(d) == IF d[1] = "c" THEN d[2] ELSE Val(Case, asg, d[2])

\* the documented relation between operands and results holds in every satisfying assignment
Sound ==
  Terminal =>
    LET args == [k \in 1..Len(Case.args) |-> ArgVal(Case.args[k])]
        r == Eval(Case.op, args, Case.n)
    IN /\ r.ok
       /\ (r.any \/ \A k \in 1..Len(Case.outs) : Val(Case, asg, Case.outs[k]) = r.out[k])
=============================================================================
