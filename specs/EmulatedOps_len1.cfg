SPECIFICATION Spec
CONSTANTS
  Q = 13
  MaxLen = 1
  Emit = TRUE
INVARIANT InvOK
CHECK_DEADLOCK FALSE
