------------------------------- MODULE CurveOps -------------------------------
(***************************************************************************)
(* C16: in-circuit group operations match the native group law, exceptional *)
(* cases included.                                                         *)
(*                                                                         *)
(* Points are named by their discrete logarithm k (the point [k]G; k = 0 is *)
(* the point at infinity, negative k the opposite point), scalars by small  *)
(* integers or by their distance from the group order r (r-1, r, r+1 stand  *)
(* for -1, 0, 1 given in a non-canonical or over-sized representation).     *)
(* The group law on names is integer arithmetic, so the expected result of  *)
(* every operation is computed here; what the module adds is each method's  *)
(* DOCUMENTED DOMAIN: incomplete addition needs P # +-Q and no infinity,    *)
(* doubling and incomplete scalar multiplication need a finite point and a  *)
(* non-zero scalar, the unified / complete variants have no exceptions.     *)
(* Outside the domain the result is unspecified and not judged.  TLC        *)
(* enumerates method x operands x scalar class x completeness option; each  *)
(* case is replayed on the real gadgets of every curve family and compared  *)
(* with the native scalar multiplication [expected]G.                       *)
(***************************************************************************)
EXTENDS Integers, Sequences, FiniteSets, TLC, Json

CONSTANTS Emit

Points == 0 - 2 .. 3                      \* k : the point [k]G
ScalarClasses == {"0", "1", "2", "3", "r-1", "r", "r+1"}
Eff(s) == CASE s = "0" -> 0 [] s = "1" -> 1 [] s = "2" -> 2 [] s = "3" -> 3 [] s = "r-1" -> 0 - 1 [] s = "r" -> 0 [] s = "r+1" -> 1
Canonical(s) == s \in {"0", "1", "2", "3", "r-1"}

Def(v) == [def |-> TRUE, k |-> v]
Undef == [def |-> FALSE, k |-> 0]

Add(p, q) == IF p = 0 \/ q = 0 \/ p = q \/ p = 0 - q THEN Undef ELSE Def(p + q)
AddUnified(p, q) == Def(p + q)
Double(p) == IF p = 0 THEN Undef ELSE Def(2 * p)
Neg(p) == Def(0 - p)
\* complete = the WithCompleteArithmetic option
ScalarMul(p, s, complete) == IF complete THEN Def(Eff(s) * p)
                             ELSE IF p = 0 \/ Eff(s) = 0 THEN Undef ELSE Def(Eff(s) * p)
ScalarMulBase(s, complete) == ScalarMul(1, s, complete)
JointScalarMulBase(p, s, t, complete) ==           \* [s]G + [t]P
  IF complete THEN Def(Eff(s) + Eff(t) * p)
  \* Shamir's trick precomputes G + P and G - P with incomplete additions: P # +-G (documented for jointScalarMulGLVUnsafe)
  ELSE IF p = 0 \/ p = 1 \/ p = 0 - 1 \/ Eff(s) = 0 \/ Eff(t) = 0 \/ Eff(s) = Eff(t) * p \/ Eff(s) = 0 - Eff(t) * p THEN Undef ELSE Def(Eff(s) + Eff(t) * p)
Msm2(p, q, s, t, complete) ==                      \* [s]P + [t]Q
  IF complete THEN Def(Eff(s) * p + Eff(t) * q)
  ELSE IF p = 0 \/ q = 0 \/ p = q \/ p = 0 - q \/ Eff(s) = 0 \/ Eff(t) = 0 \/ Eff(s) * p = Eff(t) * q \/ Eff(s) * p = 0 - Eff(t) * q THEN Undef
       ELSE Def(Eff(s) * p + Eff(t) * q)

Cases ==
  {[op |-> "Add", p |-> p, q |-> q, s |-> "1", t |-> "1", complete |-> FALSE, exp |-> Add(p, q), full |-> p + q] : p \in Points, q \in Points}
  \cup {[op |-> "AddUnified", p |-> p, q |-> q, s |-> "1", t |-> "1", complete |-> TRUE, exp |-> AddUnified(p, q), full |-> p + q] : p \in Points, q \in Points}
  \cup {[op |-> "Double", p |-> p, q |-> 0, s |-> "1", t |-> "1", complete |-> FALSE, exp |-> Double(p), full |-> 2 * p] : p \in Points}
  \cup {[op |-> "Neg", p |-> p, q |-> 0, s |-> "1", t |-> "1", complete |-> FALSE, exp |-> Neg(p), full |-> 0 - p] : p \in Points}
  \cup {[op |-> "ScalarMul", p |-> p, q |-> 0, s |-> s, t |-> "1", complete |-> c, exp |-> ScalarMul(p, s, c), full |-> Eff(s) * p] : p \in {0, 1, 2, 0 - 1}, s \in ScalarClasses, c \in BOOLEAN}
  \cup {[op |-> "ScalarMulBase", p |-> 1, q |-> 0, s |-> s, t |-> "1", complete |-> c, exp |-> ScalarMulBase(s, c), full |-> Eff(s)] : s \in ScalarClasses, c \in BOOLEAN}
  \cup {[op |-> "JointScalarMulBase", p |-> p, q |-> 0, s |-> s, t |-> t, complete |-> c, exp |-> JointScalarMulBase(p, s, t, c), full |-> Eff(s) + Eff(t) * p] :
          p \in {0, 1, 2, 0 - 1}, s \in {"0", "1", "2", "r-1"}, t \in {"0", "1", "r-1", "r+1"}, c \in BOOLEAN}
  \cup {[op |-> "Msm2", p |-> p, q |-> q, s |-> s, t |-> t, complete |-> c, exp |-> Msm2(p, q, s, t, c), full |-> Eff(s) * p + Eff(t) * q] :
          p \in {0, 1, 2}, q \in {0, 1, 0 - 2}, s \in {"0", "1", "r-1"}, t \in {"0", "2", "r+1"}, c \in BOOLEAN}

\* sanity of the domain rules: wherever the incomplete method is defined it agrees with the complete one
DomainsConsistent ==
  /\ \A p \in Points, q \in Points : Add(p, q).def => Add(p, q).k = AddUnified(p, q).k
  /\ \A p \in Points, s \in ScalarClasses : ScalarMul(p, s, FALSE).def => ScalarMul(p, s, FALSE).k = ScalarMul(p, s, TRUE).k
  /\ \A p \in Points : Double(p).def => Double(p).k = AddUnified(p, p).k
  \* the exceptional cases are exactly the ones the incomplete formulas exclude
  /\ \A p \in Points, q \in Points : ~Add(p, q).def <=> (p = 0 \/ q = 0 \/ AddUnified(p, q).k = 0 \/ p = q)
\* `full` (the group law without exceptions, used for the complete Edwards formulas) agrees with every defined expectation
FullConsistent == \A c \in Cases : c.exp.def => c.exp.k = c.full
ASSUME DomainsConsistent

ASSUME FullConsistent

VARIABLES cur, done
vars == <<cur, done>>
NoCase == [op |-> "none"]
Init == cur = NoCase /\ done = FALSE
Pick == cur = NoCase /\ UNCHANGED done /\ \E c \in Cases : cur' = c
Finish == /\ cur # NoCase /\ ~done /\ done' = TRUE /\ UNCHANGED cur
          /\ (IF Emit THEN PrintT("BEH" \o ToJson(cur)) ELSE TRUE)
Next == Pick \/ Finish
Spec == Init /\ [][Next]_vars
=============================================================================
