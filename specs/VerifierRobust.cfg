SPECIFICATION Spec
CONSTANTS
  MaxLen = 4
  G16CountGuard = TRUE
  PlonkCVGuard = TRUE
  Emit = TRUE
INVARIANTS NoPanic InconsistentIsError ConsistentReachesCrypto
CHECK_DEADLOCK FALSE
