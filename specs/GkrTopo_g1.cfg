SPECIFICATION Spec
CONSTANTS
  P = 47
  MaxGates = 1
  Emit = TRUE
INVARIANT TypeOK
CHECK_DEADLOCK FALSE
