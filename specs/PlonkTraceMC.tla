---------------------------- MODULE PlonkTraceMC ----------------------------
(* Exhaustive instances: every system with up to 2 public inputs, up to MaxGates gates over up to MaxVars wires. *)
EXTENDS PlonkTrace
CONSTANTS MaxGates, MaxVars
SizeFor(n) == IF n <= 1 THEN 1 ELSE IF n <= 2 THEN 2 ELSE IF n <= 4 THEN 4 ELSE 8
MCSystems ==
  { [nbPub |-> np, gates |-> g, size |-> SizeFor(np + Len(g)), nbVars |-> nv, recS |-> <<>>] :
      np \in 0..2, nv \in 1..MaxVars,
      g \in UNION {[1..n -> [1..3 -> 0..(MaxVars - 1)]] : n \in 0..MaxGates} }
Valid(s) == s.nbPub <= s.nbVars /\ \A k \in 1..Len(s.gates) : \A c \in 1..3 : s.gates[k][c] < s.nbVars
MCValidSystems == {s \in MCSystems : Valid(s)}
=============================================================================
