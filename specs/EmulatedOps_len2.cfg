SPECIFICATION Spec
CONSTANTS
  Q = 13
  MaxLen = 2
  Emit = TRUE
INVARIANT InvOK
CHECK_DEADLOCK FALSE
