----------------------------- MODULE PlonkTrace -----------------------------
(***************************************************************************)
(* C02 (key side): "the verifying key produced by Setup commits to exactly  *)
(* those gates, that wiring permutation and those commitment selectors".    *)
(*                                                                         *)
(* Transcription of backend/plonk/<curve>/setup.go NewTrace +               *)
(* buildPermutation as a step machine over a small sparse system:           *)
(*   NbPub public inputs (placeholder rows, wire i in column L),            *)
(*   Gates: sequence of [xa, xb, xc] wire ids, Size: domain size (power of  *)
(*   two >= NbPub + Len(Gates)), NbVars wires.                              *)
(* Positions are 0..3*Size-1 (column*Size + row).  Declaratively, position  *)
(* p holds wire WireAt(p); the copy constraints of the system are exactly   *)
(* "positions holding the same wire carry the same value", which a          *)
(* permutation S encodes iff its cycles are the classes of WireAt.          *)
(* TLC checks that for ALL small systems; recorded artifacts of the real    *)
(* Setup (lro and S of real circuits) are validated against the same        *)
(* predicate (PermOK) by instantiating the constants from a recording.      *)
(***************************************************************************)
EXTENDS Integers, Sequences, FiniteSets, TLC

CONSTANT Systems   \* set of records [nbPub, gates, size, nbVars, recS]; recS = <<>> when only the transcription is checked,
                   \* else the permutation S recorded from the real Setup for that system

VARIABLES sys, phase, i, perm, cycle
vars == <<sys, phase, i, perm, cycle>>

NbPub == sys.nbPub
Gates == sys.gates
Size == sys.size
NbVars == sys.nbVars
RecordedS == sys.recS

N3 == 3 * Size
Pos == 0..(N3 - 1)
Offset == NbPub

\* declarative position -> wire map (what the prover's L,R,O vectors hold)
WireAt(p) ==
  LET col == p \div Size  row == p % Size IN
  IF row < NbPub THEN (IF col = 0 THEN row ELSE 0)
  ELSE IF row - Offset < Len(Gates)
       THEN (IF col = 0 THEN Gates[row - Offset + 1][1] ELSE IF col = 1 THEN Gates[row - Offset + 1][2] ELSE Gates[row - Offset + 1][3])
       ELSE 0

\* S (a function Pos -> Pos given as a sequence indexed from 1) encodes exactly the copy constraints
IsPerm(S) == /\ Len(S) = N3
             /\ \A p \in Pos : S[p + 1] \in Pos
             /\ \A p, q \in Pos : p # q => S[p + 1] # S[q + 1]

RECURSIVE Orbit(_, _, _, _)
Orbit(S, p, acc, fuel) == IF fuel = 0 \/ p \in acc THEN acc ELSE Orbit(S, S[p + 1], acc \cup {p}, fuel - 1)

PermOK(S) ==
  /\ IsPerm(S)
  /\ \A p \in Pos : Orbit(S, p, {}, N3 + 1) = {q \in Pos : WireAt(q) = WireAt(p)}

(* ---- transcription of buildPermutation -------------------------------- *)
Init == /\ sys \in Systems
        /\ phase = "first" /\ i = 0
        /\ perm = [p \in 0..(3 * sys.size - 1) |-> -1]
        /\ cycle = [v \in 0..(sys.nbVars - 1) |-> -1]

\* for i := 0; i < len(lro); i++ { if cycle[lro[i]] != -1 { permutation[i] = cycle[lro[i]] }; cycle[lro[i]] = i }
First ==
  /\ phase = "first"
  /\ IF i < N3
     THEN /\ perm' = IF cycle[WireAt(i)] # -1 THEN [perm EXCEPT ![i] = cycle[WireAt(i)]] ELSE perm
          /\ cycle' = [cycle EXCEPT ![WireAt(i)] = i]
          /\ i' = i + 1 /\ UNCHANGED <<phase, sys>>
     ELSE /\ phase' = "second" /\ i' = 0 /\ UNCHANGED <<perm, cycle, sys>>

\* for i := 0; i < sizePermutation; i++ { if permutation[i] == -1 { permutation[i] = cycle[lro[i]] } }
Second ==
  /\ phase = "second"
  /\ IF i < N3
     THEN /\ perm' = IF perm[i] = -1 THEN [perm EXCEPT ![i] = cycle[WireAt(i)]] ELSE perm
          /\ i' = i + 1 /\ UNCHANGED <<phase, cycle, sys>>
     ELSE /\ phase' = "done" /\ UNCHANGED <<i, perm, cycle, sys>>

Next == First \/ Second
Spec == Init /\ [][Next]_vars

PermSeq == [k \in 1..N3 |-> perm[k - 1]]
TranscriptionOK == phase = "done" => PermOK(PermSeq)
\* artifact validation: the S recorded from the real Setup satisfies the declarative predicate
RecordedOK == RecordedS # <<>> => PermOK(RecordedS)
=============================================================================
