SPECIFICATION Spec
CONSTANTS
  Emit = TRUE
INVARIANTS LayoutOK MutOK
CHECK_DEADLOCK FALSE
