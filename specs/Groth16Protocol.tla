--------------------------- MODULE Groth16Protocol ---------------------------
(***************************************************************************)
(* Ideal-cryptography decision model of gnark's Groth16 verifier (C01).     *)
(*                                                                         *)
(* Group elements are abstracted to provenance tags.  A behaviour is        *)
(*   shape  x  sequence of edits applied to a genuine (proof, vk, public)   *)
(* triple.  Two verdict functions are defined over the resulting abstract   *)
(* triple:                                                                 *)
(*   SpecVerdict - what property C01 demands;                               *)
(*   CodeVerdict - the ordered step list of backend/groth16/<curve>/        *)
(*                 verify.go under the ideal rule "a pairing / PoK equation *)
(*                 holds iff everything flowing into it is genuine and in   *)
(*                 its place".                                              *)
(* TLC checks CodeVerdict against SpecVerdict on every behaviour and emits  *)
(* every behaviour (with both verdicts) for replay on the real verifier.    *)
(***************************************************************************)
EXTENDS Naturals, Sequences, FiniteSets, TLC, Json

CONSTANTS MaxEdits,      \* bound on the number of edits per behaviour
          ShapeNames,    \* subset of DOMAIN ShapeDef explored
          Emit           \* TRUE: print behaviours for replay

(* nbPub: public inputs (without the ONE wire); bound[i]: input i is used by  *)
(* a constraint or committed (Groth16 binds only those: an unused public     *)
(* input has K_i = infinity); nbCommit: commitments prescribed by the key.   *)
(* cpub[j]: set of public inputs committed by commitment j (they enter the   *)
(* hash that derives the commitment's public value).                         *)
ShapeDef ==
  [
    p1x0 |-> [nbPub |-> 1, bound |-> <<TRUE>>, nbCommit |-> 0, cpub |-> <<>>],
    p1x1 |-> [nbPub |-> 1, bound |-> <<TRUE>>, nbCommit |-> 0, cpub |-> <<>>],
    p1x2 |-> [nbPub |-> 1, bound |-> <<TRUE>>, nbCommit |-> 0, cpub |-> <<>>],
    p1x3 |-> [nbPub |-> 1, bound |-> <<TRUE>>, nbCommit |-> 0, cpub |-> <<>>],
    p1x4 |-> [nbPub |-> 1, bound |-> <<TRUE>>, nbCommit |-> 0, cpub |-> <<>>],
    p1x5 |-> [nbPub |-> 1, bound |-> <<TRUE>>, nbCommit |-> 0, cpub |-> <<>>],
    p1x6 |-> [nbPub |-> 1, bound |-> <<TRUE>>, nbCommit |-> 0, cpub |-> <<>>],
    p1x7 |-> [nbPub |-> 1, bound |-> <<TRUE>>, nbCommit |-> 0, cpub |-> <<>>],
    p1   |-> [nbPub |-> 1, bound |-> <<TRUE>>,        nbCommit |-> 0, cpub |-> <<>>],
    p2u  |-> [nbPub |-> 2, bound |-> <<TRUE, FALSE>>, nbCommit |-> 0, cpub |-> <<>>],
    c1s  |-> [nbPub |-> 1, bound |-> <<TRUE>>,        nbCommit |-> 1, cpub |-> <<{}>>],
    c1p  |-> [nbPub |-> 2, bound |-> <<TRUE, TRUE>>,  nbCommit |-> 1, cpub |-> <<{2}>>],
    c1po |-> [nbPub |-> 2, bound |-> <<TRUE, TRUE>>,  nbCommit |-> 1, cpub |-> <<{2}>>],
    c2   |-> [nbPub |-> 2, bound |-> <<TRUE, TRUE>>,  nbCommit |-> 2, cpub |-> <<{}, {2}>>],
    c2i  |-> [nbPub |-> 1, bound |-> <<TRUE>>,        nbCommit |-> 2, cpub |-> <<{}, {}>>],
    c3   |-> [nbPub |-> 2, bound |-> <<TRUE, TRUE>>,  nbCommit |-> 3, cpub |-> <<{2}, {}, {1}>>],
    c3r  |-> [nbPub |-> 2, bound |-> <<TRUE, TRUE>>,  nbCommit |-> 3, cpub |-> <<{}, {}, {2}>>] ]

\* "torsion": the genuine element plus a point of the cofactor torsion - outside the prime-order subgroup but
\* invisible to the pairing equations, so only the subgroup checks can reject it
G1Classes == {"other", "inf", "neg", "rand", "vkel", "offsub", "torsion"}
Off(t) == t \in {"offsub", "torsion"}
G2Classes == {"other", "inf", "neg", "rand", "vkel", "offsub"}

VARIABLES shape,   \* name of the shape
          edits,   \* history: sequence of edit records (this is what is replayed)
          ar, krs, pok, bs,   \* provenance tags of the fixed proof components
          cms,     \* sequence of commitment tags: [src, idx]; src="own" means the genuine idx-th commitment
          pub,     \* sequence over {"orig","alt"} - the public witness given to Verify
          assign,  \* "ok" or a class of non-satisfying assignment the prover was run on
          vk,      \* "own" | "resetup" | "alt"
          htf,     \* "match" | "mismatch" (hash-to-field option of verifier vs prover)
          rt,      \* "" | "bin" | "raw": proof goes through WriteTo/ReadFrom before Verify
          done

vars == <<shape, edits, ar, krs, pok, bs, cms, pub, assign, vk, htf, rt, done>>

S == ShapeDef[shape]

Own(n) == [i \in 1..n |-> [src |-> "own", idx |-> i]]

Init ==
  /\ shape \in ShapeNames
  /\ edits = <<>>
  /\ ar = "gen" /\ krs = "gen" /\ pok = "gen" /\ bs = "gen"
  /\ cms = Own(ShapeDef[shape].nbCommit)
  /\ pub = [i \in 1..ShapeDef[shape].nbPub |-> "orig"]
  /\ assign = "ok" /\ vk = "own" /\ htf = "match" /\ rt = ""
  /\ done = FALSE

Log(e) == edits' = Append(edits, e)

CanEdit == ~done /\ Len(edits) < MaxEdits

(* ---- the edit alphabet ------------------------------------------------ *)

\* the prover is run on an assignment violating a row (must come first: it makes a new proof)
BadAssign(c) ==
  /\ CanEdit /\ edits = <<>>
  /\ assign' = c
  /\ Log([op |-> "BadAssign", cls |-> c])
  /\ UNCHANGED <<shape, ar, krs, pok, bs, cms, pub, vk, htf, rt, done>>

ReplaceG1(comp, c) ==
  /\ CanEdit
  /\ \/ comp = "Ar"  /\ ar = "gen"  /\ ar' = c  /\ UNCHANGED <<krs, pok>>
     \/ comp = "Krs" /\ krs = "gen" /\ krs' = c /\ UNCHANGED <<ar, pok>>
     \/ comp = "Pok" /\ pok = "gen" /\ pok' = c /\ UNCHANGED <<ar, krs>>
  /\ Log([op |-> "ReplaceG1", comp |-> comp, cls |-> c])
  /\ UNCHANGED <<shape, bs, cms, pub, assign, vk, htf, rt, done>>

ReplaceG2(c) ==
  /\ CanEdit /\ bs = "gen"
  /\ bs' = c
  /\ Log([op |-> "ReplaceG2", comp |-> "Bs", cls |-> c])
  /\ UNCHANGED <<shape, ar, krs, pok, cms, pub, assign, vk, htf, rt, done>>

CommitReplace(i, c) ==
  /\ CanEdit /\ i \in 1..Len(cms) /\ cms[i].src = "own" /\ cms[i].idx = i
  /\ cms' = [cms EXCEPT ![i] = [src |-> c, idx |-> i]]
  /\ Log([op |-> "CommitReplace", i |-> i, cls |-> c])
  /\ UNCHANGED <<shape, ar, krs, pok, bs, pub, assign, vk, htf, rt, done>>

CommitDrop(i) ==
  /\ CanEdit /\ i \in 1..Len(cms)
  /\ cms' = [k \in 1..(Len(cms) - 1) |-> IF k < i THEN cms[k] ELSE cms[k + 1]]
  /\ Log([op |-> "CommitDrop", i |-> i])
  /\ UNCHANGED <<shape, ar, krs, pok, bs, pub, assign, vk, htf, rt, done>>

CommitAppend(c) ==
  /\ CanEdit /\ Len(cms) <= S.nbCommit
  /\ cms' = Append(cms, [src |-> c, idx |-> 0])
  /\ Log([op |-> "CommitAppend", cls |-> c])
  /\ UNCHANGED <<shape, ar, krs, pok, bs, pub, assign, vk, htf, rt, done>>

CommitSwap(i, j) ==
  /\ CanEdit /\ i < j /\ j <= Len(cms)
  /\ cms' = [cms EXCEPT ![i] = cms[j], ![j] = cms[i]]
  /\ Log([op |-> "CommitSwap", i |-> i, j |-> j])
  /\ UNCHANGED <<shape, ar, krs, pok, bs, pub, assign, vk, htf, rt, done>>

AlterPub(i, c) ==
  /\ CanEdit /\ i \in 1..Len(pub) /\ i <= S.nbPub /\ pub[i] = "orig"
  /\ pub' = [pub EXCEPT ![i] = "alt"]
  /\ Log([op |-> "AlterPub", i |-> i, cls |-> c])
  /\ UNCHANGED <<shape, ar, krs, pok, bs, cms, assign, vk, htf, rt, done>>

ExtendPub(c) ==
  /\ CanEdit /\ Len(pub) = S.nbPub
  /\ pub' = Append(pub, "extra")
  /\ Log([op |-> "ExtendPub", cls |-> c])
  /\ UNCHANGED <<shape, ar, krs, pok, bs, cms, assign, vk, htf, rt, done>>

TruncPub ==
  /\ CanEdit /\ Len(pub) = S.nbPub /\ Len(pub) > 0
  /\ pub' = SubSeq(pub, 1, Len(pub) - 1)
  /\ Log([op |-> "TruncPub"])
  /\ UNCHANGED <<shape, ar, krs, pok, bs, cms, assign, vk, htf, rt, done>>

OtherVK(c) ==
  /\ CanEdit /\ vk = "own"
  /\ vk' = c
  /\ Log([op |-> "OtherVK", cls |-> c])
  /\ UNCHANGED <<shape, ar, krs, pok, bs, cms, pub, assign, htf, rt, done>>

HtfMismatch ==
  /\ CanEdit /\ htf = "match"
  /\ htf' = "mismatch"
  /\ Log([op |-> "HtfMismatch"])
  /\ UNCHANGED <<shape, ar, krs, pok, bs, cms, pub, assign, vk, rt, done>>

\* neutral action: serialise and decode the (possibly edited) proof before verifying
RoundTrip(c) ==
  /\ CanEdit /\ rt = ""
  /\ rt' = c
  /\ Log([op |-> "RoundTrip", cls |-> c])
  /\ UNCHANGED <<shape, ar, krs, pok, bs, cms, pub, assign, vk, htf, done>>

(* ---- verdicts --------------------------------------------------------- *)

OwnInPlace == Len(cms) = S.nbCommit /\ \A i \in 1..Len(cms) : cms[i] = [src |-> "own", idx |-> i]

AnyOffsub == Off(ar) \/ Off(krs) \/ Off(bs)
CmOffsub == \E i \in 1..Len(cms) : Off(cms[i].src)

\* public inputs whose value matters to the relation
PubEffective == \A i \in 1..Len(pub) : i <= S.nbPub /\ pub[i] = "alt" => ~S.bound[i]

\* e(Ar,Bs): joint negation leaves the product unchanged (inherent Groth16 malleability -
\* the negated pair is still a proof producible from the same satisfying assignment)
ABok == (ar = "gen" /\ bs = "gen") \/ (ar = "neg" /\ bs = "neg")

(* What the property demands.  Three-valued: a triple with an effective edit must be   *)
(* rejected; a triple that only went through neutral actions must be accepted; for   *)
(* the rest (don't-care component replaced, unbound public input altered, jointly    *)
(* negated Ar/Bs) the property is silent and either outcome is allowed.               *)
Genuine ==
  /\ assign = "ok"
  /\ vk = "own"
  /\ Len(pub) = S.nbPub /\ PubEffective
  /\ ABok /\ krs = "gen"
  /\ OwnInPlace
  /\ (S.nbCommit > 0 => pok = "gen" /\ htf = "match")
  \* with no commitment in the key the PoK element is unused by the scheme: a don't-care component

(* The code's step list.  Returns the stage at which verification stops, or "accept". *)
\* the derived public value of commitment j is genuine iff the commitment, the committed
\* public inputs and the hash function are
HashOk(j) == /\ cms[j] = [src |-> "own", idx |-> j]
             /\ htf = "match"
             /\ \A i \in S.cpub[j] : i <= Len(pub) /\ pub[i] = "orig"

\* sum of the commitments folded into the public-input sum equals the genuine sum
\* (a permutation of the genuine commitments has the same sum; an appended infinity adds nothing)
SumOk == LET real == SelectSeq(cms, LAMBDA c : c.src # "inf")
         IN /\ Len(real) = S.nbCommit
            /\ \A i \in 1..S.nbCommit : \E k \in 1..Len(real) : real[k] = [src |-> "own", idx |-> i]
            /\ \A k \in 1..Len(real) : real[k].src = "own"

\* The batched Pedersen proof of knowledge is checked against the key's commitment keys with a
\* folding challenge derived from the commitment hashes (irrelevant for a single commitment).
\* Trivial instance: commitments and PoK all at infinity satisfy the PoK equation (and then fail later).
PokOk == /\ vk = "own"
         /\ \/ OwnInPlace /\ pok = "gen" /\ (S.nbCommit = 1 \/ htf = "match")
            \/ pok = "inf" /\ \A i \in 1..Len(cms) : cms[i].src = "inf"

DecodeStage ==
  IF rt # "" /\ (AnyOffsub \/ CmOffsub \/ Off(pok)) THEN "decode" ELSE "pass"

CodeStage ==
  IF DecodeStage = "decode" THEN "decode"
  ELSE IF Len(pub) # S.nbPub THEN "witness-size"
  ELSE IF Len(cms) # S.nbCommit THEN "nb-commitments"
  ELSE IF AnyOffsub THEN "subgroup"
  ELSE IF S.nbCommit > 0 /\ ~PokOk THEN "pok"
  ELSE IF ~( /\ assign = "ok" /\ vk = "own" /\ ABok /\ krs = "gen"
             /\ PubEffective /\ SumOk
             /\ \A j \in 1..S.nbCommit : HashOk(j) ) THEN "pairing"
  ELSE "accept"

CodeAccept == CodeStage = "accept"

Neutral == \A k \in 1..Len(edits) : edits[k].op = "RoundTrip"
SpecVerdict == IF ~Genuine THEN "reject" ELSE IF Neutral THEN "accept" ELSE "either"

Behaviour == [shape |-> shape, edits |-> edits,
              spec |-> SpecVerdict,
              code |-> IF CodeAccept THEN "accept" ELSE "reject",
              stage |-> CodeStage]

Finish ==
  /\ ~done
  /\ done' = TRUE
  /\ IF Emit THEN PrintT("BEH" \o ToJson(Behaviour)) ELSE TRUE
  /\ UNCHANGED <<shape, edits, ar, krs, pok, bs, cms, pub, assign, vk, htf, rt>>

Next ==
  \/ \E c \in {"w", "wfirst", "c", "a"} : BadAssign(c)
  \/ \E comp \in {"Ar", "Krs", "Pok"}, c \in G1Classes : ReplaceG1(comp, c)
  \/ \E c \in G2Classes : ReplaceG2(c)
  \/ \E i \in 1..3, c \in (G1Classes \ {"neg"}) : CommitReplace(i, c)
  \/ \E i \in 1..4 : CommitDrop(i)
  \/ \E c \in {"inf", "dup", "rand"} : CommitAppend(c)
  \/ \E i, j \in 1..3 : CommitSwap(i, j)
  \/ \E i \in 1..2, c \in {"inc", "other"} : AlterPub(i, c)
  \/ \E c \in {"zero", "five"} : ExtendPub(c)
  \/ TruncPub
  \/ \E c \in {"resetup", "alt"} : OtherVK(c)
  \/ HtfMismatch
  \/ \E c \in {"bin", "raw"} : RoundTrip(c)
  \/ Finish

Spec == Init /\ [][Next]_vars

(* ---- properties checked by TLC on the design --------------------------- *)

\* the verifier's step list decides exactly the property (soundness and completeness of the checks)
CodeMeetsSpec == /\ SpecVerdict = "reject" => ~CodeAccept
                 /\ SpecVerdict = "accept" => CodeAccept

\* a proof whose commitment list differs in number or content from what the key prescribes is rejected
CommitListExact == CodeAccept => OwnInPlace

\* a genuine unedited triple is accepted
Completeness == (edits = <<>>) => CodeAccept

TypeOK == /\ shape \in DOMAIN ShapeDef
          /\ Len(edits) <= MaxEdits
          /\ done \in BOOLEAN
=============================================================================
