SPECIFICATION Spec
CONSTANTS
  MaxWires = 6
  Layouts <- MCLayouts
INVARIANT PartitionOK
CHECK_DEADLOCK FALSE
