SPECIFICATION Spec
CONSTANTS
  Sites = {"s1"}
  SiteClass = [s \in {"s1"} |-> "sorted"]
  Keys = {1, 2}
INVARIANT Deterministic
CHECK_DEADLOCK FALSE
