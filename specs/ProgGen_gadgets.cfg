SPECIFICATION Spec
CONSTANTS
  P = 47
  MaxLen = 1
  ConstVals = {0, 1, 2, 46}
  ProbeSeq <- MCProbeSeq
  OpSet = {"GIsLess", "GIsLessEq", "GMux2", "GMux3", "GMux4", "GMux5", "GMap3", "GDecoder3", "GPartition"}
  Derived = 0
  Emit = TRUE
INVARIANT WellFormed
CHECK_DEADLOCK FALSE
