--------------------------- MODULE Groth16SetupMC ---------------------------
(* all layouts with <= MaxWires wires, <= 2 commitments *)
EXTENDS Groth16Setup
CONSTANT MaxWires
Ascending(s) == \A k \in 1..(Len(s) - 1) : s[k] < s[k + 1]
PrivSeqs(n) == {s \in UNION {[1..m -> 1..(n - 1)] : m \in 0..2} : Ascending(s)}
MCLayouts ==
  { [nbPub |-> np, nbWires |-> n, commits |-> c] :
      n \in 2..MaxWires, np \in 1..2,
      c \in {<<>>} \cup {<<[wire |-> w, priv |-> p]>> : w \in 1..(MaxWires - 1), p \in PrivSeqs(MaxWires)}
           \cup {<<[wire |-> w1, priv |-> p1], [wire |-> w2, priv |-> p2]>> :
                    w1 \in 1..(MaxWires - 1), w2 \in 1..(MaxWires - 1), p1 \in PrivSeqs(MaxWires), p2 \in PrivSeqs(MaxWires)} }
=============================================================================
