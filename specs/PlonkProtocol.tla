---------------------------- MODULE PlonkProtocol ----------------------------
(***************************************************************************)
(* Ideal-cryptography decision model of gnark's PLONK verifier (C02).       *)
(* Same construction as Groth16Protocol: provenance tags, edit alphabet,   *)
(* SpecVerdict (the property) vs CodeStage (ordered steps of               *)
(* backend/plonk/<curve>/verify.go).  Fiat-Shamir rule: a challenge is      *)
(* genuine iff everything bound into the transcript before it is; an        *)
(* opening check holds iff digest, claimed value, point and proof are.      *)
(***************************************************************************)
EXTENDS Naturals, Sequences, FiniteSets, TLC, Json

CONSTANTS MaxEdits, ShapeNames, Emit

ShapeDef ==
  [
    p1x0 |-> [nbPub |-> 1, nbCommit |-> 0],
    p1x1 |-> [nbPub |-> 1, nbCommit |-> 0],
    p1x2 |-> [nbPub |-> 1, nbCommit |-> 0],
    p1x3 |-> [nbPub |-> 1, nbCommit |-> 0],
    p1x4 |-> [nbPub |-> 1, nbCommit |-> 0],
    p1x5 |-> [nbPub |-> 1, nbCommit |-> 0],
    p1x6 |-> [nbPub |-> 1, nbCommit |-> 0],
    p1x7 |-> [nbPub |-> 1, nbCommit |-> 0],
    p1   |-> [nbPub |-> 1, nbCommit |-> 0],
    p2u  |-> [nbPub |-> 2, nbCommit |-> 0],
    c1s  |-> [nbPub |-> 1, nbCommit |-> 1],
    c1p  |-> [nbPub |-> 2, nbCommit |-> 1],
    c1po |-> [nbPub |-> 2, nbCommit |-> 1],
    c2   |-> [nbPub |-> 2, nbCommit |-> 2],
    c2i  |-> [nbPub |-> 1, nbCommit |-> 2],
    c3   |-> [nbPub |-> 2, nbCommit |-> 3],
    c3r  |-> [nbPub |-> 2, nbCommit |-> 3] ]

\* fixed G1 components of a proof
G1Comps == {"L", "R", "O", "Z", "H0", "H1", "H2", "BatchH", "ZShiftH"}
\* components bound into the Fiat-Shamir transcript (altering one changes every later challenge)
Transcripted == {"L", "R", "O", "Z", "H0", "H1", "H2"}
\* "torsion": genuine element plus a cofactor-torsion point (see Groth16Protocol)
G1Classes == {"other", "inf", "neg", "rand", "vkel", "offsub", "torsion"}
Off(t) == t \in {"offsub", "torsion"}
ScalarClasses == {"inc", "zero", "other"}

VARIABLES shape, edits,
          g1,      \* function G1Comps -> tag
          bsb,     \* sequence of [src, idx] tags (BSB22 commitments)
          cv,      \* sequence of tags for BatchedProof.ClaimedValues ("gen" or a class)
          zu,      \* tag of ZShiftedOpening.ClaimedValue
          pub, assign, vk,
          optCh, optFold, optHtf,   \* "match" | "mismatch"
          rt, done

vars == <<shape, edits, g1, bsb, cv, zu, pub, assign, vk, optCh, optFold, optHtf, rt, done>>

S == ShapeDef[shape]

Init ==
  /\ shape \in ShapeNames
  /\ edits = <<>>
  /\ g1 = [c \in G1Comps |-> "gen"]
  /\ bsb = [i \in 1..ShapeDef[shape].nbCommit |-> [src |-> "own", idx |-> i]]
  /\ cv = [i \in 1..(6 + ShapeDef[shape].nbCommit) |-> "gen"]
  /\ zu = "gen"
  /\ pub = [i \in 1..ShapeDef[shape].nbPub |-> "orig"]
  /\ assign = "ok" /\ vk = "own"
  /\ optCh = "match" /\ optFold = "match" /\ optHtf = "match"
  /\ rt = "" /\ done = FALSE

Log(e) == edits' = Append(edits, e)
CanEdit == ~done /\ Len(edits) < MaxEdits

BadAssign(c) ==
  /\ CanEdit /\ edits = <<>>
  /\ assign' = c
  /\ Log([op |-> "BadAssign", cls |-> c])
  /\ UNCHANGED <<shape, g1, bsb, cv, zu, pub, vk, optCh, optFold, optHtf, rt, done>>

ReplaceG1(comp, c) ==
  /\ CanEdit /\ g1[comp] = "gen"
  /\ g1' = [g1 EXCEPT ![comp] = c]
  /\ Log([op |-> "ReplaceG1", comp |-> comp, cls |-> c])
  /\ UNCHANGED <<shape, bsb, cv, zu, pub, assign, vk, optCh, optFold, optHtf, rt, done>>

BsbReplace(i, c) ==
  /\ CanEdit /\ i \in 1..Len(bsb) /\ bsb[i] = [src |-> "own", idx |-> i]
  /\ bsb' = [bsb EXCEPT ![i] = [src |-> c, idx |-> i]]
  /\ Log([op |-> "BsbReplace", i |-> i, cls |-> c])
  /\ UNCHANGED <<shape, g1, cv, zu, pub, assign, vk, optCh, optFold, optHtf, rt, done>>

BsbDrop(i) ==
  /\ CanEdit /\ i \in 1..Len(bsb)
  /\ bsb' = [k \in 1..(Len(bsb) - 1) |-> IF k < i THEN bsb[k] ELSE bsb[k + 1]]
  /\ Log([op |-> "BsbDrop", i |-> i])
  /\ UNCHANGED <<shape, g1, cv, zu, pub, assign, vk, optCh, optFold, optHtf, rt, done>>

BsbAppend(c) ==
  /\ CanEdit /\ Len(bsb) <= S.nbCommit
  /\ bsb' = Append(bsb, [src |-> c, idx |-> 0])
  /\ Log([op |-> "BsbAppend", cls |-> c])
  /\ UNCHANGED <<shape, g1, cv, zu, pub, assign, vk, optCh, optFold, optHtf, rt, done>>

BsbSwap(i, j) ==
  /\ CanEdit /\ i < j /\ j <= Len(bsb)
  /\ bsb' = [bsb EXCEPT ![i] = bsb[j], ![j] = bsb[i]]
  /\ Log([op |-> "BsbSwap", i |-> i, j |-> j])
  /\ UNCHANGED <<shape, g1, cv, zu, pub, assign, vk, optCh, optFold, optHtf, rt, done>>

AlterCV(k, c) ==
  /\ CanEdit /\ k \in 1..Len(cv) /\ cv[k] = "gen"
  /\ cv' = [cv EXCEPT ![k] = c]
  /\ Log([op |-> "AlterCV", i |-> k, cls |-> c])
  /\ UNCHANGED <<shape, g1, bsb, zu, pub, assign, vk, optCh, optFold, optHtf, rt, done>>

TruncCV(n) ==   \* keep only the first n claimed values
  /\ CanEdit /\ n < Len(cv)
  /\ cv' = SubSeq(cv, 1, n)
  /\ Log([op |-> "TruncCV", i |-> n])
  /\ UNCHANGED <<shape, g1, bsb, zu, pub, assign, vk, optCh, optFold, optHtf, rt, done>>

ExtendCV(c) ==
  /\ CanEdit /\ Len(cv) <= 6 + S.nbCommit
  /\ cv' = Append(cv, c)
  /\ Log([op |-> "ExtendCV", cls |-> c])
  /\ UNCHANGED <<shape, g1, bsb, zu, pub, assign, vk, optCh, optFold, optHtf, rt, done>>

AlterZu(c) ==
  /\ CanEdit /\ zu = "gen"
  /\ zu' = c
  /\ Log([op |-> "AlterZu", cls |-> c])
  /\ UNCHANGED <<shape, g1, bsb, cv, pub, assign, vk, optCh, optFold, optHtf, rt, done>>

AlterPub(i, c) ==
  /\ CanEdit /\ i \in 1..Len(pub) /\ i <= S.nbPub /\ pub[i] = "orig"
  /\ pub' = [pub EXCEPT ![i] = "alt"]
  /\ Log([op |-> "AlterPub", i |-> i, cls |-> c])
  /\ UNCHANGED <<shape, g1, bsb, cv, zu, assign, vk, optCh, optFold, optHtf, rt, done>>

ExtendPub(c) ==
  /\ CanEdit /\ Len(pub) = S.nbPub
  /\ pub' = Append(pub, "extra")
  /\ Log([op |-> "ExtendPub", cls |-> c])
  /\ UNCHANGED <<shape, g1, bsb, cv, zu, assign, vk, optCh, optFold, optHtf, rt, done>>

TruncPub ==
  /\ CanEdit /\ Len(pub) = S.nbPub /\ Len(pub) > 0
  /\ pub' = SubSeq(pub, 1, Len(pub) - 1)
  /\ Log([op |-> "TruncPub"])
  /\ UNCHANGED <<shape, g1, bsb, cv, zu, assign, vk, optCh, optFold, optHtf, rt, done>>

OtherVK(c) ==
  /\ CanEdit /\ vk = "own"
  /\ vk' = c
  /\ Log([op |-> "OtherVK", cls |-> c])
  /\ UNCHANGED <<shape, g1, bsb, cv, zu, pub, assign, optCh, optFold, optHtf, rt, done>>

OptMismatch(which) ==
  /\ CanEdit
  /\ \/ which = "challenge" /\ optCh = "match"  /\ optCh' = "mismatch"  /\ UNCHANGED <<optFold, optHtf>>
     \/ which = "folding"   /\ optFold = "match" /\ optFold' = "mismatch" /\ UNCHANGED <<optCh, optHtf>>
     \/ which = "htf"       /\ optHtf = "match" /\ optHtf' = "mismatch" /\ UNCHANGED <<optCh, optFold>>
  /\ Log([op |-> "OptMismatch", cls |-> which])
  /\ UNCHANGED <<shape, g1, bsb, cv, zu, pub, assign, vk, rt, done>>

RoundTrip(c) ==
  /\ CanEdit /\ rt = ""
  /\ rt' = c
  /\ Log([op |-> "RoundTrip", cls |-> c])
  /\ UNCHANGED <<shape, g1, bsb, cv, zu, pub, assign, vk, optCh, optFold, optHtf, done>>

(* ---- verdicts --------------------------------------------------------- *)

BsbInPlace == Len(bsb) = S.nbCommit /\ \A i \in 1..Len(bsb) : bsb[i] = [src |-> "own", idx |-> i]
CvGenuine == Len(cv) = 6 + S.nbCommit /\ \A k \in 1..Len(cv) : cv[k] = "gen"
AnyOffsub == (\E c \in G1Comps : Off(g1[c])) \/ (\E i \in 1..Len(bsb) : Off(bsb[i].src))

\* PLONK binds every public input through its placeholder row, used or not.
PubGenuine == Len(pub) = S.nbPub /\ \A i \in 1..Len(pub) : pub[i] = "orig"

Genuine ==
  /\ assign = "ok" /\ vk = "own" /\ PubGenuine
  /\ \A c \in G1Comps : g1[c] = "gen"
  /\ BsbInPlace /\ CvGenuine /\ zu = "gen"
  /\ optCh = "match" /\ optFold = "match"
  /\ (S.nbCommit > 0 => optHtf = "match")

Neutral == \A k \in 1..Len(edits) : edits[k].op = "RoundTrip"
SpecVerdict == IF ~Genuine THEN "reject" ELSE IF Neutral THEN "accept" ELSE "either"

\* everything that determines the challenges gamma, beta, alpha, zeta
ChallengesGenuine ==
  /\ vk = "own" /\ PubGenuine /\ optCh = "match"
  /\ \A c \in Transcripted : g1[c] = "gen"
  /\ BsbInPlace

CodeStage ==
  IF rt # "" /\ AnyOffsub THEN "decode"
  ELSE IF Len(bsb) # S.nbCommit THEN "nb-bsb22"
  ELSE IF Len(pub) # S.nbPub THEN "witness-size"
  ELSE IF Len(cv) # 6 + S.nbCommit THEN "claimed-values"
  ELSE IF AnyOffsub THEN "subgroup"
  ELSE IF ~( /\ ChallengesGenuine /\ assign = "ok"
             /\ (S.nbCommit > 0 => optHtf = "match")
             /\ \A k \in 1..6 : cv[k] = "gen"
             /\ zu = "gen" ) THEN "algebraic"
  ELSE IF ~( /\ CvGenuine /\ g1["BatchH"] = "gen" /\ g1["ZShiftH"] = "gen" /\ optFold = "match" ) THEN "kzg"
  ELSE "accept"

CodeAccept == CodeStage = "accept"

Behaviour == [shape |-> shape, edits |-> edits, spec |-> SpecVerdict,
              code |-> IF CodeAccept THEN "accept" ELSE "reject", stage |-> CodeStage]

Finish ==
  /\ ~done
  /\ done' = TRUE
  /\ IF Emit THEN PrintT("BEH" \o ToJson(Behaviour)) ELSE TRUE
  /\ UNCHANGED <<shape, edits, g1, bsb, cv, zu, pub, assign, vk, optCh, optFold, optHtf, rt>>

Next ==
  \/ \E c \in {"gate", "copy", "lastrow"} : BadAssign(c)
  \/ \E comp \in G1Comps, c \in G1Classes : ReplaceG1(comp, c)
  \/ \E i \in 1..3, c \in (G1Classes \ {"neg"}) : BsbReplace(i, c)
  \/ \E i \in 1..4 : BsbDrop(i)
  \/ \E c \in {"inf", "dup", "rand"} : BsbAppend(c)
  \/ \E i, j \in 1..3 : BsbSwap(i, j)
  \/ \E k \in 1..9, c \in ScalarClasses : AlterCV(k, c)
  \/ \E n \in 0..8 : TruncCV(n)
  \/ \E c \in {"zero", "five"} : ExtendCV(c)
  \/ \E c \in ScalarClasses : AlterZu(c)
  \/ \E i \in 1..2, c \in {"inc", "other"} : AlterPub(i, c)
  \/ \E c \in {"zero", "five"} : ExtendPub(c)
  \/ TruncPub
  \/ \E c \in {"resrs", "alt"} : OtherVK(c)
  \/ \E w \in {"challenge", "folding", "htf"} : OptMismatch(w)
  \/ \E c \in {"bin", "raw"} : RoundTrip(c)
  \/ Finish

Spec == Init /\ [][Next]_vars

CodeMeetsSpec == /\ SpecVerdict = "reject" => ~CodeAccept
                 /\ SpecVerdict = "accept" => CodeAccept
BsbListExact == CodeAccept => BsbInPlace
Completeness == (edits = <<>>) => CodeAccept
TypeOK == shape \in DOMAIN ShapeDef /\ Len(edits) <= MaxEdits /\ done \in BOOLEAN
=============================================================================
