CONSTANTS
  P = 47
