SPECIFICATION Spec
CONSTANTS
  N = 2
  NbEntries = 5
  TableCap = 5
  Emit = TRUE
  Fine = FALSE
  AppendMode = "copy"
  SpareCap = TRUE
INVARIANTS IsolationOptions
CHECK_DEADLOCK FALSE
