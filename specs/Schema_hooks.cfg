SPECIFICATION Spec
CONSTANTS
  Emit = TRUE
  HookMode = TRUE
INVARIANT Partition
CHECK_DEADLOCK FALSE
