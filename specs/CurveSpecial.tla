------------------------------- MODULE CurveSpecial -------------------------------
(***************************************************************************)
(* C16: points with a zero coordinate.  The emulated short-Weierstrass      *)
(* gadgets encode the point at infinity as (0,0).  On curves whose          *)
(* equation has a rational solution with x = 0 (P-256: Z = (0, sqrt b), a   *)
(* point of the prime-order group) a test "is this the point at infinity"   *)
(* must look at BOTH coordinates.  Z has no known discrete logarithm, so    *)
(* names are pairs <<g, z>> standing for [g]G + [z]Z; the group law on      *)
(* names is componentwise addition, the documented domains are those of     *)
(* CurveOps.tla.                                                            *)
(***************************************************************************)
EXTENDS Integers, Sequences, FiniteSets, TLC, Json

CONSTANTS Emit

Names == {<<1, 0>>, <<0, 1>>, <<0, 0 - 1>>, <<0, 0>>, <<1, 1>>}
Inf == <<0, 0>>
Plus(p, q) == <<p[1] + q[1], p[2] + q[2]>>
Minus(p) == <<0 - p[1], 0 - p[2]>>

Case(op, p, q, s, e, def) == [op |-> op, pg |-> p[1], pz |-> p[2], qg |-> q[1], qz |-> q[2], s |-> s, eg |-> e[1], ez |-> e[2], def |-> def]

Cases ==
  {Case("OnCurve", p, Inf, 1, p, TRUE) : p \in {<<0, 1>>, <<0, 0 - 1>>, <<1, 1>>}}
  \cup {Case("AddUnified", p, q, 1, Plus(p, q), TRUE) : p \in Names, q \in Names}
  \cup {Case("Add", p, q, 1, Plus(p, q), p # Inf /\ q # Inf /\ p # q /\ p # Minus(q)) : p \in Names, q \in Names}
  \cup {Case("ScalarMul", <<0, 1>>, Inf, 2, <<0, 2>>, TRUE)}

\* every case involves the zero-coordinate point or is a control
ASSUME \A c \in Cases : c.def => (c.op = "Add" => <<c.pg, c.pz>> # <<c.qg, c.qz>>)
ASSUME \E c \in Cases : c.op = "AddUnified" /\ c.pz = 1 /\ c.qg = 1        \* Z + G
ASSUME \E c \in Cases : c.op = "AddUnified" /\ c.pz = 1 /\ c.qz = 0 - 1   \* Z + (-Z) = infinity

VARIABLES cur, done
vars == <<cur, done>>
NoCase == [op |-> "none"]
Init == cur = NoCase /\ done = FALSE
Pick == cur = NoCase /\ UNCHANGED done /\ \E c \in Cases : cur' = c
Finish == /\ cur # NoCase /\ ~done /\ done' = TRUE /\ UNCHANGED cur
          /\ (IF Emit THEN PrintT("BEH" \o ToJson(cur)) ELSE TRUE)
Next == Pick \/ Finish
Spec == Init /\ [][Next]_vars
=============================================================================
