------------------------------ MODULE MpcSetup ------------------------------
(***************************************************************************)
(* C18: verification of a Groth16 multi-party setup transcript.             *)
(*                                                                         *)
(* A contribution is modelled by what makes it verifiable: the state it     *)
(* was computed from (its challenge is the hash of that state, its update   *)
(* proofs relate its parameters to that state's parameters) and whether     *)
(* any of its serialized group elements was altered afterwards.  Two honest *)
(* chains A and B exist per phase (different randomness, same start).  The  *)
(* verifier is handed a sequence of contributions; it must accept exactly   *)
(* when every contribution is unaltered and extends its predecessor (the    *)
(* first one extends the initial state).  Phase 2 additionally depends on   *)
(* the phase-1 output and on the circuit.                                   *)
(* TLC enumerates presented sequences: the honest chain, one element        *)
(* altered (component x position x replacement), contributions swapped,     *)
(* dropped, duplicated, spliced in from the other chain, and phase-2 chains *)
(* checked against another phase-1 output or circuit, and computes the      *)
(* verdict.  Each is replayed on the real mpcsetup package (through         *)
(* WriteTo / byte edit / ReadFrom); accepted phase-2 transcripts must yield *)
(* keys that prove and verify.                                              *)
(***************************************************************************)
EXTENDS Integers, Sequences, FiniteSets, TLC, Json

CONSTANTS MaxN, Emit

Phases == {1, 2}
Comp(ph) == IF ph = 1
            THEN {"proofTau.g1", "proofTau.g2", "proofAlpha.g1", "proofAlpha.g2", "proofBeta.g1", "proofBeta.g2",
                  "G2.Beta", "G1.Tau", "G2.Tau", "G1.BetaTau", "G1.AlphaTau", "challenge"}
            ELSE {"G1.Delta", "G1.PKK", "G1.Z", "G2.Delta", "G1.SigmaCKK", "G2.Sigma",
                  "proofDelta.g1", "proofDelta.g2", "proofSigma.g1", "proofSigma.g2", "challenge"}
IsVector(c) == c \in {"G1.Tau", "G2.Tau", "G1.BetaTau", "G1.AlphaTau", "G1.PKK", "G1.Z", "G1.SigmaCKK"}
NeedsCommitment(c) == c \in {"G1.SigmaCKK", "G2.Sigma", "proofSigma.g1", "proofSigma.g2"}
Positions(c) == IF IsVector(c) THEN {"first", "mid", "last"} ELSE {"only"}
Hows(c) == IF c = "challenge" THEN {"flip"} ELSE {"double", "neg", "inf"}

\* bound: the state whose hash is the contribution's challenge (an honest contributor binds to the state it extends)
C(chain, i) == [chain |-> chain, idx |-> i, altered |-> FALSE, rebound |-> FALSE]
Id(c) == <<c.chain, c.idx>>
\* what a contribution was computed from
Base(c) == IF c.idx = 1 THEN <<"init", 0>> ELSE <<c.chain, c.idx - 1>>

Honest(n) == [i \in 1..n |-> C("A", i)]

Edits(ph, n, circuit) ==
  {[kind |-> "none"]}
  \cup {[kind |-> "alter", i |-> i, comp |-> c, pos |-> p, how |-> h] :
          i \in 1..n, c \in {x \in Comp(ph) : NeedsCommitment(x) => circuit \in {"commit", "commit2"}}, p \in {"first", "mid", "last", "only"}, h \in {"double", "neg", "inf", "flip"}}
  \cup {[kind |-> "swap", i |-> i] : i \in 1..(n - 1)}
  \cup {[kind |-> "drop", i |-> i] : i \in 1..n}
  \cup {[kind |-> "dup", i |-> i] : i \in 1..n}
  \cup {[kind |-> "splice", i |-> i] : i \in 1..n}
  \* a contributor that rescales its predecessor correctly and proves knowledge, but under a challenge of its own choosing
  \* (not the hash of the predecessor): the transcript chain is broken although every ratio check passes
  \cup (IF ph = 2 THEN {[kind |-> "rebound", i |-> i] : i \in 1..n} ELSE {})
  \cup (IF ph = 2 THEN {[kind |-> "otherPhase1"], [kind |-> "otherCircuit"]} ELSE {})
WellFormedEdit(e) == e.kind = "alter" => e.pos \in Positions(e.comp) /\ e.how \in Hows(e.comp)

RECURSIVE Without(_, _, _)
Without(s, i, k) == IF k > Len(s) THEN <<>> ELSE (IF k = i THEN <<>> ELSE <<s[k]>>) \o Without(s, i, k + 1)

Present(n, e) ==
  LET h == Honest(n) IN
  CASE e.kind \in {"none", "otherPhase1", "otherCircuit"} -> h
    [] e.kind = "alter" -> [h EXCEPT ![e.i].altered = TRUE]
    [] e.kind = "rebound" -> SubSeq([h EXCEPT ![e.i].rebound = TRUE], 1, e.i)   \* followed by nothing: later honest contributors would extend it
    [] e.kind = "swap" -> [h EXCEPT ![e.i] = h[e.i + 1], ![e.i + 1] = h[e.i]]
    [] e.kind = "drop" -> Without(h, e.i, 1)
    [] e.kind = "dup" -> SubSeq(h, 1, e.i) \o SubSeq(h, e.i, n)
    [] e.kind = "splice" -> [h EXCEPT ![e.i] = C("B", e.i)]

ChainValid(s) == \A k \in 1..Len(s) :
                    /\ ~s[k].altered /\ ~s[k].rebound
                    /\ Base(s[k]) = (IF k = 1 THEN <<"init", 0>> ELSE Id(s[k - 1]))
Verdict(e, s) == IF e.kind \in {"otherPhase1", "otherCircuit"} THEN (IF Len(s) = 0 THEN "accept" ELSE "reject")
                 ELSE IF ChainValid(s) THEN "accept" ELSE "reject"

VARIABLES ph, n, circuit, edit, done
vars == <<ph, n, circuit, edit, done>>
Init == /\ ph \in Phases /\ n \in 1..MaxN /\ circuit \in {"plain", "commit", "commit2", "bigdomain"} /\ done = FALSE
        /\ (ph = 1 => circuit = "plain")
        /\ edit \in Edits(ph, n, circuit) /\ WellFormedEdit(edit)
Finish == /\ ~done /\ done' = TRUE /\ UNCHANGED <<ph, n, circuit, edit>>
          /\ (IF Emit THEN LET s == Present(n, edit) IN
                PrintT("BEH" \o ToJson([phase |-> ph, n |-> n, circuit |-> circuit, edit |-> edit,
                                        presented |-> [k \in 1..Len(s) |-> [chain |-> s[k].chain, idx |-> s[k].idx]],
                                        verdict |-> Verdict(edit, s)]))
              ELSE TRUE)
Next == Finish
Spec == Init /\ [][Next]_vars

(* sanity properties of the model itself *)
\* a proper prefix of the honest chain is a valid chain; nothing else shorter or reordered is
PrefixOnly == \A m \in 1..MaxN : \A e \in {x \in Edits(1, m, "plain") : WellFormedEdit(x)} :
                 LET s == Present(m, e) IN
                 ChainValid(s) <=> (\E k \in 0..m : s = SubSeq(Honest(m), 1, k)) \/ (m = 1 /\ e.kind = "splice")
\* the only accepted foreign contribution is a first contribution standing alone
SpliceRule == \A m \in 1..MaxN : \A i \in 1..m : ChainValid(Present(m, [kind |-> "splice", i |-> i])) <=> (m = 1)
ModelSane == PrefixOnly /\ SpliceRule
ASSUME ModelSane
=============================================================================
