SPECIFICATION SpecT
CONSTANTS
  Q = 13
  MaxLen = 3
  Emit = TRUE
INVARIANT InvOK
CHECK_DEADLOCK FALSE
