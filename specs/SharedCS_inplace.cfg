SPECIFICATION Spec
CONSTANTS
  N = 2
  NbEntries = 2
  TableCap = 2
  Emit = FALSE
  Fine = TRUE
  AppendMode = "inplace"
  SpareCap = TRUE
INVARIANTS IsolationOptions
CHECK_DEADLOCK FALSE
