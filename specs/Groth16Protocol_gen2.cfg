SPECIFICATION Spec
CONSTANTS
  MaxEdits = 2
  ShapeNames = {"p1", "p2u", "c1s", "c1p", "c1po", "c2", "c2i", "c3", "c3r"}
  Emit = TRUE
INVARIANTS TypeOK CodeMeetsSpec CommitListExact Completeness
CHECK_DEADLOCK FALSE
