---- MODULE LevelBuilderMC ----
EXTENDS LevelBuilder
NoRecorded == {}
====
