SPECIFICATION Spec
CONSTANTS
  MaxProofs = 3
  Emit = TRUE
INVARIANTS Fresh NonEmpty Distinct
CHECK_DEADLOCK FALSE
