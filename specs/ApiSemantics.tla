---------------------------- MODULE ApiSemantics ----------------------------
(***************************************************************************)
(* Reference semantics of gnark's frontend.API over the prime field F_P     *)
(* (C04, C05, C14): the DOCUMENTED meaning of every call, written once.     *)
(* An operation evaluates to a record                                       *)
(*     [ok  |-> the call's implicit / explicit assertions hold,             *)
(*      out |-> sequence of result values (empty for assertions),           *)
(*      any |-> TRUE iff the result is documented as unconstrained]         *)
(* Undefined cases are explicit: Div(_,0), Inverse(0) are unsatisfiable;    *)
(* DivUnchecked(0,0) may return anything; DivUnchecked(x#0,0) is            *)
(* unsatisfiable; bit operations, Select and Lookup2 constrain their        *)
(* selectors to be boolean; ToBinary(x,n) is unsatisfiable when the         *)
(* canonical representative of x needs more than n bits; comparisons are    *)
(* on canonical representatives.                                            *)
(***************************************************************************)
EXTENDS Integers, Sequences, FiniteSets

CONSTANT P          \* field modulus (47 = gnark's tinyfield)

F == 0..(P - 1)
Add2(a, b) == (a + b) % P
Sub2(a, b) == (a + P - b) % P
Neg1(a) == (P - a) % P
Mul2(a, b) == (a * b) % P
Inv1(a) == CHOOSE x \in F : Mul2(a, x) = 1     \* only used for a # 0
IsBool(a) == a \in {0, 1}

RECURSIVE Pow2(_)
Pow2(n) == IF n = 0 THEN 1 ELSE 2 * Pow2(n - 1)

RECURSIVE BitLen(_)
BitLen(x) == IF x = 0 THEN 0 ELSE 1 + BitLen(x \div 2)
FieldBits == BitLen(P - 1)

Bit(x, i) == (x \div Pow2(i)) % 2               \* i-th bit (lsb = 0) of the canonical representative

RECURSIVE SumBits(_, _)
SumBits(bs, k) == IF k > Len(bs) THEN 0 ELSE (bs[k] * (Pow2(k - 1) % P) + SumBits(bs, k + 1)) % P

Ok(v)   == [ok |-> TRUE, out |-> <<v>>, any |-> FALSE]
Fail    == [ok |-> FALSE, out |-> <<>>, any |-> FALSE]
Assert(b) == [ok |-> b, out |-> <<>>, any |-> FALSE]

\* coefficients are given as field elements (P-1 = -1, P-2 = -2)
PlonkExprCoeffs == << <<1, 2, 3, 4>>, <<0, 1, P - 1, 0>>, <<2, 0, 1, 5>> >>
PlonkGateCoeffs == << <<1, 1, P - 1, 0, 0>>, <<0, 0, P - 1, 1, 0>>, <<2, 3, P - 2, 1, 1>> >>

(* a: sequence of operand values; n: the integer parameter of ToBinary / the coefficient pattern of the PLONK calls *)
Eval(op, a, n) ==
  CASE op = "Add"  -> Ok(Add2(a[1], a[2]))
    [] op = "Add3" -> Ok(Add2(Add2(a[1], a[2]), a[3]))
    [] op = "Sub"  -> Ok(Sub2(a[1], a[2]))
    [] op = "Sub3" -> Ok(Sub2(Sub2(a[1], a[2]), a[3]))
    [] op = "Neg"  -> Ok(Neg1(a[1]))
    [] op = "Mul"  -> Ok(Mul2(a[1], a[2]))
    [] op = "Mul3" -> Ok(Mul2(Mul2(a[1], a[2]), a[3]))
    [] op = "MulAcc" -> Ok(Add2(a[1], Mul2(a[2], a[3])))
    [] op = "Div" -> IF a[2] = 0 THEN Fail ELSE Ok(Mul2(a[1], Inv1(a[2])))
    [] op = "DivUnchecked" ->
          IF a[2] # 0 THEN Ok(Mul2(a[1], Inv1(a[2])))
          ELSE IF a[1] = 0 THEN [ok |-> TRUE, out |-> <<0>>, any |-> TRUE]
          ELSE Fail
    [] op = "Inverse" -> IF a[1] = 0 THEN Fail ELSE Ok(Inv1(a[1]))
    [] op = "ToBinary" ->
          IF a[1] >= Pow2(n) THEN Fail
          ELSE [ok |-> TRUE, out |-> [k \in 1..n |-> Bit(a[1], k - 1)], any |-> FALSE]
    [] op = "FromBinary" ->
          IF \E k \in 1..Len(a) : ~IsBool(a[k]) THEN Fail ELSE Ok(SumBits(a, 1))
    [] op = "Xor" -> IF IsBool(a[1]) /\ IsBool(a[2]) THEN Ok((a[1] + a[2]) % 2) ELSE Fail
    [] op = "Or"  -> IF IsBool(a[1]) /\ IsBool(a[2]) THEN Ok(IF a[1] + a[2] > 0 THEN 1 ELSE 0) ELSE Fail
    [] op = "And" -> IF IsBool(a[1]) /\ IsBool(a[2]) THEN Ok(a[1] * a[2]) ELSE Fail
    [] op = "Select" -> IF IsBool(a[1]) THEN Ok(IF a[1] = 1 THEN a[2] ELSE a[3]) ELSE Fail
    [] op = "Lookup2" ->
          IF IsBool(a[1]) /\ IsBool(a[2]) THEN Ok(a[3 + a[1] + 2 * a[2]]) ELSE Fail
    [] op = "IsZero" -> Ok(IF a[1] = 0 THEN 1 ELSE 0)
    [] op = "Cmp" -> Ok(IF a[1] > a[2] THEN 1 ELSE IF a[1] = a[2] THEN 0 ELSE P - 1)
    \* PLONK-specific API (sparse builder only); n selects one of three fixed coefficient patterns
    [] op = "PlonkExpr" ->   \* res = qL.a + qR.b + qM.ab + qC
          LET q == PlonkExprCoeffs[n]
          IN Ok((q[1] * a[1] + q[2] * a[2] + q[3] * Mul2(a[1], a[2]) + q[4]) % P)
    [] op = "PlonkGate" ->   \* asserts qL.a + qR.b + qO.o + qM.ab + qC = 0
          LET q == PlonkGateCoeffs[n]
          IN Assert((q[1] * a[1] + q[2] * a[2] + q[3] * a[3] + q[4] * Mul2(a[1], a[2]) + q[5]) % P = 0)
    \* ---- std gadgets (C14): documented relations ----
    [] op = "GIsLess"   -> Ok(IF a[1] < a[2] THEN 1 ELSE 0)            \* cmp.IsLess on canonical representatives
    [] op = "GIsLessEq" -> Ok(IF a[1] <= a[2] THEN 1 ELSE 0)           \* cmp.IsLessOrEqual
    \* selector.Mux(sel, inputs...): inputs[sel]; sel outside 0..n-1 is unsatisfiable
    [] op \in {"GMux2", "GMux3", "GMux4", "GMux5"} ->
          LET nin == Len(a) - 1 IN IF a[1] < nin THEN Ok(a[2 + a[1]]) ELSE Fail
    \* selector.Map(query, keys = <<1, 5, P-1>>, values): the value of the matching key; no match is unsatisfiable
    [] op = "GMap3" -> IF a[1] = 1 THEN Ok(a[2]) ELSE IF a[1] = 5 THEN Ok(a[3]) ELSE IF a[1] = P - 1 THEN Ok(a[4]) ELSE Fail
    \* selector.Decoder(n = 3, sel): unit vector; sel outside 0..2 is unsatisfiable
    [] op = "GDecoder3" -> IF a[1] < 3 THEN [ok |-> TRUE, out |-> [k \in 1..3 |-> IF k - 1 = a[1] THEN 1 ELSE 0], any |-> FALSE] ELSE Fail
    \* bitslice.Partition(v, split = n): v = lower + upper * 2^n with lower < 2^n (and upper < 2^(bits-n))
    [] op = "GPartition" -> [ok |-> TRUE, out |-> <<a[1] % Pow2(n), a[1] \div Pow2(n)>>, any |-> FALSE]
    \* rangecheck.New(api).Check(v, n) on an API without commitments (bit-decomposition checker): v < 2^n
    [] op = "GRangePlain" -> Assert(a[1] < Pow2(n))
    [] op = "AssertIsEqual" -> Assert(a[1] = a[2])
    [] op = "AssertIsDifferent" -> Assert(a[1] # a[2])
    [] op = "AssertIsBoolean" -> Assert(IsBool(a[1]))
    [] op = "AssertIsCrumb" -> Assert(a[1] \in 0..3)
    [] op = "AssertIsLessOrEqual" -> Assert(a[1] <= a[2])

Ops == {"Add", "Add3", "Sub", "Sub3", "Neg", "Mul", "Mul3", "MulAcc", "Div", "DivUnchecked", "Inverse",
        "ToBinary", "FromBinary", "Xor", "Or", "And", "Select", "Lookup2", "IsZero", "Cmp",
        "AssertIsEqual", "AssertIsDifferent", "AssertIsBoolean", "AssertIsCrumb", "AssertIsLessOrEqual",
        "PlonkExpr", "PlonkGate",
        "GIsLess", "GIsLessEq", "GMux2", "GMux3", "GMux4", "GMux5", "GMap3", "GDecoder3", "GPartition", "GRangePlain"}

Arity(op) ==
  CASE op \in {"Neg", "Inverse", "ToBinary", "IsZero", "AssertIsBoolean", "AssertIsCrumb", "GDecoder3", "GPartition", "GRangePlain"} -> 1
    [] op \in {"Add", "Sub", "Mul", "Div", "DivUnchecked", "Xor", "Or", "And", "Cmp", "PlonkExpr", "GIsLess", "GIsLessEq",
               "AssertIsEqual", "AssertIsDifferent", "AssertIsLessOrEqual"} -> 2
    [] op \in {"Add3", "Sub3", "Mul3", "MulAcc", "FromBinary", "Select", "PlonkGate", "GMux2"} -> 3
    [] op \in {"GMux3", "GMap3"} -> 4
    [] op = "GMux4" -> 5
    [] op = "GMux5" -> 6
    [] op = "Lookup2" -> 6

(* sanity theorems checked by TLC in ApiSemantics.cfg *)
InvOK == \A a \in F \ {0} : Mul2(a, Inv1(a)) = 1
BitsRoundTrip == \A x \in F : SumBits([k \in 1..FieldBits |-> Bit(x, k - 1)], 1) = x
=============================================================================
