SPECIFICATION Spec
CONSTANTS
  N = 13
  L = 7
  H = 4
  Emit = TRUE
CHECK_DEADLOCK FALSE
