------------------------------ MODULE SharedCS ------------------------------
(***************************************************************************)
(* C10: solving and proving are independent of concurrent use.              *)
(*                                                                         *)
(* N callers solve ONE compiled constraint system concurrently, each with   *)
(* its own witness.  The only mutable state reachable from the nominally    *)
(* read-only system is modelled exactly as the code has it:                 *)
(*                                                                         *)
(*  (a) the lookup-table blueprint (constraint/blueprint_logderivlookup.go) *)
(*      keeps a cache of resolved table entries on the *shared* blueprint:  *)
(*        Reset()      - called by every Solve before running, WITHOUT the  *)
(*                       lock: cache := empty (cap = table size), offset:=0 *)
(*        Solve(inst)  - lock; while len(cache) < nbEntries: append zero,   *)
(*                       then cache[i] := entry i evaluated under the       *)
(*                       CALLER's witness; unlock; entries := cache[:nb]    *)
(*                       (reslicing up to the capacity is legal in Go, so   *)
(*                       after a foreign Reset this yields zero entries).   *)
(*      One action per critical section / gate of the instrumented code.    *)
(*  (b) the solver-option slice handed to Prove: a backing array with       *)
(*      (len,cap); PLONK appends its per-proof hint override.  AppendMode   *)
(*      "inplace" (append writes slot len when cap > len - the pinned tree) *)
(*      or "copy" (capacity capped first - Groth16, and PLONK after F7).    *)
(*                                                                         *)
(* Properties: Isolation (every value a caller reads that depends on a      *)
(* witness was computed from its own witness), NoCrash, and no caller left  *)
(* blocked.  Behaviours (complete schedules with the outcome the model      *)
(* predicts per caller) are emitted for deterministic gated replay on the   *)
(* real code.                                                              *)
(***************************************************************************)
EXTENDS Naturals, Sequences, FiniteSets, TLC, Json

CONSTANTS N,            \* number of concurrent callers
          NbEntries,    \* entries the (single) lookup instruction of each caller needs
          TableCap,     \* capacity Reset allocates (= total number of table entries)
          Emit,
          Fine,         \* TRUE: the extend loop is interleaved per statement; FALSE: per gate of the instrumented code
          AppendMode,   \* "inplace" | "copy"
          SpareCap      \* TRUE: the shared option slice has cap > len

Callers == 1..N

VARIABLES pc,        \* pc[c]: "reset" | "enter" | "locked" | "ext-append" | "ext-write" | "extended" | "unlocked" | "read" | "done" | "panic"
          cache,     \* shared: sequence of owner tags (caller id, or 0 for a zero value)
          lock,      \* shared: 0 or the caller holding the blueprint mutex
          i,         \* i[c]: loop index of c's extend loop (Go's local variable)
          readv,     \* readv[c]: what c read (sequence of owner tags) - observation
          sched,     \* history: sequence of [c, act] - the schedule that is replayed
          slot,      \* option slice: content of the spare slot of the shared backing array (0 = free, else owner)
          opt        \* opt[c]: owner of the hint override c's solver will use (0 = not appended yet)
vars == <<pc, cache, lock, i, readv, sched, slot, opt>>
VARIABLE emitted

Init ==
  /\ pc = [c \in Callers |-> "append"]
  /\ cache = <<>> /\ lock = 0
  /\ i = [c \in Callers |-> 0]
  /\ readv = [c \in Callers |-> <<>>]
  /\ sched = <<>>
  /\ slot = 0
  /\ opt = [c \in Callers |-> 0]

Log(c, a) == sched' = Append(sched, [c |-> c, act |-> a])

\* Prove: append the per-proof hint override to the option slice
AppendOpt(c) ==
  /\ pc[c] = "append"
  /\ IF AppendMode = "inplace" /\ SpareCap
     THEN slot' = c /\ opt' = opt                         \* written into the shared backing array
     ELSE slot' = slot /\ opt' = [opt EXCEPT ![c] = c]    \* private copy
  /\ pc' = [pc EXCEPT ![c] = "reset"]
  /\ Log(c, "append")
  /\ UNCHANGED <<cache, lock, i, readv>>

\* the solver built from the options reads the override now (newSolver copies the hint map)
Reset(c) ==
  /\ pc[c] = "reset"
  /\ opt' = [opt EXCEPT ![c] = IF AppendMode = "inplace" /\ SpareCap THEN slot ELSE opt[c]]
  /\ cache' = <<>>                                        \* no lock taken
  /\ pc' = [pc EXCEPT ![c] = "enter"]
  /\ Log(c, "reset")
  /\ UNCHANGED <<lock, i, readv, slot>>

Lock(c) ==
  /\ pc[c] = "enter" /\ lock = 0
  /\ lock' = c
  /\ pc' = [pc EXCEPT ![c] = "locked"]
  /\ Log(c, "lock")
  /\ UNCHANGED <<cache, i, readv, slot, opt>>

\* if len(cache) < nbEntries { for i := len(cache); i < nbEntries; i++ { cache = append(cache, zero); cache[i] = entry_i(witness of c) } }
\* coarse: the whole loop is one step (there is no gate inside it)
ExtendAll(c) ==
  /\ ~Fine /\ pc[c] = "locked"
  /\ cache' = IF Len(cache) < NbEntries THEN cache \o [k \in 1..(NbEntries - Len(cache)) |-> c] ELSE cache
  /\ pc' = [pc EXCEPT ![c] = "extended"]
  /\ Log(c, "extend")
  /\ UNCHANGED <<lock, i, readv, slot, opt>>

\* fine: loop entry reads len(cache) into the local i
LoopEnter(c) ==
  /\ Fine /\ pc[c] = "locked"
  /\ i' = [i EXCEPT ![c] = Len(cache)]
  /\ pc' = [pc EXCEPT ![c] = IF Len(cache) < NbEntries THEN "ext-append" ELSE "extended"]
  /\ Log(c, "loop-enter")
  /\ UNCHANGED <<cache, lock, readv, slot, opt>>

\* cache = append(cache, zero)
ExtAppend(c) ==
  /\ pc[c] = "ext-append"
  /\ cache' = Append(cache, 0)
  /\ pc' = [pc EXCEPT ![c] = "ext-write"]
  /\ Log(c, "ext-append")
  /\ UNCHANGED <<lock, i, readv, slot, opt>>

\* cache[i] = entry; an index out of range panics and the mutex stays locked
ExtWrite(c) ==
  /\ pc[c] = "ext-write"
  /\ IF i[c] + 1 > Len(cache)
     THEN /\ pc' = [pc EXCEPT ![c] = "panic"] /\ UNCHANGED <<cache, i>>
     ELSE /\ cache' = [cache EXCEPT ![i[c] + 1] = c]
          /\ i' = [i EXCEPT ![c] = i[c] + 1]
          /\ pc' = [pc EXCEPT ![c] = IF i[c] + 1 < NbEntries THEN "ext-append" ELSE "extended"]
  /\ Log(c, "ext-write")
  /\ UNCHANGED <<lock, readv, slot, opt>>

Unlock(c) ==
  /\ pc[c] = "extended"
  /\ lock' = 0
  /\ pc' = [pc EXCEPT ![c] = "unlocked"]
  /\ Log(c, "unlock")
  /\ UNCHANGED <<cache, i, readv, slot, opt>>

\* entries := cache[:NbEntries]  (cap >= NbEntries always: no bounds panic; missing positions read as zero)
Read(c) ==
  /\ pc[c] = "unlocked"
  /\ readv' = [readv EXCEPT ![c] = [k \in 1..NbEntries |-> IF k <= Len(cache) THEN cache[k] ELSE 0]]
  /\ pc' = [pc EXCEPT ![c] = "done"]
  /\ Log(c, "read")
  /\ UNCHANGED <<cache, lock, i, slot, opt>>

Step(c) == AppendOpt(c) \/ Reset(c) \/ Lock(c) \/ ExtendAll(c) \/ LoopEnter(c) \/ ExtAppend(c) \/ ExtWrite(c) \/ Unlock(c) \/ Read(c)

AllStopped == \A c \in Callers : pc[c] \in {"done", "panic"} \/ (pc[c] = "enter" /\ lock # 0 /\ pc[lock] = "panic")

Outcome(c) == [pc |-> pc[c], read |-> readv[c], hint |-> opt[c]]
Behaviour == [n |-> N, nb |-> NbEntries, fine |-> Fine, mode |-> AppendMode, spare |-> SpareCap, sched |-> sched,
              outcome |-> [c \in Callers |-> Outcome(c)]]

Finish ==
  /\ AllStopped /\ ~emitted
  /\ emitted' = TRUE
  /\ IF Emit THEN PrintT("BEH" \o ToJson(Behaviour)) ELSE TRUE
  /\ UNCHANGED vars

Next == (\E c \in Callers : Step(c) /\ UNCHANGED emitted) \/ Finish
Spec == (Init /\ emitted = FALSE) /\ [][Next]_<<vars, emitted>>

(* ---- properties --------------------------------------------------------- *)
\* every table entry a caller reads was computed from its own witness
IsolationLookup == \A c \in Callers : pc[c] = "done" => \A k \in 1..Len(readv[c]) : readv[c][k] = c
\* every solver runs with its own proof's hint override
IsolationOptions == \A c \in Callers : pc[c] \notin {"append", "reset"} => opt[c] = c
NoCrash == \A c \in Callers : pc[c] # "panic"
\* nobody is left waiting for a mutex that will never be released
NoStuck == ~(\E c \in Callers : pc[c] = "enter" /\ lock # 0 /\ pc[lock] = "panic")
=============================================================================
