--------------------------- MODULE VerifierRobust ---------------------------
(***************************************************************************)
(* C08: verifiers of untrusted data return errors, never crash.             *)
(*                                                                         *)
(* The two verifiers are modelled as straight-line step machines over the   *)
(* integer *shape* of their inputs: the lengths of every variable-length    *)
(* part of a proof and of the public witness, against the lengths the       *)
(* verifying key prescribes.  A step is a guard (length comparison that     *)
(* returns an error), an access (slice index / reslice that panics when out *)
(* of range) or a callee summary.  TLC explores every shape with lengths    *)
(* 0..MaxLen and checks that no access is out of range and that every       *)
(* inconsistent shape ends in an error.  Each shape is emitted as a         *)
(* behaviour (sequence of truncate / extend edits) and replayed on the real *)
(* verifier, also through the binary encodings.                             *)
(*                                                                         *)
(* The step lists transcribe backend/groth16/<curve>/verify.go and          *)
(* backend/plonk/<curve>/verify.go.  The two guards that were missing in    *)
(* the pinned tree (findings F2, F3) are switchable constants so that TLC   *)
(* exhibits the panic when they are absent (see VerifierRobust_nofix.cfg).  *)
(***************************************************************************)
EXTENDS Naturals, Sequences, TLC, Json

CONSTANTS MaxLen,              \* proof-side lengths range over 0..MaxLen
          G16CountGuard,       \* groth16: len(proof.Commitments) # len(vk commitments) => error
          PlonkCVGuard,        \* plonk: len(ClaimedValues) # 6 + len(vk.Qcp) => error
          Emit

\* circuit shapes: what the verifying key prescribes
ShapeDef ==
  [ p1  |-> [nbPub |-> 1, nbCommit |-> 0],
    p2u |-> [nbPub |-> 2, nbCommit |-> 0],
    c1p |-> [nbPub |-> 2, nbCommit |-> 1],
    c2  |-> [nbPub |-> 2, nbCommit |-> 2],
    c3  |-> [nbPub |-> 2, nbCommit |-> 3] ]

VARIABLES backend, shape,
          lenPub,   \* length of the public witness handed to Verify
          lenCm,    \* len(proof.Commitments) / len(proof.Bsb22Commitments)
          lenCV,    \* len(proof.BatchedProof.ClaimedValues)  (plonk; 0 for groth16)
          via,      \* "object" | "bin" | "raw": proof object handed over directly or through an encoding
          fill,     \* what surplus commitments are: "dup" (copy of a genuine element) | "inf" (point at infinity)
          pc, outcome, i   \* step machine: program counter, result, loop index

vars == <<backend, shape, lenPub, lenCm, lenCV, via, fill, pc, outcome, i>>

S == ShapeDef[shape]

Init ==
  /\ backend \in {"groth16", "plonk"}
  /\ shape \in DOMAIN ShapeDef
  /\ lenPub \in 0..3
  /\ lenCm \in 0..MaxLen
  /\ lenCV \in (IF backend = "plonk" THEN 0..(6 + MaxLen) ELSE {0})
  /\ via \in {"object", "bin", "raw"}
  /\ fill \in (IF lenCm > ShapeDef[shape].nbCommit THEN {"dup", "inf"} ELSE {"dup"})
  /\ pc = "start" /\ outcome = "running" /\ i = 1

Goto(l) == pc' = l /\ UNCHANGED <<backend, shape, lenPub, lenCm, lenCV, via, fill, outcome, i>>
End(o) == pc' = "done" /\ outcome' = o /\ UNCHANGED <<backend, shape, lenPub, lenCm, lenCV, via, fill, i>>

(* ---- Groth16 verify.go -------------------------------------------------- *)
G16 ==
  /\ backend = "groth16"
  /\ \/ pc = "start" /\ (IF lenPub # S.nbPub THEN End("error:witness-size") ELSE Goto("g-count"))
     \/ pc = "g-count" /\ (IF G16CountGuard /\ lenCm # S.nbCommit THEN End("error:nb-commitments") ELSE Goto("g-subgroup"))
     \/ pc = "g-subgroup" /\ pc' = "g-hash" /\ i' = 1
                          /\ UNCHANGED <<backend, shape, lenPub, lenCm, lenCV, via, fill, outcome>>
     \* for i := range vk.PublicAndCommitmentCommitted { proof.Commitments[i] ... publicWitness = append(..) }
     \/ pc = "g-hash" /\ (IF i > S.nbCommit THEN Goto("g-pok")
                           ELSE IF i > lenCm THEN End("panic:Commitments[i]")
                           ELSE /\ i' = i + 1 /\ UNCHANGED <<backend, shape, lenPub, lenCm, lenCV, via, fill, pc, outcome>>)
     \* pedersen.BatchVerifyMultiVk returns an error on a length mismatch; skipped when the key has no commitment
     \/ pc = "g-pok" /\ (IF S.nbCommit > 0 /\ lenCm # S.nbCommit THEN End("error:pok") ELSE Goto("g-pairing"))
     \* kSum folds every proof commitment; MultiExp lengths are those of the key
     \/ pc = "g-pairing" /\ End("crypto")

(* ---- PLONK verify.go ----------------------------------------------------- *)
Plonk ==
  /\ backend = "plonk"
  /\ \/ pc = "start" /\ (IF lenCm # S.nbCommit THEN End("error:nb-bsb22") ELSE Goto("p-wit"))
     \/ pc = "p-wit" /\ (IF lenPub # S.nbPub THEN End("error:witness-size") ELSE Goto("p-cv"))
     \/ pc = "p-cv" /\ (IF PlonkCVGuard /\ lenCV # 6 + S.nbCommit THEN End("error:claimed-values") ELSE Goto("p-subgroup"))
     \/ pc = "p-subgroup" /\ pc' = "p-pi" /\ i' = 1
                          /\ UNCHANGED <<backend, shape, lenPub, lenCm, lenCV, via, fill, outcome>>
     \* for i := range vk.CommitmentConstraintIndexes { proof.Bsb22Commitments[i] }
     \/ pc = "p-pi" /\ (IF i > S.nbCommit THEN Goto("p-claimed")
                         ELSE IF i > lenCm THEN End("panic:Bsb22Commitments[i]")
                         ELSE /\ i' = i + 1 /\ UNCHANGED <<backend, shape, lenPub, lenCm, lenCV, via, fill, pc, outcome>>)
     \* ClaimedValues[1..5], ClaimedValues[0], ClaimedValues[6:]
     \/ pc = "p-claimed" /\ (IF lenCV < 6 THEN End("panic:ClaimedValues[k]") ELSE Goto("p-fold"))
     \* kzg.FoldProof: len(digests) = 6 + len(vk.Qcp) must equal len(ClaimedValues)
     \/ pc = "p-fold" /\ (IF lenCV # 6 + S.nbCommit THEN End("error:fold") ELSE Goto("p-batch"))
     \/ pc = "p-batch" /\ End("crypto")

Consistent == /\ lenPub = S.nbPub /\ lenCm = S.nbCommit
              /\ (backend = "plonk" => lenCV = 6 + S.nbCommit)

\* the edit sequence that turns a genuine triple into this shape (replayed by the protocol harness)
RECURSIVE Rep(_, _)
Rep(e, n) == IF n = 0 THEN <<>> ELSE <<e>> \o Rep(e, n - 1)

Edits ==
  LET drop == IF backend = "groth16" THEN "CommitDrop" ELSE "BsbDrop"
      app  == IF backend = "groth16" THEN "CommitAppend" ELSE "BsbAppend"
      cm == IF lenCm < S.nbCommit THEN Rep([op |-> drop, i |-> 1], S.nbCommit - lenCm)
            ELSE Rep([op |-> app, cls |-> fill], lenCm - S.nbCommit)
      cvs == IF backend # "plonk" THEN <<>>
             ELSE IF lenCV < 6 + S.nbCommit THEN <<[op |-> "TruncCV", i |-> lenCV]>>
             ELSE Rep([op |-> "ExtendCV", cls |-> "five"], lenCV - (6 + S.nbCommit))
      pb == IF lenPub < S.nbPub THEN Rep([op |-> "TruncPub"], S.nbPub - lenPub)
            ELSE Rep([op |-> "ExtendPub", cls |-> "five"], lenPub - S.nbPub)
      rt == IF via = "object" THEN <<>> ELSE <<[op |-> "RoundTrip", cls |-> via]>>
  IN cm \o cvs \o pb \o rt

Behaviour == [backend |-> backend, shape |-> shape, edits |-> Edits,
              lens |-> [pub |-> lenPub, cm |-> lenCm, cv |-> lenCV],
              spec |-> IF Consistent THEN "accept" ELSE "reject",
              code |-> IF outcome = "crypto" THEN "accept" ELSE "reject",
              stage |-> outcome]

Finish ==
  /\ pc = "done"
  /\ pc' = "emitted"
  /\ IF Emit THEN PrintT("BEH" \o ToJson(Behaviour)) ELSE TRUE
  /\ UNCHANGED <<backend, shape, lenPub, lenCm, lenCV, via, fill, outcome, i>>

Next == G16 \/ Plonk \/ Finish

Spec == Init /\ [][Next]_vars

(* ---- properties --------------------------------------------------------- *)
NoPanic == outcome \notin {"panic:Commitments[i]", "panic:Bsb22Commitments[i]", "panic:ClaimedValues[k]"}
\* an inconsistent shape never reaches the cryptographic checks: it is reported as an error
InconsistentIsError == (pc = "done" /\ ~Consistent) => outcome \notin {"crypto", "running"}
ConsistentReachesCrypto == (pc = "done" /\ Consistent) => outcome = "crypto"
=============================================================================
