-------------------------------- MODULE Schema --------------------------------
(***************************************************************************)
(* C07: witness values bind to the circuit variables they were assigned to. *)
(*                                                                         *)
(* A circuit type is a tree: the root struct has 1..3 fields; a field is a  *)
(* leaf (frontend.Variable), an array [2]Variable, a slice of 0 or 2        *)
(* Variables, a nested struct, a pointer to a struct or an embedded struct; *)
(* nested structs have 1..2 fields that are leaves, arrays or (one level    *)
(* deeper) a struct with one leaf.  Every field carries a gnark tag.        *)
(* Leaves(tree) is the DOCUMENTED order and visibility: depth-first in      *)
(* declaration order, "-" fields skipped, empty slices ignored, visibility  *)
(* = the field's own public/secret option, else the nearest enclosing one,  *)
(* else secret; a public/secret option that contradicts an enclosing one    *)
(* is an error.  The witness is the public leaves then the secret leaves.   *)
(* Trees are built one choice at a time (cheap random simulation) and each  *)
(* finished tree is emitted with its expected leaf lists; a Go type is      *)
(* generated per tree and the real schema walk / NewWitness / Compile are   *)
(* compared with the expectation.                                          *)
(***************************************************************************)
EXTENDS Naturals, Sequences, TLC, Json

CONSTANTS Emit,
          HookMode   \* TRUE: the small family of types that size themselves in a GnarkInitHook (enumerated exhaustively)

\* "-,public" / "-,secret": only the exact tag "-" omits a field; a name "-" with options is an (invalid) name, the field
\* keeps its Go name and the option applies (frontend/circuit.go documents `gnark:"-,public"`... as a valid minimal circuit)
Tags == {"", "public", "secret", "-", "inherit", "nm", "nm,public", "nm,secret", "-,public", "-,secret"}
\* "arr7": [7]Variable (together with other fields: more than 12 leaves); "tri": [3]Row, Row = struct{Cells []Variable},
\* with 0, 2 and 1 cells: values of one struct type of which the first holds no leaf
\* "hookvec": a named slice type `type V []Variable` whose GnarkInitHook allocates two elements; "hookstruct": a struct whose
\* hook allocates its slice field.  The schema walk runs the hook BEFORE descending, on values of any kind, so such a field
\* contributes the leaves of its initialised form although the circuit object handed to Compile is empty.
TopKinds == IF HookMode THEN {"leaf", "hookvec", "hookstruct"} ELSE {"leaf", "arr", "sli0", "sli2", "struct", "ptr", "emb", "arr7", "tri"}
SubKinds == {"leaf", "arr", "deep"}        \* "deep": a struct with a single leaf field tagged subtag2

VARIABLES fields,     \* sequence of root fields [tag, kind, sub]; sub = sequence of [tag, kind, tag2]
          phase, done
vars == <<fields, phase, done>>

Init == fields = <<>> /\ phase = "field" /\ done = FALSE

IsStruct(k) == k \in {"struct", "ptr", "emb"}
OptOf(tag) == IF tag \in {"public", "nm,public", "-,public"} THEN "public" ELSE IF tag \in {"secret", "nm,secret", "-,secret"} THEN "secret" ELSE "unset"

AddField ==
  /\ phase = "field" /\ Len(fields) < 3
  /\ \E t \in Tags, k \in TopKinds :
       /\ (HookMode => t \in {"", "public", "secret"} /\ Len(fields) < 2)
       /\ (k = "emb" => t = "")          \* gnark flattens embedded structs: a tag on the embedded field itself is not documented
       /\ t # "inherit"                  \* "inherit" needs an enclosing field with an explicit visibility
       /\ fields' = Append(fields, [tag |-> t, kind |-> k, sub |-> <<>>])
       /\ phase' = IF IsStruct(k) THEN "sub" ELSE "field"
  /\ UNCHANGED done

AddSub ==
  /\ phase = "sub" /\ Len(fields[Len(fields)].sub) < 2
  /\ \E t \in Tags, k \in SubKinds, t2 \in {"", "public", "secret"} :
       /\ (k # "deep" => t2 = "")
       /\ (t = "inherit" => OptOf(fields[Len(fields)].tag) # "unset")
       /\ fields' = [fields EXCEPT ![Len(fields)].sub = Append(@, [tag |-> t, kind |-> k, tag2 |-> t2])]
  /\ UNCHANGED <<phase, done>>

EndSub == phase = "sub" /\ Len(fields[Len(fields)].sub) >= 1 /\ phase' = "field" /\ UNCHANGED <<fields, done>>

(* ---- documented leaf order and visibility ------------------------------ *)
\* visibility of a field given its parent's ("unset" | "public" | "secret"); "conflict" if contradictory
Vis(parent, tag) ==
  LET own == IF OptOf(tag) = "unset" THEN parent ELSE OptOf(tag)
  IN IF parent # "unset" /\ own # parent THEN "conflict" ELSE own

Final(v) == IF v = "unset" THEN "secret" ELSE v

\* leaves of a subfield under visibility pv: sequence of [path, vis]
SubLeaves(path, sf, pv) ==
  IF sf.tag = "-" THEN <<>>
  ELSE LET v == Vis(pv, sf.tag) IN
       IF v = "conflict" THEN <<[path |-> path, vis |-> "conflict"]>>
       ELSE CASE sf.kind = "leaf" -> <<[path |-> path, vis |-> Final(v)]>>
              [] sf.kind = "arr"  -> <<[path |-> path \o <<0>>, vis |-> Final(v)], [path |-> path \o <<1>>, vis |-> Final(v)]>>
              [] sf.kind = "deep" -> LET v2 == Vis(v, sf.tag2) IN
                                     <<[path |-> path \o <<0>>, vis |-> IF v2 = "conflict" THEN "conflict" ELSE Final(v2)]>>

RECURSIVE SubSeq2(_, _, _, _)
SubSeq2(path, subs, k, pv) == IF k > Len(subs) THEN <<>> ELSE SubLeaves(path \o <<k - 1>>, subs[k], pv) \o SubSeq2(path, subs, k + 1, pv)

FieldLeaves(i, f) ==
  IF f.tag = "-" THEN <<>>
  ELSE LET v == Vis("unset", f.tag) IN
       CASE f.kind = "leaf" -> <<[path |-> <<i>>, vis |-> Final(v)]>>
         [] f.kind = "arr"  -> <<[path |-> <<i, 0>>, vis |-> Final(v)], [path |-> <<i, 1>>, vis |-> Final(v)]>>
         [] f.kind = "arr7" -> [j \in 1..7 |-> [path |-> <<i, j - 1>>, vis |-> Final(v)]]
         [] f.kind = "tri"  -> <<[path |-> <<i, 1, 0>>, vis |-> Final(v)], [path |-> <<i, 1, 1>>, vis |-> Final(v)], [path |-> <<i, 2, 0>>, vis |-> Final(v)]>>
         [] f.kind = "sli0" -> <<>>
         [] f.kind \in {"sli2", "hookvec", "hookstruct"} -> <<[path |-> <<i, 0>>, vis |-> Final(v)], [path |-> <<i, 1>>, vis |-> Final(v)]>>
         [] OTHER -> SubSeq2(<<i>>, f.sub, 1, v)

RECURSIVE AllLeaves(_)
AllLeaves(k) == IF k > Len(fields) THEN <<>> ELSE FieldLeaves(k - 1, fields[k]) \o AllLeaves(k + 1)

Leaves == AllLeaves(1)
Conflict == \E k \in 1..Len(Leaves) : Leaves[k].vis = "conflict"
Public == SelectSeq(Leaves, LAMBDA l : l.vis = "public")
Secret == SelectSeq(Leaves, LAMBDA l : l.vis = "secret")

Finish ==
  /\ phase = "field" /\ Len(fields) >= 1 /\ ~done /\ done' = TRUE
  /\ IF Emit THEN PrintT("BEH" \o ToJson([fields |-> fields, conflict |-> Conflict,
                                          public |-> [k \in 1..Len(Public) |-> Public[k].path],
                                          secret |-> [k \in 1..Len(Secret) |-> Secret[k].path]])) ELSE TRUE
  /\ UNCHANGED <<fields, phase>>

Next == AddField \/ AddSub \/ EndSub \/ Finish
Spec == Init /\ [][Next]_vars

\* the witness lists every non-omitted leaf exactly once, public ones first
Partition == done /\ ~Conflict => Len(Public) + Len(Secret) = Len(Leaves)
=============================================================================
