SPECIFICATION Spec
CONSTANTS
  PT = 47
  Emit = FALSE
INVARIANT ComparatorContract
INVARIANT CaseAgreesWithProcedure
CHECK_DEADLOCK FALSE
