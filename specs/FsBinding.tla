------------------------------- MODULE FsBinding -------------------------------
(***************************************************************************)
(* C17 (KZG verification gadget): Fiat-Shamir binding of the in-circuit     *)
(* folding challenges.                                                      *)
(*                                                                         *)
(* A non-interactive verifier derives each challenge by hashing a set of    *)
(* values.  A value the prover supplies and that is NOT hashed can be       *)
(* chosen AFTER the challenge is known.  The game: the prover first fixes   *)
(* the bound values, learns the challenge, then picks the free ones.  For   *)
(* a random-linear-combination check  sum_i c^i * e_i = 0  (e_i the error   *)
(* of opening i, determined by its claimed value) the prover wins with      *)
(* non-zero errors iff at least two errors are still free once c is known   *)
(* (e_0 = eps, e_1 = -eps/c), or c itself can be steered.  Bound[ch] is     *)
(* EXTRACTED from the gadget's source on every run (the arguments of the    *)
(* Marshal* calls written to the challenge's hash); Required[ch] is what    *)
(* the protocol needs.  TLC plays the game on the extracted sets.           *)
(***************************************************************************)
EXTENDS Naturals, FiniteSets, Sequences, TLC, Json

CONSTANTS Challenges,   \* names of the challenge derivations
          Bound,        \* [Challenges -> SUBSET Values]: extracted from the code
          Required,     \* [Challenges -> SUBSET Values]: prover-chosen values the challenge must bind
          Emit

VARIABLES ch, phase, free, verdict
vars == <<ch, phase, free, verdict>>

Init == ch \in Challenges /\ phase = "commit" /\ free = {} /\ verdict = "none"

\* the prover fixes exactly the values the hash binds; everything else stays free
Commit == /\ phase = "commit" /\ phase' = "challenge"
          /\ free' = Required[ch] \ Bound[ch]
          /\ UNCHANGED <<ch, verdict>>

\* the challenge is revealed; the prover adapts the free values
Adapt == /\ phase = "challenge" /\ phase' = "done"
         /\ verdict' = IF free # {} THEN "forgeable" ELSE "bound"
         /\ UNCHANGED <<ch, free>>

Finish == /\ phase = "done" /\ phase' = "emitted" /\ UNCHANGED <<ch, free, verdict>>
          /\ (IF Emit THEN PrintT("BEH" \o ToJson([challenge |-> ch, verdict |-> verdict, free |-> free])) ELSE TRUE)

Next == Commit \/ Adapt \/ Finish
Spec == Init /\ [][Next]_vars

NeverForgeable == verdict # "forgeable"
=============================================================================
