SPECIFICATION Spec
CONSTANTS
  P = 47
  MaxLen = 5
  ConstVals = {0, 1, 2, 46}
  ProbeSeq <- MCProbeSeq
  OpSet = {"Add", "Add3", "Sub", "Sub3", "Neg", "Mul", "Mul3", "MulAcc", "Div", "DivUnchecked", "Inverse", "ToBinary", "FromBinary", "Xor", "Or", "And", "Select", "Lookup2", "IsZero", "Cmp", "AssertIsEqual", "AssertIsDifferent", "AssertIsBoolean", "AssertIsCrumb", "AssertIsLessOrEqual", "PlonkExpr", "PlonkGate"}
  Derived = 2
  Emit = TRUE
INVARIANT WellFormed
CHECK_DEADLOCK FALSE
