SPECIFICATION Spec
CONSTANTS
  MaxEdits = 1
  ShapeNames = {"p1x0", "p1x1", "p1x2", "p1x3", "p1x4", "p1x5", "p1x6", "p1x7"}
  Emit = TRUE
INVARIANTS TypeOK CodeMeetsSpec CommitListExact Completeness
CHECK_DEADLOCK FALSE
