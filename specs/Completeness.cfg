SPECIFICATION Spec
CONSTANTS
  Circuits = {"p1", "p2u", "pub2", "c1s", "c1p", "c1po", "c2", "c2i", "c3", "c3r", "c4b", "p1x0", "p1x1", "p1x2", "p1x3", "p1x4", "p1x5", "p1x6", "p1x7", "arith", "hint", "lookup", "lookup2", "range", "commit", "emul", "defer", "mimc", "logs", "selector", "hintlazy"}
  Commits = {"c4b", "c1s", "c1p", "c1po", "c2", "c2i", "c3", "c3r", "lookup", "lookup2", "range", "commit", "emul", "defer"}
  Emit = TRUE
INVARIANT Honest
CHECK_DEADLOCK FALSE
