SPECIFICATION Spec
CONSTANTS
  Emit = TRUE
CHECK_DEADLOCK FALSE
