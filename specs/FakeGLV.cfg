SPECIFICATION Spec
CONSTANTS
  L = 7
  F = 13
  B = 3
  Emit = TRUE
CHECK_DEADLOCK FALSE
