------------------------------- MODULE ToySig -------------------------------
(***************************************************************************)
(* C16 (signature gadgets): which signatures must be accepted.              *)
(*                                                                         *)
(* ECDSA and EdDSA are written out over toy groups in which TLC can         *)
(* enumerate EVERY key, nonce and message: the additive group Z_N (N prime) *)
(* whose element k stands for the point [k]G, with the "x-coordinate"       *)
(* XC(k) = XC(-k), and for EdDSA the group Z_{H*L} with cofactor H and a    *)
(* base point of prime order L; the hash H(R,A,M) is an arbitrary value c   *)
(* (random oracle).  An alphabet of EDIT CLASSES is applied to every        *)
(* genuine signature and the verification equation decides the outcome.     *)
(* TLC establishes, per class, whether the edited signature is accepted     *)
(* for all instances (genuine, s -> N-s, m -> m+N), for none (zero or       *)
(* non-canonical components) or only by coincidences that are negligible    *)
(* in a cryptographic group (altered r, s, message, key): that verdict is   *)
(* what the in-circuit verifiers - and the native library they must agree   *)
(* with - are held to on the real curves.                                   *)
(***************************************************************************)
EXTENDS Integers, Sequences, FiniteSets, TLC, Json

CONSTANTS N,      \* prime order of the ECDSA toy group
          L, H,   \* prime order of the EdDSA base point, cofactor
          Emit

Inv(a, p) == CHOOSE b \in 1..p-1 : (a * b) % p = 1
XC(k) == IF 2 * k <= N THEN k ELSE N - k          \* k in 1..N-1; XC(k) = XC(N-k), never 0

-----------------------------------------------------------------------------
(* ECDSA over Z_N *)
EcdsaInst == { i \in [d : 1..N-1, k : 1..N-1, m : 0..N-1] : (Inv(i.k, N) * (i.m + XC(i.k) * i.d)) % N # 0 }
EcdsaSign(i) == [m |-> i.m, r |-> XC(i.k), s |-> (Inv(i.k, N) * (i.m + XC(i.k) * i.d)) % N, q |-> i.d]
\* m, r, s are integers as the verifier receives them (possibly 0 or >= N); q names the public key point
EcdsaVerify(v) == /\ v.r >= 1 /\ v.r <= N - 1 /\ v.s >= 1 /\ v.s <= N - 1
                  /\ LET w == Inv(v.s, N)
                         R == ((v.m % N) * w + v.r * w * v.q) % N
                     IN R # 0 /\ XC(R) = v.r
EcdsaClasses == {"genuine", "sNeg", "mPlusN", "rZero", "sZero", "rPlusN", "sPlusN", "rInc", "sInc", "mInc", "otherKey", "swapRS"}
EcdsaEdit(c, v) ==
  CASE c = "genuine"  -> v
    [] c = "sNeg"     -> [v EXCEPT !.s = N - v.s]
    [] c = "mPlusN"   -> [v EXCEPT !.m = v.m + N]
    [] c = "rZero"    -> [v EXCEPT !.r = 0]
    [] c = "sZero"    -> [v EXCEPT !.s = 0]
    [] c = "rPlusN"   -> [v EXCEPT !.r = v.r + N]
    [] c = "sPlusN"   -> [v EXCEPT !.s = v.s + N]
    [] c = "rInc"     -> [v EXCEPT !.r = (v.r % (N - 1)) + 1]
    [] c = "sInc"     -> [v EXCEPT !.s = (v.s % (N - 1)) + 1]
    [] c = "mInc"     -> [v EXCEPT !.m = (v.m + 1) % N]
    [] c = "otherKey" -> [v EXCEPT !.q = (v.q % (N - 1)) + 1]
    [] c = "swapRS"   -> [v EXCEPT !.r = v.s, !.s = v.r]
EcdsaAccepts(c) == Cardinality({i \in EcdsaInst : EcdsaVerify(EcdsaEdit(c, EcdsaSign(i)))})

-----------------------------------------------------------------------------
(* EdDSA over Z_{H*L}: base point B = H (order L), cofactored verification *)
G == H * L
B == H
EddsaInst == [a : 1..L-1, n : 1..L-1, c : 0..L-1]
EddsaSign(i) == [R |-> (i.n * B) % G, S |-> (i.n + i.c * i.a) % L, A |-> (i.a * B) % G, c |-> i.c]
\* gnark-crypto also demands a canonical non-zero S (malleability)
EddsaVerify(v) == /\ v.S >= 1 /\ v.S <= L - 1
                  /\ (H * (v.S * B + G * G - v.R - v.c * v.A)) % G = 0
EddsaClasses == {"genuine", "sInc", "sPlusL", "sZero", "rOther", "mInc", "otherKey", "rLowOrder"}
\* the signer (who knows the key) adds a point of low order to R - L has order H in Z_{H*L} - and signs for the new hash:
\* the cofactored equation, which is what both verifiers implement, does not see the low-order component
EddsaLowOrder(i, c2) == [R |-> (i.n * B + L) % G, S |-> (i.n + c2 * i.a) % L, A |-> (i.a * B) % G, c |-> c2]
\* an edit of R, A or the message changes the hash: c2 is the new (arbitrary) value
EddsaEdit(c, v, c2) ==
  CASE c = "genuine"  -> v
    [] c = "sInc"     -> [v EXCEPT !.S = (v.S % (L - 1)) + 1]
    [] c = "sPlusL"   -> [v EXCEPT !.S = v.S + L]
    [] c = "sZero"    -> [v EXCEPT !.S = 0]
    [] c = "rOther"   -> [v EXCEPT !.R = (v.R + B) % G, !.c = c2]
    [] c = "mInc"     -> [v EXCEPT !.c = c2]
    [] c = "otherKey" -> [v EXCEPT !.A = (v.A + B) % G, !.c = c2]
    [] c = "rLowOrder" -> v
EddsaTrials(c) == IF c \in {"rOther", "mInc", "otherKey"} THEN {<<i, c2>> : i \in {j \in EddsaInst : j.n + j.c * j.a # 0 /\ (j.n + j.c * j.a) % L # 0}, c2 \in 0..L-1}
                  ELSE {<<i, i.c>> : i \in {j \in EddsaInst : (j.n + j.c * j.a) % L # 0}}
EddsaLowTrials == {t \in EddsaInst \X (0..L-1) : (t[1].n + t[2] * t[1].a) % L # 0}
EddsaAccepts(c) == IF c = "rLowOrder" THEN Cardinality({t \in EddsaLowTrials : EddsaVerify(EddsaLowOrder(t[1], t[2]))})
                   ELSE Cardinality({t \in EddsaTrials(c) : EddsaVerify(EddsaEdit(c, EddsaSign(t[1]), t[2]))})
EddsaTotal(c) == IF c = "rLowOrder" THEN Cardinality(EddsaLowTrials) ELSE Cardinality(EddsaTrials(c))

-----------------------------------------------------------------------------
Verdict(acc, total) == IF acc = total THEN "accept" ELSE IF acc = 0 THEN "reject" ELSE "coincidence"

EcdsaTable == [c \in EcdsaClasses |-> [scheme |-> "ecdsa", class |-> c, accepts |-> EcdsaAccepts(c), total |-> Cardinality(EcdsaInst),
                                        verdict |-> Verdict(EcdsaAccepts(c), Cardinality(EcdsaInst))]]
EddsaTable == [c \in EddsaClasses |-> [scheme |-> "eddsa", class |-> c, accepts |-> EddsaAccepts(c), total |-> EddsaTotal(c),
                                        verdict |-> Verdict(EddsaAccepts(c), EddsaTotal(c))]]

\* what the real verifiers are held to: a coincidence of the toy group is a rejection on a cryptographic group
Expect(row) == IF row.verdict = "accept" THEN "accept" ELSE "reject"

\* the theorems of the toy model (checked by TLC as assumptions)
ASSUME \A c \in {"genuine", "sNeg", "mPlusN"} : EcdsaTable[c].verdict = "accept"          \* incl. the (r, N-s) malleability
ASSUME \A c \in {"rZero", "sZero", "rPlusN", "sPlusN"} : EcdsaTable[c].verdict = "reject"
ASSUME \A c \in {"rInc", "sInc", "mInc", "otherKey", "swapRS"} : EcdsaTable[c].verdict # "accept" /\ 2 * EcdsaTable[c].accepts < EcdsaTable[c].total
ASSUME EddsaTable["genuine"].verdict = "accept"
ASSUME EddsaTable["rLowOrder"].verdict = "accept"          \* cofactored verification
ASSUME \A c \in {"sInc", "sPlusL", "sZero"} : EddsaTable[c].verdict = "reject"
ASSUME \A c \in {"rOther", "mInc", "otherKey"} : EddsaTable[c].verdict # "accept" /\ 2 * EddsaTable[c].accepts < EddsaTable[c].total
\* without the canonical-S rule the non-canonical S + L satisfies the equation for every instance (why the rule exists)
ASSUME \A i \in EddsaInst : LET v == EddsaSign(i) IN (H * ((v.S + L) * B + G * G - v.R - v.c * v.A)) % G = 0

VARIABLES cur, done
vars == <<cur, done>>
Rows == {EcdsaTable[c] : c \in EcdsaClasses} \cup {EddsaTable[c] : c \in EddsaClasses}
NoRow == [scheme |-> "none"]
Init == cur = NoRow /\ done = FALSE
Pick == cur = NoRow /\ UNCHANGED done /\ \E r \in Rows : cur' = r
Finish == /\ cur # NoRow /\ ~done /\ done' = TRUE /\ UNCHANGED cur
          /\ (IF Emit THEN PrintT("BEH" \o ToJson([scheme |-> cur.scheme, class |-> cur.class, accepts |-> cur.accepts, total |-> cur.total,
                                                    toy |-> cur.verdict, expect |-> Expect(cur)])) ELSE TRUE)
Next == Pick \/ Finish
Spec == Init /\ [][Next]_vars
=============================================================================
