SPECIFICATION Spec
CONSTANTS
  N = 2
  NbEntries = 2
  TableCap = 2
  Emit = FALSE
  Fine = TRUE
  AppendMode = "copy"
  SpareCap = TRUE
INVARIANTS IsolationLookup NoCrash NoStuck IsolationOptions
CHECK_DEADLOCK FALSE
