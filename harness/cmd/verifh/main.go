// verifh is the Go side of the /verif machinery: it replays TLC-generated behaviours on the
// real gnark code and records traces of real executions for TLC to validate.
package main

import (
	"fmt"
	"os"

	"github.com/consensys/gnark/logger"

	"verifharness/common"
	"verifharness/extract"
	"verifharness/generic"
	"verifharness/rec"
)

func main() {
	logger.Disable()
	if len(os.Args) < 2 {
		fmt.Fprintln(os.Stderr, "usage: verifh <cmd> [--curve c] [--in f] --out f")
		os.Exit(2)
	}
	cmd := os.Args[1]
	args := common.ParseArgs(os.Args[2:])
	out, err := common.NewOut(args.Get("out", "/dev/stdout"))
	if err != nil {
		fmt.Fprintln(os.Stderr, err)
		os.Exit(2)
	}
	defer out.Close()
	if f, ok := genericCmds[cmd]; ok {
		if err := f(args, out); err != nil {
			out.Close()
			fmt.Fprintln(os.Stderr, "error:", err)
			os.Exit(2)
		}
		return
	}
	cn := args.Get("curve", "bn254")
	c := common.Curve(cn)
	if c == nil {
		fmt.Fprintln(os.Stderr, "unknown curve", cn)
		os.Exit(2)
	}
	f, ok := c.Cmds[cmd]
	if !ok {
		fmt.Fprintln(os.Stderr, "unknown command", cmd)
		os.Exit(2)
	}
	if err := f(args, out); err != nil {
		out.Close()
		fmt.Fprintln(os.Stderr, "error:", err)
		os.Exit(2)
	}
}

var genericCmds = map[string]func(common.Args, *common.Out) error{
	"compiledet":  generic.CompileDet,
	"maprange":    extract.MapRange,
	"pipeline":    extract.Pipeline,
	"c10gated":    generic.C10Gated,
	"progrun":     generic.ProgRun,
	"satexport":   generic.SatExport,
	"satenum":     generic.SatEnum,
	"levelcheck":  generic.LevelCheck,
	"schemacheck": generic.SchemaCheck,
	"emureplay":   generic.EmuReplay,
	"gwreplay":    generic.WideReplay,
	"hashreplay":  generic.HashReplay,
	"curvereplay": generic.CurveReplay,
	"sigreplay":   generic.SigReplay,
	"curvehints":  generic.CurveHints,
	"curvespecial": generic.CurveSpecial,
	"c17replay":   rec.Replay,
}
