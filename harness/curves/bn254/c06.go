package c_bn254

import (
	"fmt"
	"math/big"
	"sync"

	"github.com/consensys/gnark/backend/groth16"
	"github.com/consensys/gnark/backend/plonk"
	"github.com/consensys/gnark/constraint/solver"
	"github.com/consensys/gnark/test/unsafekzg"
	"github.com/consensys/gnark/verifhook"

	"verifharness/circuits"
	"verifharness/common"
	"verifharness/generic"
)

// C06Rec reports on one corpus circuit: levels, the solution the prover was handed, the scheduling trace.
type C06Rec struct {
	Circuit   string           `json:"circuit"`
	System    string           `json:"system"`
	Levels    generic.LevelRec `json:"levels"`
	Solutions int              `json:"solutions"`
	Problems  []string         `json:"problems"`
	Trace     []traceEv        `json:"trace,omitempty"` // sequential solve (nbTasks=1) of a small system
}

type traceEv struct {
	E string `json:"e"`
	A int    `json:"a"`
}

var c06Mu sync.Mutex

func c06One(name, builder string) C06Rec {
	rec := C06Rec{Circuit: name, System: builder}
	bad := func(f string, a ...any) {
		if len(rec.Problems) < 8 {
			rec.Problems = append(rec.Problems, fmt.Sprintf(f, a...))
		}
	}
	ccs, err := compileNamed(name, builder)
	if err != nil {
		bad("INFRA compile: %v", err)
		return rec
	}
	acs := ccs.(generic.AnyCS)
	rec.Levels = generic.LevelReport(builder+" "+name, acs)
	rows, err := generic.ExportRows(acs, builder)
	if err != nil {
		bad("INFRA rows: %v", err)
		return rec
	}
	mod := field()
	// the backends hand the solution to the prover: capture it there (this is also the only way to
	// solve circuits with commitments, whose hints the provers install)
	var g16pk groth16.ProvingKey
	var plpk plonk.ProvingKey
	if builder == "r1cs" {
		g16pk, _, err = groth16.Setup(ccs)
	} else {
		srs, srsL, e := unsafekzg.NewSRS(ccs, unsafekzg.WithToxicValue(big.NewInt(777)))
		if e != nil {
			bad("INFRA srs: %v", e)
			return rec
		}
		plpk, _, err = plonk.Setup(ccs, srs, srsL)
	}
	if err != nil {
		bad("INFRA setup: %v", err)
		return rec
	}
	_, isShape := circuits.Shapes[name]
	for variant := 0; variant < 3; variant++ {
		for _, nt := range []int{1, 4} {
			var assign any
			if isShape {
				assign = circuits.AssignShape(name, variant)
			} else {
				assign = circuits.AssignCorpus(name, variant, mod)
			}
			w, err := fullWitnessAny(assign)
			if err != nil {
				bad("INFRA witness: %v", err)
				return rec
			}
			wv := w.Vector()
			c06Mu.Lock()
			hookMu.Lock()
			var captured *generic.Solution
			var capErr error
			var events []traceEv
			var evMu sync.Mutex
			// copy at the hook: the provers transform the vectors in place afterwards
			verifhook.PostSolveFn = func(_ any, sol any) { captured, capErr = generic.ReadSolution(sol) }
			verifhook.SolverEventFn = func(_ any, kind int, a, b int) {
				evMu.Lock()
				defer evMu.Unlock()
				switch kind {
				case verifhook.EvLevel:
					events = append(events, traceEv{"level", a})
				case verifhook.EvInstr:
					events = append(events, traceEv{"instr", a})
				case verifhook.EvSet:
					events = append(events, traceEv{"set", a})
				case verifhook.EvLevelDone:
					events = append(events, traceEv{"leveldone", 0})
				}
			}
			var perr error
			opts := []solver.Option{solver.WithNbTasks(nt)}
			if name == "hintdyn" {
				opts = append(opts, solver.WithHints(circuits.DynHint(int64(variant+1))))
			}
			pan, msg := common.Safely(func() {
				if builder == "r1cs" {
					_, perr = groth16.Prove(ccs, g16pk, w, backendSolverOpts(opts)...)
				} else {
					_, perr = plonk.Prove(ccs, plpk, w, backendSolverOpts(opts)...)
				}
			})
			verifhook.PostSolveFn = nil
			verifhook.SolverEventFn = nil
			hookMu.Unlock()
			c06Mu.Unlock()
			if pan {
				bad("prover panic on a valid witness: %s", msg)
				continue
			}
			if perr != nil {
				bad("prover error on a valid witness (variant %d): %v", variant, perr)
				continue
			}
			if captured == nil || capErr != nil {
				bad("INFRA no solution captured (%v)", capErr)
				continue
			}
			sol := captured
			wit := generic.WitnessValues(wv)
			if err := generic.SolutionOK(rows, sol, wit, mod); err != nil {
				bad("solution handed to the backend is not a satisfying assignment (nbTasks=%d): %v", nt, err)
			}
			rec.Solutions++
			// scheduling trace: every instruction once and inside its level, every wire once
			if p := checkTrace(&rec.Levels, events, acs, nt); p != "" {
				bad("solver schedule (nbTasks=%d): %s", nt, p)
			}
			if nt == 1 && variant == 0 && rec.Levels.Small && len(events) < 400 {
				rec.Trace = events
			}
		}
	}
	return rec
}

func checkTrace(lr *generic.LevelRec, events []traceEv, cs generic.AnyCS, nt int) string {
	sys, err := generic.SystemOf(cs)
	if err != nil {
		return "INFRA " + err.Error()
	}
	n := len(sys.Instructions)
	levelOf := make([]int, n)
	for l, lv := range sys.Levels {
		for _, i := range lv {
			levelOf[i] = l
		}
	}
	ran := make([]int, n)
	setw := map[int]int{}
	open := -1
	for _, e := range events {
		switch e.E {
		case "level":
			open++
			if open >= len(sys.Levels) || e.A != len(sys.Levels[open]) {
				return fmt.Sprintf("level %d opened with %d instructions, the system has %d there", open, e.A, len(sys.Levels[min(open, len(sys.Levels)-1)]))
			}
		case "instr":
			if e.A < 0 || e.A >= n {
				return fmt.Sprintf("instruction %d does not exist", e.A)
			}
			ran[e.A]++
			if levelOf[e.A] != open {
				return fmt.Sprintf("instruction %d of level %d ran while level %d was open", e.A, levelOf[e.A], open)
			}
		case "set":
			setw[e.A]++
			if setw[e.A] > 1 {
				return fmt.Sprintf("wire %d assigned twice", e.A)
			}
		}
	}
	for i, c := range ran {
		if c != 1 {
			return fmt.Sprintf("instruction %d ran %d times", i, c)
		}
	}
	nbIn := cs.GetNbPublicVariables() + cs.GetNbSecretVariables()
	for w := nbIn; w < nbIn+cs.GetNbInternalVariables(); w++ {
		if setw[w] != 1 {
			return fmt.Sprintf("internal wire %d assigned %d times", w, setw[w])
		}
	}
	return ""
}

func c06Corpus(args common.Args, out *common.Out) error {
	var names []string
	names = append(names, circuits.ShapeNames()...)
	for _, ci := range circuits.CorpusList {
		if ci.Name == "wide2" || ci.Gkr {
			continue
		}
		names = append(names, ci.Name)
	}
	for _, name := range names {
		scsOnly, r1csOnly := false, false
		if _, ok := circuits.Shapes[name]; !ok {
			ci := circuits.CorpusByName(name)
			scsOnly, r1csOnly = ci.SCSOnly, ci.R1CSOnly
		}
		if !scsOnly {
			out.Emit(c06One(name, "r1cs"))
		}
		if !r1csOnly {
			out.Emit(c06One(name, "scs"))
		}
	}
	return nil
}
