package c_bn254

import (
	"bytes"
	"crypto/sha256"
	"encoding/binary"
	"fmt"
	"io"
	"math/big"
	"sync"

	"github.com/consensys/gnark-crypto/ecc"
	curve "github.com/consensys/gnark-crypto/ecc/bn254"
	"github.com/consensys/gnark-crypto/ecc/bn254/fr"
	cmpc "github.com/consensys/gnark-crypto/ecc/bn254/mpcsetup"
	"github.com/consensys/gnark/backend/groth16"
	"github.com/consensys/gnark/backend/groth16/bn254/mpcsetup"
	cs "github.com/consensys/gnark/constraint/bn254"
	"github.com/consensys/gnark/frontend"
	"github.com/consensys/gnark/frontend/cs/r1cs"

	"verifharness/circuits"
	"verifharness/common"
)

// ---- C18: MPC setup transcripts (specs/MpcSetup.tla) ----

type C18Edit struct {
	Kind string `json:"kind"`
	I    int    `json:"i"`
	Comp string `json:"comp"`
	Pos  string `json:"pos"`
	How  string `json:"how"`
}

type C18Ref struct {
	Chain string `json:"chain"`
	Idx   int    `json:"idx"`
}

type C18Beh struct {
	ID        int      `json:"id"`
	Phase     int      `json:"phase"`
	N         int      `json:"n"`
	Circuit   string   `json:"circuit"`
	Edit      C18Edit  `json:"edit"`
	Presented []C18Ref `json:"presented"`
	Verdict   string   `json:"verdict"`
}

type C18Res struct {
	ID      int    `json:"id"`
	Curve   string `json:"curve"`
	Outcome string `json:"outcome"` // accept | reject
	Stage   string `json:"stage"`   // where it was rejected: read | verify
	Err     string `json:"err,omitempty"`
	Keys    string `json:"keys,omitempty"` // ok | <problem>: accepted phase-2 transcripts must yield working keys
	Changed bool   `json:"changed"`        // the alteration really changed bytes
}

const (
	c18G1 = curve.SizeOfG1AffineCompressed
	c18G2 = curve.SizeOfG2AffineCompressed
)

type c18Fixture struct {
	once    sync.Once
	err     error
	ccs     map[string]*cs.R1CS
	N       map[string]uint64
	p1      map[string][][]byte            // chain -> serialized phase-1 contributions (for the domain of "plain")
	commons map[string]*mpcsetup.SrsCommons // circuit+chain -> phase-1 output
	p2      map[string][][]byte            // circuit|chain -> serialized phase-2 contributions (built on commons of chain A)
}

var c18Fix c18Fixture

func c18Ser(v io.WriterTo) []byte {
	var bb bytes.Buffer
	if _, err := v.WriteTo(&bb); err != nil {
		panic(err)
	}
	return bb.Bytes()
}

func c18Shape(circuit string) string {
	switch circuit {
	case "commit":
		return "c1p"
	case "commit2":
		return "c2"
	}
	return "p1"
}

func c18Build(maxN int) {
	f := &c18Fix
	f.ccs, f.N = map[string]*cs.R1CS{}, map[string]uint64{}
	f.p1, f.commons, f.p2 = map[string][][]byte{}, map[string]*mpcsetup.SrsCommons{}, map[string][][]byte{}
	for _, c := range []string{"plain", "commit", "commit2", "bigdomain", "other"} {
		shape := c18Shape(c)
		if c == "other" {
			shape = "p2u"
		}
		ccs, err := frontend.Compile(field(), r1cs.NewBuilder, circuits.NewShape(shape))
		if err != nil {
			f.err = err
			return
		}
		f.ccs[c] = ccs.(*cs.R1CS)
		f.N[c] = ecc.NextPowerOfTwo(uint64(ccs.GetNbConstraints()))
		if c == "bigdomain" { // a powers-of-tau run larger than this circuit needs
			f.N[c] *= 4
		}
	}
	chain1 := func(N uint64) [][]byte {
		var out [][]byte
		p := mpcsetup.NewPhase1(N)
		for i := 0; i < maxN; i++ {
			p.Contribute()
			out = append(out, c18Ser(p))
		}
		return out
	}
	read1 := func(bs [][]byte) ([]*mpcsetup.Phase1, error) {
		var out []*mpcsetup.Phase1
		for _, b := range bs {
			p := new(mpcsetup.Phase1)
			if _, err := p.ReadFrom(bytes.NewReader(b)); err != nil {
				return nil, err
			}
			out = append(out, p)
		}
		return out, nil
	}
	for _, c := range []string{"plain", "commit", "commit2", "bigdomain", "other"} {
		for _, ch := range []string{"A", "B"} {
			bs := chain1(f.N[c])
			if c == "plain" {
				f.p1[ch] = bs
			}
			objs, err := read1(bs)
			if err != nil {
				f.err = err
				return
			}
			commons, err := mpcsetup.VerifyPhase1(f.N[c], []byte("verif phase1"), objs...)
			if err != nil {
				f.err = fmt.Errorf("honest phase-1 chain rejected: %w", err)
				return
			}
			f.commons[c+"|"+ch] = &commons
		}
	}
	for _, c := range []string{"plain", "commit", "commit2", "bigdomain"} {
		for _, ch := range []string{"A", "B"} {
			var p mpcsetup.Phase2
			p.Initialize(f.ccs[c], f.commons[c+"|A"])
			var out [][]byte
			for i := 0; i < maxN; i++ {
				p.Contribute()
				out = append(out, c18Ser(&p))
			}
			f.p2[c+"|"+ch] = out
		}
	}
}

// c18Locate returns offset and kind (1: G1, 2: G2, 0: raw challenge bytes) of the element to alter.
func c18Locate(phase int, b []byte, comp, pos string) (off, kind, length int, err error) {
	pick := func(n int) int {
		switch pos {
		case "first", "only":
			return 0
		case "mid":
			return n / 2
		}
		return n - 1
	}
	if phase == 1 {
		o := 0
		proofs := map[string]int{}
		for _, pn := range []string{"proofTau", "proofAlpha", "proofBeta"} {
			proofs[pn+".g1"] = o
			o += c18G1
			proofs[pn+".g2"] = o
			o += c18G2
		}
		if x, ok := proofs[comp]; ok {
			if comp[len(comp)-1] == '1' {
				return x, 1, c18G1, nil
			}
			return x, 2, c18G2, nil
		}
		N := int(binary.BigEndian.Uint64(b[o:]))
		o += 8
		beta := o
		o += c18G2
		tau1 := o
		o += (2*N - 2) * c18G1
		tau2 := o
		o += (N - 1) * c18G2
		betaTau := o
		o += N * c18G1
		alphaTau := o
		o += N * c18G1
		switch comp {
		case "G2.Beta":
			return beta, 2, c18G2, nil
		case "G1.Tau":
			return tau1 + pick(2*N-2)*c18G1, 1, c18G1, nil
		case "G2.Tau":
			return tau2 + pick(N-1)*c18G2, 2, c18G2, nil
		case "G1.BetaTau":
			return betaTau + pick(N)*c18G1, 1, c18G1, nil
		case "G1.AlphaTau":
			return alphaTau + pick(N)*c18G1, 1, c18G1, nil
		case "challenge":
			return o + 1, 0, int(b[o]), nil
		}
		return 0, 0, 0, fmt.Errorf("unknown phase-1 component %q", comp)
	}
	o := 0
	nbCommit := int(binary.BigEndian.Uint16(b[o:]))
	o += 2
	delta1 := o
	o += c18G1
	slice := func() (start, n int) {
		n = int(binary.BigEndian.Uint32(b[o:]))
		o += 4
		start = o
		o += n * c18G1
		return
	}
	pkk, npkk := slice()
	z, nz := slice()
	delta2 := o
	o += c18G2
	var ckk, nckk int
	for i := 0; i < nbCommit; i++ {
		s, n := slice()
		if i == 0 {
			ckk, nckk = s, n
		}
	}
	sigma := o
	o += nbCommit * c18G2
	pDelta := o
	o += c18G1 + c18G2
	pSigma := o
	o += nbCommit * (c18G1 + c18G2)
	switch comp {
	case "G1.Delta":
		return delta1, 1, c18G1, nil
	case "G1.PKK":
		if npkk == 0 {
			return 0, 0, 0, fmt.Errorf("empty PKK")
		}
		return pkk + pick(npkk)*c18G1, 1, c18G1, nil
	case "G1.Z":
		return z + pick(nz)*c18G1, 1, c18G1, nil
	case "G2.Delta":
		return delta2, 2, c18G2, nil
	case "G1.SigmaCKK":
		if nckk == 0 {
			return 0, 0, 0, fmt.Errorf("empty SigmaCKK")
		}
		return ckk + pick(nckk)*c18G1, 1, c18G1, nil
	case "G2.Sigma":
		return sigma, 2, c18G2, nil
	case "proofDelta.g1":
		return pDelta, 1, c18G1, nil
	case "proofDelta.g2":
		return pDelta + c18G1, 2, c18G2, nil
	case "proofSigma.g1":
		return pSigma, 1, c18G1, nil
	case "proofSigma.g2":
		return pSigma + c18G1, 2, c18G2, nil
	case "challenge":
		return o + 1, 0, int(b[o]), nil
	}
	return 0, 0, 0, fmt.Errorf("unknown phase-2 component %q", comp)
}

// c18Alter replaces one serialized element by another valid encoding of a different point.
func c18Alter(phase int, orig []byte, e *C18Edit) ([]byte, error) {
	b := append([]byte(nil), orig...)
	off, kind, length, err := c18Locate(phase, b, e.Comp, e.Pos)
	if err != nil {
		return nil, err
	}
	if off+length > len(b) {
		return nil, fmt.Errorf("layout mismatch: %s at %d+%d beyond %d bytes", e.Comp, off, length, len(b))
	}
	old := append([]byte(nil), b[off:off+length]...)
	switch kind {
	case 0:
		b[off+length/2] ^= 0x10
	case 1:
		var p, q curve.G1Affine
		if _, err := p.SetBytes(old); err != nil {
			return nil, fmt.Errorf("layout mismatch: %s is not a G1 point: %v", e.Comp, err)
		}
		_, _, g, _ := curve.Generators()
		switch e.How {
		case "double":
			q.Double(&p)
		case "neg":
			q.Neg(&p)
		case "inf":
		}
		if q.Equal(&p) { // altering must alter
			q.Add(&p, &g)
		}
		nb := q.Bytes()
		copy(b[off:], nb[:])
	case 2:
		var p, q curve.G2Affine
		if _, err := p.SetBytes(old); err != nil {
			return nil, fmt.Errorf("layout mismatch: %s is not a G2 point: %v", e.Comp, err)
		}
		_, _, _, g := curve.Generators()
		switch e.How {
		case "double":
			q.Double(&p)
		case "neg":
			q.Neg(&p)
		case "inf":
		}
		if q.Equal(&p) {
			q.Add(&p, &g)
		}
		nb := q.Bytes()
		copy(b[off:], nb[:])
	}
	return b, nil
}

// c18Rebound is a dishonest phase-2 contributor: it rescales its predecessor (prev == nil: the initial state) by secrets
// it knows and proves knowledge of them, but under a challenge of its own choosing instead of the predecessor's hash.
func c18Rebound(ccs *cs.R1CS, commons *mpcsetup.SrsCommons, prev []byte) ([]byte, error) {
	var p mpcsetup.Phase2
	if prev == nil {
		p.Initialize(ccs, commons)
	} else if _, err := p.ReadFrom(bytes.NewReader(prev)); err != nil {
		return nil, err
	}
	h := sha256.Sum256([]byte("a transcript this contribution does not belong to"))
	p.Challenge = h[:]
	var delta fr.Element
	p.Delta = cmpc.UpdateValues(&delta, p.Challenge, mpcsetup.DST_DELTA)
	sigma := make([]fr.Element, len(p.Parameters.G1.SigmaCKK))
	p.Sigmas = make([]cmpc.UpdateProof, len(sigma))
	for i := range sigma {
		p.Sigmas[i] = cmpc.UpdateValues(&sigma[i], p.Challenge, mpcsetup.DST_SIGMA+byte(i))
	}
	var I big.Int
	scale := func(s []curve.G1Affine) {
		for i := range s {
			s[i].ScalarMultiplication(&s[i], &I)
		}
	}
	for i := range sigma {
		sigma[i].BigInt(&I)
		p.Parameters.G2.Sigma[i].ScalarMultiplication(&p.Parameters.G2.Sigma[i], &I)
		scale(p.Parameters.G1.SigmaCKK[i])
	}
	delta.BigInt(&I)
	p.Parameters.G2.Delta.ScalarMultiplication(&p.Parameters.G2.Delta, &I)
	p.Parameters.G1.Delta.ScalarMultiplication(&p.Parameters.G1.Delta, &I)
	delta.Inverse(&delta)
	delta.BigInt(&I)
	scale(p.Parameters.G1.Z)
	scale(p.Parameters.G1.PKK)
	return c18Ser(&p), nil
}

func c18Run(b *C18Beh) C18Res {
	res := C18Res{ID: b.ID, Curve: CurveName}
	f := &c18Fix
	src := func(r C18Ref) []byte {
		if b.Phase == 1 {
			return f.p1[r.Chain][r.Idx-1]
		}
		return f.p2[b.Circuit+"|"+r.Chain][r.Idx-1]
	}
	var blobs [][]byte
	for _, r := range b.Presented {
		blobs = append(blobs, src(r))
	}
	res.Changed = true
	if b.Edit.Kind == "alter" {
		nb, err := c18Alter(b.Phase, blobs[b.Edit.I-1], &b.Edit)
		if err != nil {
			res.Outcome, res.Err = "infra", err.Error()
			return res
		}
		res.Changed = !bytes.Equal(nb, blobs[b.Edit.I-1])
		blobs[b.Edit.I-1] = nb
	}
	if b.Edit.Kind == "rebound" {
		var prev []byte
		if b.Edit.I > 1 {
			prev = blobs[b.Edit.I-2]
		}
		nb, err := c18Rebound(f.ccs[b.Circuit], f.commons[b.Circuit+"|A"], prev)
		if err != nil {
			res.Outcome, res.Err = "infra", err.Error()
			return res
		}
		blobs[b.Edit.I-1] = nb
	}
	var verr error
	var pk groth16.ProvingKey
	var vk groth16.VerifyingKey
	pan, msg := common.Safely(func() {
		if b.Phase == 1 {
			var objs []*mpcsetup.Phase1
			for _, bl := range blobs {
				p := new(mpcsetup.Phase1)
				if n, err := p.ReadFrom(bytes.NewReader(bl)); err != nil || int(n) != len(bl) {
					res.Stage = "read"
					verr = fmt.Errorf("read: %v (n=%d of %d)", err, n, len(bl))
					return
				}
				objs = append(objs, p)
			}
			res.Stage = "verify"
			_, verr = mpcsetup.VerifyPhase1(f.N["plain"], []byte("verif phase1"), objs...)
			return
		}
		var objs []*mpcsetup.Phase2
		for _, bl := range blobs {
			p := new(mpcsetup.Phase2)
			if n, err := p.ReadFrom(bytes.NewReader(bl)); err != nil || int(n) != len(bl) {
				res.Stage = "read"
				verr = fmt.Errorf("read: %v (n=%d of %d)", err, n, len(bl))
				return
			}
			objs = append(objs, p)
		}
		res.Stage = "verify"
		ccs, commons := f.ccs[b.Circuit], f.commons[b.Circuit+"|A"]
		switch b.Edit.Kind {
		case "otherPhase1":
			commons = f.commons[b.Circuit+"|B"]
		case "otherCircuit":
			ccs, commons = f.ccs["other"], f.commons["other|A"]
		}
		pk, vk, verr = mpcsetup.VerifyPhase2(ccs, commons, []byte("verif phase2"), objs...)
	})
	switch {
	case pan:
		res.Outcome, res.Err = "panic", msg
	case verr != nil:
		res.Outcome, res.Err = "reject", firstLineOf(verr.Error())
	default:
		res.Outcome = "accept"
	}
	if res.Outcome == "accept" && b.Phase == 2 && b.Edit.Kind != "otherCircuit" {
		res.Keys = "ok"
		pan, msg := common.Safely(func() {
			w, err := frontend.NewWitness(circuits.AssignShape(c18Shape(b.Circuit), b.ID%3), field())
			if err != nil {
				res.Keys = "witness: " + err.Error()
				return
			}
			proof, err := groth16.Prove(f.ccs[b.Circuit], pk, w)
			if err != nil {
				res.Keys = "prove: " + firstLineOf(err.Error())
				return
			}
			pub, _ := w.Public()
			if err := groth16.Verify(proof, vk, pub); err != nil {
				res.Keys = "verify: " + firstLineOf(err.Error())
				return
			}
			// and the keys must not verify a wrong statement
			w2, _ := frontend.NewWitness(circuits.AssignShape(c18Shape(b.Circuit), (b.ID+1)%3), field())
			pub2, _ := w2.Public()
			if err := groth16.Verify(proof, vk, pub2); err == nil {
				res.Keys = "the extracted verifying key accepts a proof for other public inputs"
			}
		})
		if pan {
			res.Keys = "panic: " + msg
		}
	}
	return res
}

func c18Replay(args common.Args, out *common.Out) error {
	behs, err := common.ReadNDJSON[C18Beh](args.Get("in", ""))
	if err != nil {
		return err
	}
	hookMu.RLock()
	defer hookMu.RUnlock()
	c18Fix.once.Do(func() {
		pan, msg := common.Safely(func() { c18Build(3) })
		if pan {
			c18Fix.err = fmt.Errorf("panic: %s", msg)
		}
	})
	if c18Fix.err != nil {
		return fmt.Errorf("building the honest transcripts: %w", c18Fix.err)
	}
	common.ParallelFor(len(behs), args.Int("par", 8), func(i int) {
		out.Emit(c18Run(&behs[i]))
	})
	return nil
}
