package c_bn254

import (
	"fmt"
	"math/big"
	"sync"

	"github.com/consensys/gnark/backend"
	"github.com/consensys/gnark/backend/groth16"
	"github.com/consensys/gnark/backend/plonk"
	"github.com/consensys/gnark/constraint"
	"github.com/consensys/gnark/constraint/solver"
	"github.com/consensys/gnark/frontend"
	"github.com/consensys/gnark/frontend/cs/r1cs"
	"github.com/consensys/gnark/frontend/cs/scs"
	"github.com/consensys/gnark/std/lookup/logderivlookup"
	"github.com/consensys/gnark/std/rangecheck"
	"github.com/consensys/gnark/test/unsafekzg"

	"verifharness/common"
	"verifharness/generic"
)

// RangeMix range-checks S[k] to Widths[k] bits.
type RangeMix struct {
	P      frontend.Variable `gnark:",public"`
	S      []frontend.Variable
	Widths []int `gnark:"-"`
	Same   bool  `gnark:"-"` // every width is checked on S[0]
}

func (c *RangeMix) Define(api frontend.API) error {
	rc := rangecheck.New(api)
	for k := range c.Widths {
		if c.Same {
			rc.Check(c.S[0], c.Widths[k])
		} else {
			rc.Check(c.S[k], c.Widths[k])
		}
	}
	api.AssertIsEqual(c.P, 7)
	return nil
}

type C13Beh struct {
	ID       int    `json:"id"`
	Builder  string `json:"builder"`
	Mode     string `json:"mode"`
	Min      int    `json:"min"`
	Max      int    `json:"max"`
	Mix      []int  `json:"mix"`
	Var      int    `json:"var"`
	Class    string `json:"class"`
	Expected string `json:"expected"`
	Base     int    `json:"base"`
	NbLimbs  int    `json:"nbLimbs"`
	Shift    int    `json:"shift"`
}

type C13Res struct {
	ID       int    `json:"id"`
	Curve    string `json:"curve"`
	Outcome  string `json:"outcome"` // accept | reject | skip | panic
	Err      string `json:"err,omitempty"`
	ObsBase  int    `json:"obs_base"`
	ObsLimbs int    `json:"obs_limbs"`
}

type c13Keys struct {
	ccs   constraint.ConstraintSystem
	g16pk groth16.ProvingKey
	g16vk groth16.VerifyingKey
	plpk  plonk.ProvingKey
	plvk  plonk.VerifyingKey
	err   error
	mu    sync.Mutex
}

var (
	c13Mu   sync.Mutex
	c13Keyz = map[string]*c13Keys{}
)

func c13Get(builder string, mix []int, same bool) *c13Keys {
	c13Mu.Lock()
	defer c13Mu.Unlock()
	k := fmt.Sprint(builder, mix, same)
	if v, ok := c13Keyz[k]; ok {
		return v
	}
	v := &c13Keys{}
	c13Keyz[k] = v
	circ := &RangeMix{S: make([]frontend.Variable, len(mix)), Widths: mix, Same: same}
	if same {
		circ.S = make([]frontend.Variable, 1)
	}
	if builder == "r1cs" {
		v.ccs, v.err = frontend.Compile(field(), r1cs.NewBuilder, circ)
		if v.err == nil {
			v.g16pk, v.g16vk, v.err = groth16.Setup(v.ccs)
		}
	} else {
		v.ccs, v.err = frontend.Compile(field(), scs.NewBuilder, circ)
		if v.err == nil {
			srs, srsL, err := unsafekzg.NewSRS(v.ccs, unsafekzg.WithToxicValue(big.NewInt(1313)))
			if err != nil {
				v.err = err
				return v
			}
			v.plpk, v.plvk, v.err = plonk.Setup(v.ccs, srs, srsL)
		}
	}
	return v
}

func c13Run(b *C13Beh) C13Res {
	res := C13Res{ID: b.ID, Curve: CurveName}
	if b.Mode == "same" {
		return c13RunSame(b)
	}
	keys := c13Get(b.Builder, b.Mix, false)
	if keys.err != nil {
		res.Outcome, res.Err = "setup-error", keys.err.Error()
		return res
	}
	keys.mu.Lock()
	defer keys.mu.Unlock()
	one := big.NewInt(1)
	vals := make([]*big.Int, len(b.Mix))
	for k, w := range b.Mix {
		vals[k] = new(big.Int).Sub(new(big.Int).Lsh(one, uint(w)), big.NewInt(int64(1+k%2))) // in range
		if vals[k].Sign() < 0 {
			vals[k].SetInt64(0)
		}
	}
	bits := b.Mix[b.Var-1]
	target := vals[b.Var-1]
	switch b.Class {
	case "honest-in":
		target.SetInt64(1)
	case "honest-max":
		target.Sub(new(big.Int).Lsh(one, uint(bits)), one)
	case "honest-out":
		target.Lsh(one, uint(bits))
	case "limb-overflow":
		target.Add(new(big.Int).Lsh(one, uint(bits)), big.NewInt(5))
	case "limb-shift", "bad-multiplicity":
		target.Sub(new(big.Int).Lsh(one, uint(bits)), one)
	}
	if b.Class == "limb-shift" && b.NbLimbs < 2 {
		res.Outcome = "skip"
		return res
	}
	assign := &RangeMix{P: 7, S: make([]frontend.Variable, len(b.Mix)), Widths: b.Mix}
	for k := range vals {
		assign.S[k] = vals[k]
	}
	w, err := frontend.NewWitness(assign, field())
	if err != nil {
		res.Outcome, res.Err = "setup-error", err.Error()
		return res
	}
	pub, _ := w.Public()
	// hint wrappers
	decompose := func(m *big.Int, in, out []*big.Int) error {
		if err := rangecheck.DecomposeHint(m, in, out); err != nil {
			return err
		}
		if in[2].Cmp(target) != 0 || int(in[0].Int64()) != bits {
			return nil
		}
		res.ObsBase, res.ObsLimbs = int(in[1].Int64()), len(out)
		base := uint(in[1].Int64())
		switch b.Class {
		case "limb-overflow":
			// the top limb absorbs everything above the lower limbs, so that the recomposition still gives the value
			out[len(out)-1].Rsh(in[2], base*uint(len(out)-1))
		case "limb-shift":
			out[0].Add(out[0], new(big.Int).Lsh(one, base))
			out[1].Sub(out[1], one)
			out[1].Mod(out[1], m)
		}
		return nil
	}
	opts := []solver.Option{solver.OverrideHint(solver.GetHintID(rangecheck.DecomposeHint), decompose)}
	if b.Class == "limb-overflow" || b.Class == "limb-shift" || b.Class == "bad-multiplicity" {
		count := generic.LogderivCountHint()
		lenient := func(m *big.Int, in, out []*big.Int) error {
			// multiplicities of the queries that ARE in the table (others silently ignored), optionally off by one
			nbTable, nbRow := int(in[0].Int64()), int(in[1].Int64())
			if nbRow != 1 {
				return count(m, in, out)
			}
			table := in[2 : 2+nbTable]
			idx := map[string]int{}
			for i, t := range table {
				idx[t.String()] = i
			}
			for i := range out {
				out[i].SetInt64(0)
			}
			for _, q := range in[2+nbTable:] {
				if i, ok := idx[q.String()]; ok {
					out[i].Add(out[i], one)
				}
			}
			if b.Class == "bad-multiplicity" {
				out[0].Add(out[0], one)
			}
			return nil
		}
		opts = append(opts, solver.OverrideHint(solver.GetHintID(count), lenient))
	}
	var perr, verr error
	pan, msg := common.Safely(func() {
		if b.Builder == "r1cs" {
			var p groth16.Proof
			p, perr = groth16.Prove(keys.ccs, keys.g16pk, w, backend.WithSolverOptions(opts...))
			if perr == nil {
				verr = groth16.Verify(p, keys.g16vk, pub)
			}
		} else {
			var p plonk.Proof
			p, perr = plonk.Prove(keys.ccs, keys.plpk, w, backend.WithSolverOptions(opts...))
			if perr == nil {
				verr = plonk.Verify(p, keys.plvk, pub)
			}
		}
	})
	switch {
	case pan:
		res.Outcome, res.Err = "panic", msg
	case perr != nil:
		res.Outcome, res.Err = "reject", firstLineOf(perr.Error())
	case verr != nil:
		res.Outcome, res.Err = "reject", "verify: "+verr.Error()
	default:
		res.Outcome = "accept"
	}
	return res
}

// c13RunSame: one variable checked at every width of the mix, honest prover.
func c13RunSame(b *C13Beh) C13Res {
	res := C13Res{ID: b.ID, Curve: CurveName}
	keys := c13Get(b.Builder, b.Mix, true)
	if keys.err != nil {
		res.Outcome, res.Err = "setup-error", keys.err.Error()
		return res
	}
	keys.mu.Lock()
	defer keys.mu.Unlock()
	one := big.NewInt(1)
	v := new(big.Int)
	switch b.Class {
	case "honest-in":
		v.SetInt64(1)
	case "honest-max":
		v.Sub(new(big.Int).Lsh(one, uint(b.Min)), one)
	case "honest-out":
		v.Lsh(one, uint(b.Min))
	case "honest-between":
		v.Sub(new(big.Int).Lsh(one, uint(b.Max)), one)
	}
	assign := &RangeMix{P: 7, S: []frontend.Variable{v}}
	w, err := frontend.NewWitness(assign, field())
	if err != nil {
		res.Outcome, res.Err = "setup-error", err.Error()
		return res
	}
	pub, _ := w.Public()
	var perr, verr error
	pan, msg := common.Safely(func() {
		if b.Builder == "r1cs" {
			var p groth16.Proof
			p, perr = groth16.Prove(keys.ccs, keys.g16pk, w)
			if perr == nil {
				verr = groth16.Verify(p, keys.g16vk, pub)
			}
		} else {
			var p plonk.Proof
			p, perr = plonk.Prove(keys.ccs, keys.plpk, w)
			if perr == nil {
				verr = plonk.Verify(p, keys.plvk, pub)
			}
		}
	})
	switch {
	case pan:
		res.Outcome, res.Err = "panic", msg
	case perr != nil:
		res.Outcome, res.Err = "reject", firstLineOf(perr.Error())
	case verr != nil:
		res.Outcome, res.Err = "reject", "verify: "+verr.Error()
	default:
		res.Outcome = "accept"
	}
	return res
}

func c13Replay(args common.Args, out *common.Out) error {
	behs, err := common.ReadNDJSON[C13Beh](args.Get("in", ""))
	if err != nil {
		return err
	}
	hookMu.RLock()
	defer hookMu.RUnlock()
	common.ParallelFor(len(behs), args.Int("par", 8), func(i int) {
		out.Emit(c13Run(&behs[i]))
	})
	return nil
}

// ---- lookup tables: the entry stored at the queried index, nothing else ----

type LookupCircuit struct {
	Entries []frontend.Variable
	Idx     []frontend.Variable
	Want    []frontend.Variable `gnark:",public"`
}

func (c *LookupCircuit) Define(api frontend.API) error {
	t := logderivlookup.New(api)
	for _, e := range c.Entries {
		t.Insert(e)
	}
	r := t.Lookup(c.Idx...)
	for i := range r {
		api.AssertIsEqual(r[i], c.Want[i])
	}
	return nil
}

type C13Lookup struct {
	Curve   string `json:"curve"`
	Case    string `json:"case"`
	Builder string `json:"builder"`
	Outcome string `json:"outcome"`
	Want    string `json:"want"`
	Err     string `json:"err,omitempty"`
}

func c13Lookup(args common.Args, out *common.Out) error {
	hookMu.RLock()
	defer hookMu.RUnlock()
	for _, builder := range []string{"r1cs", "scs"} {
		for _, size := range []int{1, 2, 5, 8} {
			nq := 4
			circ := &LookupCircuit{Entries: make([]frontend.Variable, size), Idx: make([]frontend.Variable, nq), Want: make([]frontend.Variable, nq)}
			var ccs constraint.ConstraintSystem
			var err error
			var g16pk groth16.ProvingKey
			var g16vk groth16.VerifyingKey
			var plpk plonk.ProvingKey
			var plvk plonk.VerifyingKey
			if builder == "r1cs" {
				ccs, err = frontend.Compile(field(), r1cs.NewBuilder, circ)
				if err == nil {
					g16pk, g16vk, err = groth16.Setup(ccs)
				}
			} else {
				ccs, err = frontend.Compile(field(), scs.NewBuilder, circ)
				if err == nil {
					srs, srsL, e := unsafekzg.NewSRS(ccs, unsafekzg.WithToxicValue(big.NewInt(1414)))
					if e != nil {
						return e
					}
					plpk, plvk, err = plonk.Setup(ccs, srs, srsL)
				}
			}
			if err != nil {
				return fmt.Errorf("lookup circuit size %d: %w", size, err)
			}
			entry := func(i int) int { return 100 + 7*i }
			cases := []struct {
				name string
				idx  []int
				want []int
				exp  string
			}{
				{"all-indices", []int{0, size - 1, size / 2, 0}, nil, "accept"},
				{"repeated", []int{size - 1, size - 1, size - 1, size - 1}, nil, "accept"},
				{"index=size", []int{0, size, 0, 0}, nil, "reject"},
				{"index=size+3", []int{size + 3, 0, 0, 0}, nil, "reject"},
				{"index=-1", []int{-1, 0, 0, 0}, nil, "reject"},
				{"wrong-entry", []int{0, size - 1, 0, 0}, []int{entry(0), entry(size-1) + 1, entry(0), entry(0)}, "reject"},
			}
			if size > 1 {
				cases = append(cases, struct {
					name string
					idx  []int
					want []int
					exp  string
				}{"neighbour-entry", []int{0, 0, 0, 0}, []int{entry(1), entry(0), entry(0), entry(0)}, "reject"})
			}
			for _, c := range cases {
				a := &LookupCircuit{Entries: make([]frontend.Variable, size), Idx: make([]frontend.Variable, nq), Want: make([]frontend.Variable, nq)}
				for i := range a.Entries {
					a.Entries[i] = entry(i)
				}
				for i := range a.Idx {
					a.Idx[i] = c.idx[i]
					if c.want != nil {
						a.Want[i] = c.want[i]
					} else if c.idx[i] >= 0 && c.idx[i] < size {
						a.Want[i] = entry(c.idx[i])
					} else {
						a.Want[i] = 0
					}
				}
				w, err := frontend.NewWitness(a, field())
				if err != nil {
					return err
				}
				pub, _ := w.Public()
				r := C13Lookup{Curve: CurveName, Case: fmt.Sprintf("size=%d %s", size, c.name), Builder: builder, Want: c.exp}
				var perr, verr error
				pan, msg := common.Safely(func() {
					if builder == "r1cs" {
						var p groth16.Proof
						if p, perr = groth16.Prove(ccs, g16pk, w); perr == nil {
							verr = groth16.Verify(p, g16vk, pub)
						}
					} else {
						var p plonk.Proof
						if p, perr = plonk.Prove(ccs, plpk, w); perr == nil {
							verr = plonk.Verify(p, plvk, pub)
						}
					}
				})
				switch {
				case pan:
					r.Outcome, r.Err = "panic", msg
				case perr != nil:
					r.Outcome, r.Err = "reject", firstLineOf(perr.Error())
				case verr != nil:
					r.Outcome, r.Err = "reject", verr.Error()
				default:
					r.Outcome = "accept"
				}
				out.Emit(r)
			}
		}
	}
	return nil
}
