package c_bn254

import (
	"bytes"
	"encoding/binary"
	"fmt"

	curve "github.com/consensys/gnark-crypto/ecc/bn254"
	"github.com/consensys/gnark-crypto/ecc/bn254/fr"
	"github.com/consensys/gnark/backend/groth16"
	"github.com/consensys/gnark/backend/plonk"
	"github.com/consensys/gnark/backend/witness"

	"verifharness/common"
)

type fAtom struct {
	K  string `json:"k"`
	Of string `json:"of,omitempty"`
	N  int    `json:"n,omitempty"`
}

type fMut struct {
	Kind  string `json:"kind"`
	Atom  int    `json:"atom,omitempty"`
	Where string `json:"where,omitempty"`
	Cls   string `json:"cls,omitempty"`
	N     int    `json:"n,omitempty"`
}

type FramingBeh struct {
	ID        int     `json:"id"`
	Artifact  string  `json:"artifact"`
	Shape     string  `json:"shape"`
	Enc       string  `json:"enc"`
	Mut       fMut    `json:"mut"`
	Atoms     []fAtom `json:"atoms"`
	Predicted string  `json:"predicted"`
}

type FramingRes struct {
	ID         int    `json:"id"`
	Curve      string `json:"curve"`
	Decode     string `json:"decode"` // ok | error | panic | layout-mismatch | setup-error
	Same       bool   `json:"same"`   // decoded object re-encodes to the genuine bytes
	Consistent bool   `json:"consistent"`
	Verify     string `json:"verify"` // accept | reject | panic | ""
	Err        string `json:"err,omitempty"`
	Note       string `json:"note,omitempty"`
	BytesRead  int64  `json:"bytes_read"`
	InputLen   int    `json:"input_len"`
}

func atomSize(k string, raw bool) int {
	switch k {
	case "G1":
		if raw {
			return curve.SizeOfG1AffineUncompressed
		}
		return curve.SizeOfG1AffineCompressed
	case "G2":
		if raw {
			return curve.SizeOfG2AffineUncompressed
		}
		return curve.SizeOfG2AffineCompressed
	case "Fr":
		return fr.Bytes
	case "Len", "U32":
		return 4
	}
	panic("bad atom " + k)
}

func lenClass(cls string, genuine uint32) uint32 {
	switch cls {
	case "zero":
		return 0
	case "minus1":
		return genuine - 1
	case "plus1":
		return genuine + 1
	case "plus2":
		return genuine + 2
	case "big":
		return 1 << 20
	case "huge":
		return 0x7fffffff
	case "max":
		return 0xffffffff
	}
	panic("bad len class " + cls)
}

// framingRun applies one framing mutation to a real encoding and decodes / verifies it.
func framingRun(b *FramingBeh) FramingRes {
	res := FramingRes{ID: b.ID, Curve: CurveName}
	raw := b.Enc == "raw"
	var genuine []byte
	var g16f *g16Fixture
	var plf *plonkFixture
	switch b.Artifact {
	case "g16proof", "witness":
		g16f = g16GetFixture(b.Shape)
		if g16f.setupErr != nil {
			res.Decode, res.Err = "setup-error", g16f.setupErr.Error()
			return res
		}
	case "plonkproof":
		plf = plonkGetFixture(b.Shape)
		if plf.setupErr != nil {
			res.Decode, res.Err = "setup-error", plf.setupErr.Error()
			return res
		}
	}
	var buf bytes.Buffer
	switch b.Artifact {
	case "g16proof":
		if raw {
			g16f.proof.WriteRawTo(&buf)
		} else {
			g16f.proof.WriteTo(&buf)
		}
	case "plonkproof":
		if raw {
			plf.proof.WriteRawTo(&buf)
		} else {
			plf.proof.WriteTo(&buf)
		}
	case "witness":
		g16f.pub0.WriteTo(&buf)
	}
	genuine = buf.Bytes()
	// layout conformance: atoms must tile the real encoding exactly
	offs := make([]int, len(b.Atoms)+1)
	for i, a := range b.Atoms {
		offs[i+1] = offs[i] + atomSize(a.K, raw)
	}
	if offs[len(b.Atoms)] != len(genuine) {
		res.Decode = "layout-mismatch"
		res.Err = fmt.Sprintf("model layout %d bytes, real encoding %d bytes", offs[len(b.Atoms)], len(genuine))
		return res
	}
	for i, a := range b.Atoms {
		if a.K == "Len" || a.K == "U32" {
			got := binary.BigEndian.Uint32(genuine[offs[i]:])
			if int(got) != a.N {
				res.Decode = "layout-mismatch"
				res.Err = fmt.Sprintf("atom %d: model says %d, encoding holds %d", i+1, a.N, got)
				return res
			}
		}
	}
	mutated := append([]byte(nil), genuine...)
	m := b.Mut
	switch m.Kind {
	case "none":
	case "empty":
		mutated = mutated[:0]
	case "trunc":
		cut := offs[m.Atom-1]
		if m.Where == "inside" {
			cut += atomSize(b.Atoms[m.Atom-1].K, raw) / 2
			if cut == offs[m.Atom-1] {
				cut++
			}
		}
		mutated = mutated[:cut]
	case "setlen", "sethdr":
		o := offs[m.Atom-1]
		g := binary.BigEndian.Uint32(mutated[o:])
		binary.BigEndian.PutUint32(mutated[o:], lenClass(m.Cls, g))
	case "wraphdr":
		binary.BigEndian.PutUint32(mutated[0:], binary.BigEndian.Uint32(mutated[0:])+0x80000000)
		binary.BigEndian.PutUint32(mutated[4:], binary.BigEndian.Uint32(mutated[4:])+0x80000000)
	case "trail":
		for i := 0; i < m.N; i++ {
			mutated = append(mutated, byte(0xA5+i))
		}
	case "flip":
		o := offs[m.Atom-1]
		if m.Where == "last" {
			o = offs[m.Atom] - 1
			mutated[o] ^= 0x01
		} else {
			mutated[o] ^= 0x10
		}
	default:
		panic("bad mutation " + m.Kind)
	}
	res.InputLen = len(mutated)
	// decode
	var derr error
	var n int64
	var decG16 groth16.Proof
	var decPl plonk.Proof
	var decW witness.Witness
	pan, msg := common.Safely(func() {
		switch b.Artifact {
		case "g16proof":
			decG16 = groth16.NewProof(CurveID)
			n, derr = decG16.ReadFrom(bytes.NewReader(mutated))
		case "plonkproof":
			decPl = plonk.NewProof(CurveID)
			n, derr = decPl.ReadFrom(bytes.NewReader(mutated))
		case "witness":
			decW, _ = witness.New(field())
			if m.Kind == "trail" || m.N == 64 {
				n, derr = decW.ReadFrom(bytes.NewReader(mutated))
			} else {
				derr = decW.UnmarshalBinary(mutated)
				n = -1
			}
		}
	})
	res.BytesRead = n
	if pan {
		res.Decode, res.Err = "panic", msg
		return res
	}
	if derr != nil {
		res.Decode, res.Err = "error", derr.Error()
		return res
	}
	res.Decode = "ok"
	if n > int64(len(mutated)) {
		res.Note = fmt.Sprintf("ReadFrom reported %d bytes read from a %d byte input", n, len(mutated))
	}
	// re-encode, compare, verify
	var re bytes.Buffer
	var verr error
	pan, msg = common.Safely(func() {
		switch b.Artifact {
		case "g16proof":
			if raw {
				decG16.WriteRawTo(&re)
			} else {
				decG16.WriteTo(&re)
			}
			res.Consistent = true
			verr = groth16.Verify(decG16, g16f.vk, g16f.pub0)
		case "plonkproof":
			if raw {
				decPl.WriteRawTo(&re)
			} else {
				decPl.WriteTo(&re)
			}
			res.Consistent = true
			pw, _ := witnessFromVector(plf.pubVec0)
			verr = plonk.Verify(decPl, plf.vk, pw)
		case "witness":
			decW.WriteTo(&re)
			rb := re.Bytes()
			if len(rb) >= 12 {
				np := binary.BigEndian.Uint32(rb[0:])
				ns := binary.BigEndian.Uint32(rb[4:])
				vl := binary.BigEndian.Uint32(rb[8:])
				res.Consistent = uint64(np)+uint64(ns) == uint64(vl) && bytes.Equal(rb[:8], mutated[:8])
				if !res.Consistent {
					res.Note = fmt.Sprintf("decoded witness: header nbPublic=%d nbSecret=%d, vector length %d", np, ns, vl)
				}
			}
			verr = groth16.Verify(g16f.proof, g16f.vk, decW)
		}
	})
	res.Same = bytes.Equal(re.Bytes(), genuine)
	switch {
	case pan:
		res.Verify, res.Err = "panic", msg
	case verr == nil:
		res.Verify = "accept"
	default:
		res.Verify, res.Err = "reject", verr.Error()
	}
	return res
}

func framingCmd(args common.Args, out *common.Out) error {
	behs, err := common.ReadNDJSON[FramingBeh](args.Get("in", ""))
	if err != nil {
		return err
	}
	common.ParallelFor(len(behs), args.Int("par", 8), func(i int) {
		out.Emit(framingRun(&behs[i]))
	})
	return nil
}
