package c_bn254

import (
	"fmt"
	"strings"

	"github.com/consensys/gnark/constraint"
	cs "github.com/consensys/gnark/constraint/bn254"
	"github.com/consensys/gnark/constraint/solver"
	"github.com/consensys/gnark/frontend"
	"github.com/consensys/gnark/frontend/cs/r1cs"
	"github.com/consensys/gnark/std/lookup/logderivlookup"
	"github.com/consensys/gnark/std/rangecheck"

	"verifharness/common"
)

// ---- C13 binding: which wires enter the commitment the log-derivative challenge is derived from ----

type BindBeh struct {
	Config string   `json:"config"`
	Needed []string `json:"needed"`
}

type BindGroup struct {
	Wires     int `json:"wires"`
	Committed int `json:"committed"`
}

type BindRes struct {
	Curve       string               `json:"curve"`
	Config      string               `json:"config"`
	Variant     string               `json:"variant"`
	Groups      map[string]BindGroup `json:"groups"`
	NbCommitted int                  `json:"nb_committed"`
	Err         string               `json:"err,omitempty"`
}

// BindLookup: a table of constant or variable entries queried at the given positions of Idx (positions may repeat).
type BindLookup struct {
	Want    []frontend.Variable `gnark:",public"`
	Entries []frontend.Variable
	Idx     []frontend.Variable
	Const   bool  `gnark:"-"`
	Use     []int `gnark:"-"` // query k uses Idx[Use[k]]
	OneCall bool  `gnark:"-"`
}

func (c *BindLookup) Define(api frontend.API) error {
	t := logderivlookup.New(api)
	for i, e := range c.Entries {
		if c.Const {
			t.Insert(100 + 7*i)
			api.AssertIsEqual(e, 100+7*i)
		} else {
			t.Insert(e)
		}
	}
	var res []frontend.Variable
	if c.OneCall {
		q := make([]frontend.Variable, len(c.Use))
		for k, u := range c.Use {
			q[k] = c.Idx[u]
		}
		res = t.Lookup(q...)
	} else {
		for _, u := range c.Use {
			res = append(res, t.Lookup(c.Idx[u])[0])
		}
	}
	for k := range res {
		api.AssertIsEqual(res[k], c.Want[k])
	}
	// keep unused index inputs constrained
	for i := range c.Idx {
		api.AssertIsDifferent(c.Idx[i], 1000)
	}
	return nil
}

type BindRange struct {
	P      frontend.Variable `gnark:",public"`
	S      []frontend.Variable
	Widths []int `gnark:"-"`
}

func (c *BindRange) Define(api frontend.API) error {
	rc := rangecheck.New(api)
	for k := range c.S {
		rc.Check(c.S[k], c.Widths[k])
	}
	api.AssertIsEqual(c.P, 7)
	return nil
}

func bindExtract(circuit frontend.Circuit, groups map[string][]int) (map[string]BindGroup, int, error) {
	ccs, err := frontend.Compile(field(), r1cs.NewBuilder, circuit)
	if err != nil {
		return nil, 0, err
	}
	sys := ccs.(*cs.R1CS)
	committed := map[int]bool{}
	for _, c := range sys.CommitmentInfo.(constraint.Groth16Commitments) {
		for _, w := range c.PublicAndCommitmentCommitted {
			committed[w] = true
		}
		for _, w := range c.PrivateCommitted {
			committed[w] = true
		}
	}
	names := map[solver.HintID]string{}
	for _, h := range solver.GetRegisteredHints() {
		names[solver.GetHintID(h)] = solver.GetHintName(h)
	}
	for i := 0; i < sys.GetNbInstructions(); i++ {
		pi := sys.Instructions[i]
		inst := pi.Unpack(&sys.System)
		switch bp := sys.Blueprints[pi.BlueprintID].(type) {
		case *constraint.BlueprintGenericHint:
			var hm constraint.HintMapping
			bp.DecompressHint(&hm, inst)
			n := names[hm.HintID]
			g := ""
			switch {
			case strings.HasSuffix(n, "logderivarg.countHint"):
				g = "mult"
			case strings.HasSuffix(n, "rangecheck.DecomposeHint"):
				g = "limbs"
			}
			if g != "" {
				for w := hm.OutputRange.Start; w < hm.OutputRange.End; w++ {
					groups[g] = append(groups[g], int(w))
				}
			}
		case *constraint.BlueprintLookupHint[constraint.U64]:
			for k := 0; k < int(inst.Calldata[2]); k++ {
				groups["result"] = append(groups["result"], int(inst.WireOffset)+k)
			}
		}
	}
	out := map[string]BindGroup{}
	for g, ws := range groups {
		bg := BindGroup{Wires: len(ws)}
		for _, w := range ws {
			if committed[w] {
				bg.Committed++
			}
		}
		out[g] = bg
	}
	return out, len(committed), nil
}

func c13Bind(args common.Args, out *common.Out) error {
	behs, err := common.ReadNDJSON[BindBeh](args.Get("in", ""))
	if err != nil {
		return err
	}
	seq := func(from, n int) []int {
		r := make([]int, n)
		for i := range r {
			r[i] = from + i
		}
		return r
	}
	for _, b := range behs {
		type variant struct {
			name    string
			circuit frontend.Circuit
			groups  map[string][]int
		}
		var vs []variant
		switch b.Config {
		case "range":
			for _, mix := range [][]int{{5}, {7, 13, 3}, {64, 64, 3}, {16, 16, 16, 16}} {
				vs = append(vs, variant{fmt.Sprint("widths=", mix), &BindRange{S: make([]frontend.Variable, len(mix)), Widths: mix}, map[string][]int{}})
			}
		case "lookup-const", "lookup-var", "lookup-var-repeat":
			for _, size := range []int{2, 5} {
				for _, one := range []bool{true, false} {
					use := []int{0, 1, 2}
					if b.Config == "lookup-var-repeat" {
						use = []int{0, 1, 0, 0}
					}
					nq, nidx := len(use), 3
					// wire ids: 0 = ONE, then public (Want), then secret (Entries, Idx)
					g := map[string][]int{"index": nil}
					for _, u := range use {
						g["index"] = append(g["index"], 1+nq+size+u)
					}
					if b.Config != "lookup-const" {
						g["table"] = seq(1+nq, size)
					}
					c := &BindLookup{Want: make([]frontend.Variable, nq), Entries: make([]frontend.Variable, size), Idx: make([]frontend.Variable, nidx),
						Const: b.Config == "lookup-const", Use: use, OneCall: one}
					vs = append(vs, variant{fmt.Sprintf("size=%d queries=%v onecall=%v", size, use, one), c, g})
				}
			}
		default:
			return fmt.Errorf("unknown binding config %q", b.Config)
		}
		for _, v := range vs {
			r := BindRes{Curve: CurveName, Config: b.Config, Variant: v.name}
			var e error
			pan, msg := common.Safely(func() { r.Groups, r.NbCommitted, e = bindExtract(v.circuit, v.groups) })
			if pan {
				r.Err = "panic: " + msg
			} else if e != nil {
				r.Err = e.Error()
			}
			out.Emit(r)
		}
	}
	return nil
}
