package c_bn254

import (
	"bytes"
	"fmt"
	"io"
	"math/big"
	"sync"

	"github.com/consensys/gnark/backend/groth16"
	"github.com/consensys/gnark/backend/plonk"
	"github.com/consensys/gnark/backend/witness"
	"github.com/consensys/gnark/constraint"
	"github.com/consensys/gnark/frontend"
	"github.com/consensys/gnark/frontend/cs/r1cs"
	"github.com/consensys/gnark/frontend/cs/scs"
	"github.com/consensys/gnark/frontend/schema"
	gnarkio "github.com/consensys/gnark/io"
	"github.com/consensys/gnark/test/unsafekzg"
	"github.com/consensys/gnark/verifhook"

	"verifharness/common"
	"verifharness/generic"
)

type C09Beh struct {
	ID      int    `json:"id"`
	Backend string `json:"backend"`
	Circuit string `json:"circuit"`
	CS      string `json:"cs"`
	PK      string `json:"pk"`
	VK      string `json:"vk"`
	Proof   string `json:"proof"`
	Wit     string `json:"wit"`
}

type C09Res struct {
	ID       int      `json:"id"`
	Curve    string   `json:"curve"`
	Problems []string `json:"problems"`
}

type c09Ref struct {
	keys      *c03Keys
	full, pub witness.Witness
	assign    frontend.Circuit
	solDigest string
	g16proof  groth16.Proof
	plproof   plonk.Proof
	err       error
	mu        sync.Mutex
}

var (
	c09Mu   sync.Mutex
	c09Refs = map[string]*c09Ref{}
)

func solDigestOf(sol any) string {
	s, err := generic.ReadSolution(sol)
	if err != nil {
		return "ERR " + err.Error()
	}
	h := generic.Digest([]byte(fmt.Sprint(s.W, s.A, s.B, s.C, s.L, s.R, s.O)))
	return h
}

// proveCapture runs the real prover and returns the proof and the digest of the solution the solver produced.
func proveCapture(backendName string, ccs constraint.ConstraintSystem, g16pk groth16.ProvingKey, plpk plonk.ProvingKey, w witness.Witness) (g groth16.Proof, p plonk.Proof, dig string, err error) {
	hookMu.Lock()
	defer hookMu.Unlock()
	verifhook.PostSolveFn = func(_ any, sol any) { dig = solDigestOf(sol) }
	defer func() { verifhook.PostSolveFn = nil }()
	pan, msg := common.Safely(func() {
		if backendName == "groth16" {
			g, err = groth16.Prove(ccs, g16pk, w)
		} else {
			p, err = plonk.Prove(ccs, plpk, w)
		}
	})
	if pan {
		err = fmt.Errorf("panic: %s", msg)
	}
	return
}

func c09GetRef(backendName, circuit string) *c09Ref {
	c09Mu.Lock()
	defer c09Mu.Unlock()
	k := backendName + "/" + circuit
	if r, ok := c09Refs[k]; ok {
		return r
	}
	r := &c09Ref{}
	c09Refs[k] = r
	r.keys = c03GetKeys(backendName, circuit)
	if r.keys.err != nil {
		r.err = r.keys.err
		return r
	}
	a, ok := c03Assignment(circuit, "valid")
	if !ok {
		r.err = fmt.Errorf("no assignment")
		return r
	}
	r.assign = a
	if r.full, r.err = frontend.NewWitness(a, field()); r.err != nil {
		return r
	}
	r.pub, _ = r.full.Public()
	r.g16proof, r.plproof, r.solDigest, r.err = proveCapture(backendName, r.keys.ccs, r.keys.g16pk, r.keys.plpk, r.full)
	return r
}

// roundTrip encodes src with the variant's writer, checks the reported byte counts, decodes into dst with the
// variant's reader, and checks that re-encoding dst reproduces the bytes.
func roundTrip(what, variant string, src, dst any, bad func(string, ...any)) bool {
	var buf bytes.Buffer
	var n int64
	var err error
	counted := true
	switch variant {
	case "bin", "unsafe":
		n, err = src.(io.WriterTo).WriteTo(&buf)
	case "raw":
		n, err = src.(gnarkio.WriterRawTo).WriteRawTo(&buf)
	case "dump":
		err = src.(gnarkio.BinaryDumper).WriteDump(&buf)
		counted = false
	default:
		panic("bad variant " + variant)
	}
	if err != nil {
		bad("%s: encoding (%s) failed: %v", what, variant, err)
		return false
	}
	if counted && int(n) != buf.Len() {
		bad("%s: writer (%s) reports %d bytes, wrote %d", what, variant, n, buf.Len())
	}
	enc := append([]byte(nil), buf.Bytes()...)
	var m int64
	pan, msg := common.Safely(func() {
		switch variant {
		case "bin", "raw":
			m, err = dst.(io.ReaderFrom).ReadFrom(bytes.NewReader(enc))
		case "unsafe":
			m, err = dst.(gnarkio.UnsafeReaderFrom).UnsafeReadFrom(bytes.NewReader(enc))
		case "dump":
			err = dst.(gnarkio.BinaryDumper).ReadDump(bytes.NewReader(enc))
		}
	})
	if pan {
		bad("%s: decoding (%s) panics: %s", what, variant, msg)
		return false
	}
	if err != nil {
		bad("%s: decoding (%s) its own encoding failed: %v", what, variant, err)
		return false
	}
	if counted && int(m) != len(enc) {
		bad("%s: reader (%s) reports %d bytes consumed of %d", what, variant, m, len(enc))
	}
	// idempotence
	var re bytes.Buffer
	switch variant {
	case "bin", "unsafe":
		_, err = dst.(io.WriterTo).WriteTo(&re)
	case "raw":
		_, err = dst.(gnarkio.WriterRawTo).WriteRawTo(&re)
	case "dump":
		err = dst.(gnarkio.BinaryDumper).WriteDump(&re)
	}
	if err != nil {
		bad("%s: re-encoding the decoded object failed: %v", what, err)
	} else if !bytes.Equal(re.Bytes(), enc) {
		bad("%s: re-encoding the decoded object (%s) does not reproduce the bytes", what, variant)
	}
	return true
}

func c09Run(b *C09Beh) C09Res {
	res := C09Res{ID: b.ID, Curve: CurveName}
	bad := func(f string, a ...any) {
		if len(res.Problems) < 10 {
			res.Problems = append(res.Problems, fmt.Sprintf(f, a...))
		}
	}
	ref := c09GetRef(b.Backend, b.Circuit)
	if ref.err != nil {
		bad("INFRA reference pipeline: %v", ref.err)
		return res
	}
	ref.mu.Lock() // one pipeline at a time per compiled system (concurrent use is C10's subject)
	defer ref.mu.Unlock()
	ccs := ref.keys.ccs
	g16pk, g16vk := ref.keys.g16pk, ref.keys.g16vk
	plpk, plvk := ref.keys.plpk, ref.keys.plvk
	full, pub := ref.full, ref.pub
	if b.CS != "none" {
		var dst constraint.ConstraintSystem
		if b.Backend == "groth16" {
			dst = groth16.NewCS(CurveID)
		} else {
			dst = plonk.NewCS(CurveID)
		}
		if !roundTrip("constraint system", b.CS, ccs, dst, bad) {
			return res
		}
		ccs = dst
	}
	if b.PK != "none" {
		if b.Backend == "groth16" {
			dst := groth16.NewProvingKey(CurveID)
			if !roundTrip("groth16 proving key", b.PK, g16pk, dst, bad) {
				return res
			}
			g16pk = dst
		} else {
			dst := plonk.NewProvingKey(CurveID)
			if !roundTrip("plonk proving key", b.PK, plpk, dst, bad) {
				return res
			}
			plpk = dst
		}
	}
	if b.VK != "none" {
		if b.Backend == "groth16" {
			dst := groth16.NewVerifyingKey(CurveID)
			if !roundTrip("groth16 verifying key", b.VK, g16vk, dst, bad) {
				return res
			}
			g16vk = dst
		} else {
			dst := plonk.NewVerifyingKey(CurveID)
			if !roundTrip("plonk verifying key", b.VK, plvk, dst, bad) {
				return res
			}
			plvk = dst
		}
	}
	switch b.Wit {
	case "bin":
		for i, src := range []witness.Witness{full, pub} {
			data, err := src.MarshalBinary()
			if err != nil {
				bad("witness MarshalBinary: %v", err)
				return res
			}
			dst, _ := witness.New(field())
			if err := dst.UnmarshalBinary(data); err != nil {
				bad("witness UnmarshalBinary of its own encoding: %v", err)
				return res
			}
			re, _ := dst.MarshalBinary()
			if !bytes.Equal(re, data) {
				bad("witness: re-encoding the decoded witness does not reproduce the bytes")
			}
			if i == 0 {
				full = dst
			} else {
				pub = dst
			}
		}
	case "json":
		sch, err := schema.New(ref.assign, frontendLeafType())
		if err != nil {
			bad("INFRA schema: %v", err)
			return res
		}
		for i, src := range []witness.Witness{full, pub} {
			data, err := src.ToJSON(sch)
			if err != nil {
				bad("witness ToJSON: %v", err)
				return res
			}
			dst, _ := witness.New(field())
			if err := dst.FromJSON(sch, data); err != nil {
				bad("witness FromJSON of its own encoding: %v", err)
				return res
			}
			a, _ := src.MarshalBinary()
			c, _ := dst.MarshalBinary()
			if !bytes.Equal(a, c) {
				bad("witness: JSON round trip changes the witness (full=%v)", i == 0)
			}
			if i == 0 {
				full = dst
			} else {
				pub = dst
			}
		}
	}
	g, p, dig, err := proveCapture(b.Backend, ccs, g16pk, plpk, full)
	if err != nil {
		bad("Prove with the decoded artifacts fails: %v", err)
		return res
	}
	// (systems with commitments have solutions that depend on the proof's fresh randomness)
	if dig != ref.solDigest && len(ref.keys.ccs.GetCommitments().CommitmentIndexes()) == 0 {
		bad("the decoded constraint system / witness solves to a different solution")
	}
	if b.Proof != "none" {
		if b.Backend == "groth16" {
			dst := groth16.NewProof(CurveID)
			if !roundTrip("groth16 proof", b.Proof, g, dst, bad) {
				return res
			}
			g = dst
		} else {
			dst := plonk.NewProof(CurveID)
			if !roundTrip("plonk proof", b.Proof, p, dst, bad) {
				return res
			}
			p = dst
		}
	}
	var verr, xerr error
	pan, msg := common.Safely(func() {
		if b.Backend == "groth16" {
			verr = groth16.Verify(g, g16vk, pub)
			xerr = groth16.Verify(ref.g16proof, g16vk, pub) // proof of the untouched pipeline under the (decoded) key
		} else {
			verr = plonk.Verify(p, plvk, pub)
			xerr = plonk.Verify(ref.plproof, plvk, pub)
		}
	})
	if pan {
		bad("Verify with the decoded artifacts panics: %s", msg)
	}
	if verr != nil {
		bad("proof made with the decoded artifacts is rejected: %v", verr)
	}
	if xerr != nil {
		bad("proof of the original pipeline is rejected under the decoded key / witness: %v", xerr)
	}
	return res
}

func c09Replay(args common.Args, out *common.Out) error {
	behs, err := common.ReadNDJSON[C09Beh](args.Get("in", ""))
	if err != nil {
		return err
	}
	_ = big.NewInt
	_ = unsafekzg.NewSRS
	c19Register() // the "gkr" corpus circuit needs its Fiat-Shamir hash
	common.ParallelFor(len(behs), args.Int("par", 8), func(i int) {
		out.Emit(c09Run(&behs[i]))
	})
	return nil
}

// bigCircuit has more inputs than the default CBOR decoder limits allow per array.
type bigCircuit struct {
	P frontend.Variable `gnark:",public"`
	S []frontend.Variable
}

func (c *bigCircuit) Define(api frontend.API) error {
	var acc frontend.Variable = 0
	for i := range c.S {
		acc = api.Add(acc, c.S[i])
	}
	api.AssertIsEqual(acc, c.P)
	return nil
}

// c09Big round-trips a constraint system with 140000 inputs (large arrays / maps in the encoding).
func c09Big(args common.Args, out *common.Out) error {
	res := C09Res{ID: -2, Curve: CurveName}
	bad := func(f string, a ...any) { res.Problems = append(res.Problems, fmt.Sprintf(f, a...)) }
	for _, builder := range []string{"r1cs", "scs"} {
		c := &bigCircuit{S: make([]frontend.Variable, 140000)}
		var ccs constraint.ConstraintSystem
		var err error
		if builder == "r1cs" {
			ccs, err = frontend.Compile(field(), r1cs.NewBuilder, c)
		} else {
			ccs, err = frontend.Compile(field(), scs.NewBuilder, c)
		}
		if err != nil {
			bad("INFRA compile: %v", err)
			break
		}
		var dst constraint.ConstraintSystem
		if builder == "r1cs" {
			dst = groth16.NewCS(CurveID)
		} else {
			dst = plonk.NewCS(CurveID)
		}
		roundTrip("constraint system with 140000 inputs ("+builder+")", "bin", ccs, dst, bad)
	}
	out.Emit(res)
	return nil
}
