package c_bn254

import (
	"os"

	"crypto/sha256"
	"crypto/sha512"
	"fmt"
	"math/big"
	"runtime"
	"strings"
	"sync"
	"time"

	"github.com/consensys/gnark/backend"
	"github.com/consensys/gnark/backend/groth16"
	"github.com/consensys/gnark/backend/plonk"
	"github.com/consensys/gnark/backend/witness"
	"github.com/consensys/gnark/constraint"
	"github.com/consensys/gnark/frontend"
	"github.com/consensys/gnark/test/unsafekzg"

	"verifharness/circuits"
	"verifharness/common"
)

type C03Cfg struct {
	Backend string `json:"backend"`
	Circuit string `json:"circuit"`
	Witness string `json:"witness"`
	PHtf    string `json:"pHtf"`
	VHtf    string `json:"vHtf"`
	PChal   string `json:"pChal"`
	VChal   string `json:"vChal"`
	PFold   string `json:"pFold"`
	VFold   string `json:"vFold"`
	StatZK  bool   `json:"statZK"`
}

type C03Beh struct {
	ID       int    `json:"id"`
	Cfg      C03Cfg `json:"cfg"`
	Expected string `json:"expected"`
}

type C03Res struct {
	ID      int    `json:"id"`
	Curve   string `json:"curve"`
	Outcome string `json:"outcome"` // accept | verify-reject | prove-error | prove-panic | verify-panic | hang | leak | skip | setup-error
	Err     string `json:"err,omitempty"`
	ProveMs int64  `json:"prove_ms"`
}

type c03Keys struct {
	ccs   constraint.ConstraintSystem
	g16pk groth16.ProvingKey
	g16vk groth16.VerifyingKey
	plpk  plonk.ProvingKey
	plvk  plonk.VerifyingKey
	err   error
	// Prove calls on one compiled system are serialised here: concurrent use of one system is C10's subject
	// (and systems with lookup tables are known not to tolerate it, finding F5)
	mu sync.Mutex
}

var (
	c03Mu   sync.Mutex
	c03Keyz = map[string]*c03Keys{}
)

func c03GetKeys(backendName, circuit string) *c03Keys {
	c03Mu.Lock()
	defer c03Mu.Unlock()
	k := backendName + "/" + circuit
	if v, ok := c03Keyz[k]; ok {
		return v
	}
	v := &c03Keys{}
	c03Keyz[k] = v
	builder := "r1cs"
	if backendName == "plonk" {
		builder = "scs"
	}
	v.ccs, v.err = compileNamed(circuit, builder)
	if v.err != nil {
		v.err = fmt.Errorf("compile: %w", v.err)
		return v
	}
	pan, msg := common.Safely(func() {
		if backendName == "groth16" {
			v.g16pk, v.g16vk, v.err = groth16.Setup(v.ccs)
		} else {
			srs, srsL, err := unsafekzg.NewSRS(v.ccs, unsafekzg.WithToxicValue(big.NewInt(99991)))
			if err != nil {
				v.err = fmt.Errorf("compile: srs: %w", err)
				return
			}
			v.plpk, v.plvk, v.err = plonk.Setup(v.ccs, srs, srsL)
		}
	})
	if pan {
		v.err = fmt.Errorf("setup-panic: %s", msg)
	} else if v.err != nil && !strings.HasPrefix(v.err.Error(), "compile:") {
		v.err = fmt.Errorf("setup: %w", v.err)
	}
	return v
}

// c03Assignment builds the assignment of a witness class; ok=false when the class does not exist for the circuit.
func c03Assignment(circuit, class string) (frontend.Circuit, bool) {
	variant := 0
	if class == "valid2" {
		variant = 1
	}
	if _, isShape := circuits.Shapes[circuit]; isShape {
		a := circuits.AssignShape(circuit, variant)
		switch class {
		case "badpublic":
			a.X[0] = a.X[0].(int) + 1
		case "badsecret":
			if len(a.Y) == 0 {
				return nil, false
			}
			a.Y[0] = a.Y[0].(int) + 1
		}
		return a, true
	}
	a := circuits.AssignCorpus(circuit, variant, field())
	bump := func(v frontend.Variable) frontend.Variable {
		switch t := v.(type) {
		case *big.Int:
			return new(big.Int).Add(t, big.NewInt(1))
		case int:
			return t + 1
		case int64:
			return t + 1
		}
		panic(fmt.Sprintf("cannot bump %T", v))
	}
	switch class {
	case "short", "long":
	case "badpublic":
		a.P[0] = bump(a.P[0])
	case "badsecret":
		if circuit == "hintlazy" {
			a.S[0] = 0 // with P0 = 0 ("not zero") no hint output can satisfy out*0 == 1
		} else {
			a.S[0] = bump(a.S[0])
		}
	}
	return a, true
}

func proverGoroutines() int {
	buf := make([]byte, 1<<20)
	n := runtime.Stack(buf, true)
	cnt := 0
	for _, g := range strings.Split(string(buf[:n]), "\n\n") {
		if strings.Contains(g, "consensys/gnark/") && !strings.Contains(g, "verifharness") {
			cnt++
		}
	}
	return cnt
}

// "sha256" in the spec = "a hash other than the default" (the PLONK challenge / folding default is itself SHA-256,
// so SHA-512 is used there; the hash-to-field default is not SHA-256)
func hashOpt(name string) bool { return name == "sha256" }

func c03Run(b *C03Beh) C03Res {
	res := C03Res{ID: b.ID, Curve: CurveName}
	cfg := b.Cfg
	keys := c03GetKeys(cfg.Backend, cfg.Circuit)
	if keys.err != nil {
		res.Outcome, res.Err = "setup-error", keys.err.Error()
		if !strings.HasPrefix(res.Err, "compile:") {
			res.Outcome = "setup-failed" // Setup of a circuit that compiles must succeed
		}
		return res
	}
	assign, ok := c03Assignment(cfg.Circuit, cfg.Witness)
	if !ok {
		res.Outcome = "skip"
		return res
	}
	full, err := frontend.NewWitness(assign, field())
	if err != nil {
		res.Outcome, res.Err = "setup-error", err.Error()
		return res
	}
	pub, _ := full.Public()
	if cfg.Witness == "short" || cfg.Witness == "long" {
		// a witness vector of the wrong size (all public): Prove must refuse it with an error
		vec := pubVector(full)
		if cfg.Witness == "short" {
			if len(vec) == 0 {
				res.Outcome = "skip"
				return res
			}
			vec = vec[:len(vec)-1]
		} else {
			vec = append(vec, vec[0])
		}
		if full, err = witnessFromVector(vec); err != nil {
			res.Outcome, res.Err = "setup-error", err.Error()
			return res
		}
	}
	var popts []backend.ProverOption
	var vopts []backend.VerifierOption
	switch cfg.PHtf {
	case "sha256":
		popts = append(popts, backend.WithProverHashToFieldFunction(sha256.New()))
	case "sha512":
		popts = append(popts, backend.WithProverHashToFieldFunction(sha512.New()))
	}
	switch cfg.VHtf {
	case "sha256":
		vopts = append(vopts, backend.WithVerifierHashToFieldFunction(sha256.New()))
	case "sha512":
		vopts = append(vopts, backend.WithVerifierHashToFieldFunction(sha512.New()))
	}
	if cfg.Backend == "plonk" {
		if hashOpt(cfg.PChal) {
			popts = append(popts, backend.WithProverChallengeHashFunction(sha512.New()))
		}
		if hashOpt(cfg.VChal) {
			vopts = append(vopts, backend.WithVerifierChallengeHashFunction(sha512.New()))
		}
		if hashOpt(cfg.PFold) {
			popts = append(popts, backend.WithProverKZGFoldingHashFunction(sha512.New()))
		}
		if hashOpt(cfg.VFold) {
			vopts = append(vopts, backend.WithVerifierKZGFoldingHashFunction(sha512.New()))
		}
		if cfg.StatZK {
			popts = append(popts, backend.WithStatisticalZeroKnowledge())
		}
	}
	type pr struct {
		g16 groth16.Proof
		pl  plonk.Proof
		err error
		pan string
	}
	ch := make(chan pr, 1)
	keys.mu.Lock()
	defer keys.mu.Unlock()
	t0 := time.Now()
	hookMu.RLock()
	go func() {
		var r pr
		pan, msg := common.Safely(func() {
			if cfg.Backend == "groth16" {
				r.g16, r.err = groth16.Prove(keys.ccs, keys.g16pk, full, popts...)
			} else {
				r.pl, r.err = plonk.Prove(keys.ccs, keys.plpk, full, popts...)
			}
		})
		if pan {
			r.pan = msg
		}
		ch <- r
	}()
	var r pr
	select {
	case r = <-ch:
		hookMu.RUnlock()
	case <-time.After(60 * time.Second):
		hookMu.RUnlock()
		res.Outcome, res.Err = "hang", "Prove did not return within 60s"
		return res
	}
	res.ProveMs = time.Since(t0).Milliseconds()
	if r.pan != "" {
		res.Outcome, res.Err = "prove-panic", r.pan
		return res
	}
	if r.err != nil {
		res.Outcome, res.Err = "prove-error", firstLineOf(r.err.Error())
		return res
	}
	var verr error
	pan, msg := common.Safely(func() {
		if cfg.Backend == "groth16" {
			verr = groth16.Verify(r.g16, keys.g16vk, pub, vopts...)
		} else {
			verr = plonk.Verify(r.pl, keys.plvk, pub, vopts...)
		}
	})
	switch {
	case pan:
		res.Outcome, res.Err = "verify-panic", msg
	case verr != nil:
		res.Outcome, res.Err = "verify-reject", verr.Error()
	default:
		res.Outcome = "accept"
	}
	return res
}

func firstLineOf(s string) string {
	if i := strings.IndexByte(s, '\n'); i >= 0 {
		return s[:i]
	}
	return s
}

func c03Replay(args common.Args, out *common.Out) error {
	behs, err := common.ReadNDJSON[C03Beh](args.Get("in", ""))
	if err != nil {
		return err
	}
	var _ witness.Witness
	var hung sync.Once
	common.ParallelFor(len(behs), args.Int("par", 8), func(i int) {
		r := c03Run(&behs[i])
		out.Emit(r)
		if r.Outcome == "hang" {
			// the process now holds a blocked prover (and its locks): report and stop here
			hung.Do(func() {
				out.Close()
				os.Exit(0)
			})
		}
	})
	// every Prove has returned: no prover goroutine may be left behind (they would be blocked forever)
	time.Sleep(300 * time.Millisecond)
	if n := proverGoroutines(); n > 0 {
		time.Sleep(2 * time.Second)
		if n2 := proverGoroutines(); n2 > 0 {
			buf := make([]byte, 1<<16)
			m := runtime.Stack(buf, true)
			out.Emit(C03Res{ID: -1, Curve: CurveName, Outcome: "leak", Err: fmt.Sprintf("%d prover goroutine(s) still alive after every Prove returned: %s", n2, leakSummary(string(buf[:m])))})
		}
	}
	return nil
}

func leakSummary(st string) string {
	for _, g := range strings.Split(st, "\n\n") {
		if strings.Contains(g, "consensys/gnark/") && !strings.Contains(g, "verifharness") {
			lines := strings.Split(g, "\n")
			for _, l := range lines {
				if strings.Contains(l, "consensys/gnark/") && strings.Contains(l, "(") {
					return strings.TrimSpace(lines[0]) + " in " + strings.TrimSpace(l)
				}
			}
		}
	}
	return ""
}
