package c_bn254

import (
	"fmt"
	"math/big"
	"math/rand"
	"sync"

	gchash "github.com/consensys/gnark-crypto/hash"
	"github.com/consensys/gnark/backend"
	"github.com/consensys/gnark/backend/groth16"
	"github.com/consensys/gnark/constraint"
	cs "github.com/consensys/gnark/constraint/bn254"
	"github.com/consensys/gnark/constraint/solver"
	"github.com/consensys/gnark/frontend"
	"github.com/consensys/gnark/frontend/cs/r1cs"
	"github.com/consensys/gnark/std/gkr"
	stdhash "github.com/consensys/gnark/std/hash"
	"github.com/consensys/gnark/std/hash/mimc"
	"github.com/consensys/gnark/test"

	"verifharness/circuits"
	"verifharness/common"
)

// ---- C19: GKR delegation (specs/GkrTopo.tla) ----

type GkrGate struct {
	Op string `json:"op"`
	A  []int  `json:"a"`
}

type GkrSeries struct {
	Input   int    `json:"input"`
	Gate    int    `json:"gate"`
	Pattern string `json:"pattern"`
}

// src: the instance from which instance k takes the dependent input (-1: none); n is the number of instances
func (s GkrSeries) src(k, n int) int {
	if s.Input < 0 {
		return -1
	}
	switch s.Pattern {
	case "alt":
		if k%2 == 1 {
			return k - 1
		}
		return -1
	case "single":
		if k == 1 {
			return 0
		}
		return -1
	case "rev":
		if k < n-1 {
			return k + 1
		}
		return -1
	case "rot":
		if k == 0 {
			return 2
		}
		if k == 1 {
			return 0
		}
		return -1
	}
	if k > 0 {
		return k - 1
	}
	return -1
}

type GkrBeh struct {
	ID      int       `json:"id"`
	NIn     int       `json:"nIn"`
	Gates   []GkrGate `json:"gates"`
	NInst   int       `json:"nInst"`
	Series  GkrSeries `json:"series"`
	Late    bool      `json:"late"`
	Outputs []int     `json:"outputs"`
	Probe   [][]int   `json:"probe"`
}

type GkrRes struct {
	ID       int      `json:"id"`
	Curve    string   `json:"curve"`
	Runs     int      `json:"runs"`
	Tampered int      `json:"tampered"`
	Problems []string `json:"problems"`
}

const c19Hash = circuits.GkrHashName

var c19Once sync.Once
var c19EngineMu sync.Mutex

func c19Register() {
	c19Once.Do(func() {
		cs.RegisterHashBuilder(c19Hash, gchash.MIMC_BN254.New)
		stdhash.Register(c19Hash, func(api frontend.API) (stdhash.FieldHasher, error) {
			m, err := mimc.NewMiMC(api)
			return &m, err
		})
	})
}

type GkrCircuit struct {
	In   [][]frontend.Variable
	Exp  [][]frontend.Variable `gnark:",public"`
	Topo *GkrBeh               `gnark:"-"`
}

func (c *GkrCircuit) Define(api frontend.API) error {
	t := c.Topo
	g := gkr.NewApi()
	vars := make([]constraint.GkrVariable, t.NIn+len(t.Gates))
	imp := func(i int) error {
		as := make([]frontend.Variable, t.NInst)
		copy(as, c.In[i])
		if t.Series.Input == i {
			for k := 0; k < t.NInst; k++ {
				if t.Series.src(k, t.NInst) >= 0 {
					as[k] = nil
				}
			}
		}
		v, err := g.Import(as)
		vars[i] = v
		return err
	}
	for i := 0; i < t.NIn; i++ {
		if t.Late && i == 1 {
			continue // imported after the first gate
		}
		if err := imp(i); err != nil {
			return err
		}
	}
	for gi, gt := range t.Gates {
		var v constraint.GkrVariable
		switch gt.Op {
		case "add":
			v = g.Add(vars[gt.A[0]], vars[gt.A[1]])
		case "sub":
			v = g.Sub(vars[gt.A[0]], vars[gt.A[1]])
		case "mul":
			v = g.Mul(vars[gt.A[0]], vars[gt.A[1]])
		case "neg":
			v = g.Neg(vars[gt.A[0]])
		case "id":
			v = g.NamedGate("identity", vars[gt.A[0]])
		default:
			return fmt.Errorf("unknown gate %q", gt.Op)
		}
		vars[t.NIn+gi] = v
		if gi == 0 && t.Late {
			if err := imp(1); err != nil {
				return err
			}
		}
	}
	if t.Series.Input >= 0 {
		for k := 0; k < t.NInst; k++ {
			if j := t.Series.src(k, t.NInst); j >= 0 {
				g.Series(vars[t.Series.Input], vars[t.NIn+t.Series.Gate-1], k, j)
			}
		}
	}
	sol, err := g.Solve(api)
	if err != nil {
		return err
	}
	for oi, o := range t.Outputs {
		vals := sol.Export(vars[t.NIn+o-1])
		if len(vals) != t.NInst {
			return fmt.Errorf("export returned %d values for %d instances", len(vals), t.NInst)
		}
		for k := range vals {
			api.AssertIsEqual(vals[k], c.Exp[oi][k])
		}
	}
	// inputs replaced by a series dependency stay constrained
	for i := range c.In {
		for k := range c.In[i] {
			api.AssertIsDifferent(api.Add(c.In[i][k], 1), c.In[i][k])
		}
	}
	return sol.Verify(c19Hash)
}

// c19Eval is the direct evaluation (port of GkrTopo.tla Instances): returns, per instance, the values of all variables.
func c19Eval(t *GkrBeh, in func(inst, i int) *big.Int, mod *big.Int) [][]*big.Int {
	out := make([][]*big.Int, t.NInst)
	var eval func(k int) []*big.Int
	eval = func(k int) []*big.Int {
		if out[k] != nil {
			return out[k]
		}
		vals := make([]*big.Int, 0, t.NIn+len(t.Gates))
		for i := 0; i < t.NIn; i++ {
			if j := t.Series.src(k, t.NInst); t.Series.Input == i && j >= 0 {
				vals = append(vals, eval(j)[t.NIn+t.Series.Gate-1])
			} else {
				vals = append(vals, new(big.Int).Mod(in(k, i), mod))
			}
		}
		for _, gt := range t.Gates {
			r := new(big.Int)
			switch gt.Op {
			case "add":
				r.Add(vals[gt.A[0]], vals[gt.A[1]])
			case "sub":
				r.Sub(vals[gt.A[0]], vals[gt.A[1]])
			case "mul":
				r.Mul(vals[gt.A[0]], vals[gt.A[1]])
			case "neg":
				r.Neg(vals[gt.A[0]])
			case "id":
				r.Set(vals[gt.A[0]])
			}
			vals = append(vals, r.Mod(r, mod))
		}
		out[k] = vals
		return vals
	}
	for k := 0; k < t.NInst; k++ {
		eval(k)
	}
	return out
}

func c19Run(b *GkrBeh, tamper bool) GkrRes {
	res := GkrRes{ID: b.ID, Curve: CurveName}
	bad := func(f string, a ...any) {
		if len(res.Problems) < 6 {
			res.Problems = append(res.Problems, fmt.Sprintf(f, a...))
		}
	}
	// the port agrees with TLC on the probe over F_47
	p47 := big.NewInt(47)
	pv := c19Eval(b, func(k, i int) *big.Int { return big.NewInt(int64((3*k + 5*i + 2) % 47)) }, p47)
	for k := range pv {
		for j := range pv[k] {
			if k >= len(b.Probe) || j >= len(b.Probe[k]) || int(pv[k][j].Int64()) != b.Probe[k][j] {
				bad("INFRA evaluator port disagrees with TLC on the probe (instance %d variable %d)", k, j)
				return res
			}
		}
	}
	mod := field()
	rng := rand.New(rand.NewSource(int64(b.ID)*131 + 7))
	inputs := make([][]*big.Int, b.NInst)
	for k := range inputs {
		inputs[k] = make([]*big.Int, b.NIn)
		for i := range inputs[k] {
			inputs[k][i] = new(big.Int).Rand(rng, mod)
			if (k+i)%3 == 0 {
				inputs[k][i].SetInt64(int64(k + 2*i)) // small values, zero included
			}
		}
	}
	vals := c19Eval(b, func(k, i int) *big.Int { return inputs[k][i] }, mod)
	mk := func() *GkrCircuit {
		c := &GkrCircuit{Topo: b, In: make([][]frontend.Variable, b.NIn), Exp: make([][]frontend.Variable, len(b.Outputs))}
		for i := range c.In {
			c.In[i] = make([]frontend.Variable, b.NInst)
		}
		for i := range c.Exp {
			c.Exp[i] = make([]frontend.Variable, b.NInst)
		}
		return c
	}
	assign := func(wrongOut, wrongInst int) *GkrCircuit {
		c := mk()
		for i := range c.In {
			for k := range c.In[i] {
				c.In[i][k] = inputs[k][i]
			}
		}
		for oi, o := range b.Outputs {
			for k := range c.Exp[oi] {
				v := vals[k][b.NIn+o-1]
				if oi == wrongOut && k == wrongInst {
					v = new(big.Int).Add(v, big.NewInt(1))
					v.Mod(v, mod)
				}
				c.Exp[oi][k] = v
			}
		}
		return c
	}
	desc := fmt.Sprintf("gates=%v instances=%d series=%v", b.Gates, b.NInst, b.Series)
	// test engine
	var terr error
	// the test engine keeps its GKR solving data in process-wide storage: one engine run at a time
	c19EngineMu.Lock()
	pan, msg := common.Safely(func() { terr = test.IsSolved(mk(), assign(-1, -1), mod) })
	c19EngineMu.Unlock()
	res.Runs++
	if pan {
		bad("test engine panics on %s: %s", desc, msg)
	} else if terr != nil {
		bad("exported values differ from the direct evaluation (test engine): %s: %s", desc, firstLineOf(terr.Error()))
	}
	// real builder, solver and prover
	var ccs constraint.ConstraintSystem
	var pk groth16.ProvingKey
	var vk groth16.VerifyingKey
	var err error
	pan, msg = common.Safely(func() {
		ccs, err = frontend.Compile(mod, r1cs.NewBuilder, mk())
		if err == nil {
			pk, vk, err = groth16.Setup(ccs)
		}
	})
	if pan || err != nil {
		bad("compiling the delegated circuit fails: %s: %v %s", desc, err, msg)
		return res
	}
	prove := func(a *GkrCircuit, opts ...solver.Option) error {
		w, err := frontend.NewWitness(a, mod)
		if err != nil {
			return fmt.Errorf("INFRA witness: %w", err)
		}
		pub, _ := w.Public()
		var perr error
		pan, msg := common.Safely(func() {
			p, e := groth16.Prove(ccs, pk, w, backend.WithSolverOptions(opts...))
			if e != nil {
				perr = e
				return
			}
			perr = groth16.Verify(p, vk, pub)
		})
		res.Runs++
		if pan {
			return fmt.Errorf("panic: %s", msg)
		}
		return perr
	}
	if e := prove(assign(-1, -1)); e != nil {
		bad("exported values differ from the direct evaluation (compiled circuit, real prover): %s: %s", desc, firstLineOf(e.Error()))
		return res
	}
	for oi := range b.Outputs {
		k := (b.ID + oi) % b.NInst
		if e := prove(assign(oi, k)); e == nil {
			bad("a wrong exported value (output %d instance %d) is accepted: %s", oi, k, desc)
		}
	}
	if !tamper {
		return res
	}
	// dishonest GKR hints: the system overrides the placeholders last, so the dishonest prover points the system at unused
	// ids and serves the real placeholders itself, with the genuine solving / proving functions and one output perturbed
	sys := ccs.(*cs.R1CS)
	info := sys.GkrInfo
	realSolve, realProve := info.SolveHintID, info.ProveHintID
	sys.GkrInfo.SolveHintID, sys.GkrInfo.ProveHintID = solver.HintID(0xfffffff1), solver.HintID(0xfffffff2)
	defer func() { sys.GkrInfo.SolveHintID, sys.GkrInfo.ProveHintID = realSolve, realProve }()
	run := func(which string, pos int) (called int, e error) {
		var data cs.GkrSolvingData
		hs, hp := cs.GkrSolveHint(info, &data), cs.GkrProveHint(info.HashName, &data)
		wrap := func(h solver.Hint, on bool) solver.Hint {
			return func(m *big.Int, in, out []*big.Int) error {
				if err := h(m, in, out); err != nil {
					return err
				}
				if on {
					called = len(out)
					if pos >= 0 && pos < len(out) {
						out[pos].Add(out[pos], big.NewInt(1))
						out[pos].Mod(out[pos], m)
					}
				}
				return nil
			}
		}
		e = prove(assign(-1, -1), solver.OverrideHint(realSolve, wrap(hs, which == "solve")), solver.OverrideHint(realProve, wrap(hp, which == "prove")))
		return
	}
	for _, which := range []string{"solve", "prove"} {
		n, e := run(which, -1)
		if e != nil {
			bad("INFRA serving the GKR hints from outside changes the outcome (%s): %v", which, e)
			return res
		}
		for pos := 0; pos < n; pos++ {
			if n > 12 && pos >= 6 && pos < n-6 {
				continue
			}
			res.Tampered++
			if _, e := run(which, pos); e == nil {
				bad("output %d of the GKR %s hint perturbed and the circuit is still satisfied: %s", pos, which, desc)
			}
		}
	}
	return res
}

func c19Replay(args common.Args, out *common.Out) error {
	behs, err := common.ReadNDJSON[GkrBeh](args.Get("in", ""))
	if err != nil {
		return err
	}
	hookMu.RLock()
	defer hookMu.RUnlock()
	c19Register()
	tamperEvery := args.Int("tamperevery", 1)
	common.ParallelFor(len(behs), args.Int("par", 8), func(i int) {
		out.Emit(c19Run(&behs[i], behs[i].ID%tamperEvery == 0))
	})
	return nil
}
