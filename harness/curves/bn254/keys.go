package c_bn254

import (
	"fmt"
	"math/big"

	curve "github.com/consensys/gnark-crypto/ecc/bn254"
	"github.com/consensys/gnark-crypto/ecc/bn254/fr"
	"github.com/consensys/gnark-crypto/ecc/bn254/fr/fft"
	"github.com/consensys/gnark-crypto/ecc/bn254/kzg"
	"github.com/consensys/gnark/backend/groth16"
	g16c "github.com/consensys/gnark/backend/groth16/bn254"
	"github.com/consensys/gnark/backend/plonk"
	plonkc "github.com/consensys/gnark/backend/plonk/bn254"
	"github.com/consensys/gnark/constraint"
	cs "github.com/consensys/gnark/constraint/bn254"
	"github.com/consensys/gnark/frontend"
	"github.com/consensys/gnark/frontend/cs/r1cs"
	"github.com/consensys/gnark/frontend/cs/scs"
	"github.com/consensys/gnark/test/unsafekzg"

	"verifharness/circuits"
	"verifharness/common"
	"verifharness/generic"
)

// ---- records validated by TLC against Groth16Setup.tla / PlonkTrace.tla ----

type g16Commit struct {
	Wire int   `json:"wire"`
	Priv []int `json:"priv"`
}

type G16KeyRec struct {
	Backend string `json:"backend"`
	Curve   string `json:"curve"`
	Circuit string `json:"circuit"`
	Layout  struct {
		NbPub   int         `json:"nbPub"`
		NbWires int         `json:"nbWires"`
		Commits []g16Commit `json:"commits"`
	} `json:"layout"`
	Rec struct {
		LenVkK         int      `json:"lenVkK"`
		LenPkK         int      `json:"lenPkK"`
		CkSizes        []int    `json:"ckSizes"`
		NbVkCommitKeys int      `json:"nbVkCommitKeys"`
		SigmaOwn       []bool   `json:"sigmaOwn"`
		SigmaCross     [][]bool `json:"sigmaCross"`
	} `json:"rec"`
	Problems []string `json:"problems"`
}

type PlonkKeyRec struct {
	Backend  string   `json:"backend"`
	Curve    string   `json:"curve"`
	Circuit  string   `json:"circuit"`
	NbPub    int      `json:"nbPub"`
	Gates    [][3]int `json:"gates"`
	Size     int      `json:"size"`
	NbVars   int      `json:"nbVars"`
	RecS     []int64  `json:"recS"`
	Small    bool     `json:"small"` // small enough to hand to TLC
	Problems []string `json:"problems"`
}

func compileNamed(name, builder string) (constraint.ConstraintSystem, error) {
	var c frontend.Circuit
	if _, ok := circuits.Shapes[name]; ok {
		c = circuits.NewShape(name)
	} else {
		c = circuits.NewCorpus(name)
	}
	if builder == "r1cs" {
		return frontend.Compile(field(), r1cs.NewBuilder, c)
	}
	return frontend.Compile(field(), scs.NewBuilder, c)
}

func g16KeyCheck(name string) (rec G16KeyRec) {
	rec.Backend, rec.Curve, rec.Circuit = "groth16", CurveName, name
	bad := func(f string, a ...any) { rec.Problems = append(rec.Problems, fmt.Sprintf(f, a...)) }
	ccs, err := compileNamed(name, "r1cs")
	if err != nil {
		bad("INFRA compile: %v", err)
		return
	}
	pkI, vkI, err := groth16.Setup(ccs)
	if err != nil {
		bad("INFRA setup: %v", err)
		return
	}
	pk, vk := pkI.(*g16c.ProvingKey), vkI.(*g16c.VerifyingKey)
	ci := ccs.(*cs.R1CS).CommitmentInfo.(constraint.Groth16Commitments)
	rec.Layout.NbPub = ccs.GetNbPublicVariables()
	rec.Layout.NbWires = ccs.GetNbPublicVariables() + ccs.GetNbSecretVariables() + ccs.GetNbInternalVariables()
	rec.Layout.Commits = []g16Commit{}
	for _, c := range ci {
		rec.Layout.Commits = append(rec.Layout.Commits, g16Commit{Wire: c.CommitmentIndex, Priv: append([]int{}, c.PrivateCommitted...)})
	}
	rec.Rec.LenVkK = len(vk.G1.K)
	rec.Rec.LenPkK = len(pk.G1.K)
	rec.Rec.NbVkCommitKeys = len(vk.CommitmentKeys)
	rec.Rec.CkSizes = []int{}
	rec.Rec.SigmaOwn = []bool{}
	rec.Rec.SigmaCross = [][]bool{}
	for j := range pk.CommitmentKeys {
		rec.Rec.CkSizes = append(rec.Rec.CkSizes, len(pk.CommitmentKeys[j].Basis))
	}
	if len(vk.CommitmentKeys) != len(pk.CommitmentKeys) {
		bad("vk has %d commitment keys, pk has %d", len(vk.CommitmentKeys), len(pk.CommitmentKeys))
		return
	}
	// sigma relations: e(Basis^sigma_j, G) * e(Basis, G^-sigma_k) == 1  iff  sigma_j == sigma_k
	rel := func(j, k int) (bool, bool) {
		pkj := pk.CommitmentKeys[j]
		if len(pkj.Basis) == 0 || len(pkj.Basis) != len(pkj.BasisExpSigma) {
			return false, false
		}
		all := true
		for b := range pkj.Basis {
			ok, err := curve.PairingCheck([]curve.G1Affine{pkj.BasisExpSigma[b], pkj.Basis[b]}, []curve.G2Affine{vk.CommitmentKeys[k].G, vk.CommitmentKeys[k].GSigmaNeg})
			if err != nil || !ok {
				all = false
			}
		}
		return all, true
	}
	for j := range pk.CommitmentKeys {
		own, usable := rel(j, j)
		rec.Rec.SigmaOwn = append(rec.Rec.SigmaOwn, own || !usable)
		row := make([]bool, len(pk.CommitmentKeys))
		for k := range pk.CommitmentKeys {
			if k != j {
				eq, usable := rel(j, k)
				row[k] = eq && usable
			}
		}
		rec.Rec.SigmaCross = append(rec.Rec.SigmaCross, row)
	}
	// vk.PublicAndCommitmentCommitted must be what the constraint system says
	want := ci.GetPublicAndCommitmentCommitted(ci.CommitmentIndexes(), ccs.GetNbPublicVariables())
	if fmt.Sprint(want) != fmt.Sprint(vk.PublicAndCommitmentCommitted) {
		bad("vk.PublicAndCommitmentCommitted = %v, constraint system says %v", vk.PublicAndCommitmentCommitted, want)
	}
	if len(pk.G1.A) != rec.Layout.NbWires-int(pk.NbInfinityA) || len(pk.G1.B) != rec.Layout.NbWires-int(pk.NbInfinityB) {
		bad("pk.G1.A/B sizes %d/%d do not match %d wires minus %d/%d infinity points", len(pk.G1.A), len(pk.G1.B), rec.Layout.NbWires, pk.NbInfinityA, pk.NbInfinityB)
	}
	return
}

func frEq(a []fr.Element, want []*big.Int) int {
	if len(a) != len(want) {
		return -2
	}
	for i := range a {
		var b big.Int
		a[i].BigInt(&b)
		if b.Cmp(want[i]) != 0 {
			return i
		}
	}
	return -1
}

func plonkKeyCheck(name string) (rec PlonkKeyRec) {
	rec.Backend, rec.Curve, rec.Circuit = "plonk", CurveName, name
	bad := func(f string, a ...any) { rec.Problems = append(rec.Problems, fmt.Sprintf(f, a...)) }
	ccs, err := compileNamed(name, "scs")
	if err != nil {
		bad("INFRA compile: %v", err)
		return
	}
	spr := ccs.(*cs.SparseR1CS)
	srs, srsL, err := unsafekzg.NewSRS(ccs, unsafekzg.WithToxicValue(big.NewInt(31337)))
	if err != nil {
		bad("INFRA srs: %v", err)
		return
	}
	pkI, vkI, err := plonk.Setup(ccs, srs, srsL)
	if err != nil {
		bad("INFRA setup: %v", err)
		return
	}
	pk, vk := pkI.(*plonkc.ProvingKey), vkI.(*plonkc.VerifyingKey)
	rows, err := generic.ExportRows(ccs.(generic.AnyCS), "scs")
	if err != nil {
		bad("INFRA rows: %v", err)
		return
	}
	mod := field()
	nbPub := ccs.GetNbPublicVariables()
	n := nbPub + len(rows.Sparse)
	size := 1
	for size < n {
		size <<= 1
	}
	if size < 2 {
		size = 2
	}
	rec.NbPub, rec.Size = nbPub, size
	rec.NbVars = ccs.GetNbPublicVariables() + ccs.GetNbSecretVariables() + ccs.GetNbInternalVariables()
	for _, g := range rows.Sparse {
		rec.Gates = append(rec.Gates, [3]int{g.XA, g.XB, g.XC})
	}
	if vk.Size != uint64(size) || vk.NbPublicVariables != uint64(nbPub) {
		bad("vk.Size=%d vk.NbPublicVariables=%d, expected %d and %d", vk.Size, vk.NbPublicVariables, size, nbPub)
		return
	}
	domain := fft.NewDomain(uint64(size))
	trace := plonkc.NewTrace(spr, domain)
	// ---- selector columns, independently from the exported gates
	zero := func() []*big.Int {
		z := make([]*big.Int, size)
		for i := range z {
			z[i] = new(big.Int)
		}
		return z
	}
	ql, qr, qm, qo, qk := zero(), zero(), zero(), zero(), zero()
	minus1 := new(big.Int).Sub(mod, big.NewInt(1))
	for i := 0; i < nbPub; i++ {
		ql[i] = minus1
	}
	var commitRows []int        // rows (constraint indexes) flagged COMMITMENT, in order
	var committedGroups [][]int // constraint indexes flagged COMMITTED preceding each COMMITMENT row
	var curGroup []int
	for k, g := range rows.Sparse {
		r := nbPub + k
		ql[r], qr[r], qm[r], qo[r], qk[r] = g.QL, g.QR, g.QM, g.QO, g.QC
		switch constraint.CommitmentConstraint(g.Commitment) {
		case constraint.COMMITTED:
			curGroup = append(curGroup, k)
		case constraint.COMMITMENT:
			commitRows = append(commitRows, k)
			committedGroups = append(committedGroups, curGroup)
			curGroup = nil
		}
	}
	cols := []struct {
		name string
		got  []fr.Element
		want []*big.Int
		vk   kzg.Digest
	}{
		{"ql", trace.Ql.Coefficients(), ql, vk.Ql}, {"qr", trace.Qr.Coefficients(), qr, vk.Qr}, {"qm", trace.Qm.Coefficients(), qm, vk.Qm},
		{"qo", trace.Qo.Coefficients(), qo, vk.Qo}, {"qk", trace.Qk.Coefficients(), qk, vk.Qk},
	}
	commitOf := func(want []*big.Int) (kzg.Digest, error) {
		v := make([]fr.Element, len(want))
		for i := range want {
			v[i].SetBigInt(want[i])
		}
		return kzg.Commit(v, pk.KzgLagrange)
	}
	for _, c := range cols {
		if i := frEq(c.got, c.want); i != -1 {
			bad("trace column %s differs from the gates at row %d", c.name, i)
		}
		d, err := commitOf(c.want)
		if err != nil {
			bad("INFRA commit: %v", err)
			return
		}
		if !d.Equal(&c.vk) {
			bad("vk commitment to %s is not the commitment to the circuit's %s column", c.name, c.name)
		}
	}
	// ---- commitment selectors
	if len(vk.Qcp) != len(commitRows) || len(trace.Qcp) != len(commitRows) || len(vk.CommitmentConstraintIndexes) != len(commitRows) {
		bad("circuit has %d commitments, vk.Qcp %d, trace.Qcp %d, vk.CommitmentConstraintIndexes %d", len(commitRows), len(vk.Qcp), len(trace.Qcp), len(vk.CommitmentConstraintIndexes))
	} else {
		for j := range commitRows {
			if vk.CommitmentConstraintIndexes[j] != uint64(commitRows[j]) {
				bad("vk.CommitmentConstraintIndexes[%d]=%d, the commitment gate is constraint %d", j, vk.CommitmentConstraintIndexes[j], commitRows[j])
			}
			q := zero()
			for _, k := range committedGroups[j] {
				q[nbPub+k] = big.NewInt(1)
			}
			if i := frEq(trace.Qcp[j].Coefficients(), q); i != -1 {
				bad("trace.Qcp[%d] differs from the rows committed by commitment %d at row %d", j, j, i)
			}
			d, err := commitOf(q)
			if err != nil {
				bad("INFRA commit: %v", err)
				return
			}
			if !d.Equal(&vk.Qcp[j]) {
				bad("vk.Qcp[%d] is not the commitment to the selector of commitment %d's rows", j, j)
			}
		}
	}
	// ---- permutation: cycles of S == classes of positions holding the same wire
	wireAt := func(p int) int {
		col, row := p/size, p%size
		if row < nbPub {
			if col == 0 {
				return row
			}
			return 0
		}
		if row-nbPub < len(rows.Sparse) {
			g := rows.Sparse[row-nbPub]
			return [3]int{g.XA, g.XB, g.XC}[col]
		}
		return 0
	}
	S := trace.S
	rec.RecS = S
	if len(S) != 3*size {
		bad("trace.S has %d entries, expected %d", len(S), 3*size)
	} else {
		seen := make([]bool, 3*size)
		okPerm := true
		for _, v := range S {
			if v < 0 || int(v) >= 3*size || seen[v] {
				okPerm = false
				break
			}
			seen[v] = true
		}
		if !okPerm {
			bad("trace.S is not a permutation")
		} else {
			classSize := map[int]int{}
			for p := 0; p < 3*size; p++ {
				classSize[wireAt(p)]++
			}
			visited := make([]bool, 3*size)
			for p := 0; p < 3*size && len(rec.Problems) == 0; p++ {
				if visited[p] {
					continue
				}
				w, l := wireAt(p), 0
				for q := p; !visited[q]; q = int(S[q]) {
					visited[q] = true
					l++
					if wireAt(q) != w {
						bad("permutation cycle through position %d links wires %d and %d", p, w, wireAt(q))
						break
					}
				}
				if l != classSize[w] {
					bad("wire %d occupies %d positions but its permutation cycle has length %d: a copy constraint is missing", w, classSize[w], l)
				}
			}
		}
		// S1,S2,S3 are the support evaluated at S, and vk.S commits to them
		supp := make([]fr.Element, 3*size)
		supp[0].SetOne()
		supp[size].Set(&domain.FrMultiplicativeGen)
		supp[2*size].Square(&domain.FrMultiplicativeGen)
		for i := 1; i < size; i++ {
			supp[i].Mul(&supp[i-1], &domain.Generator)
			supp[size+i].Mul(&supp[size+i-1], &domain.Generator)
			supp[2*size+i].Mul(&supp[2*size+i-1], &domain.Generator)
		}
		if okPerm {
			for c, sp := range [][]fr.Element{trace.S1.Coefficients(), trace.S2.Coefficients(), trace.S3.Coefficients()} {
				for i := 0; i < size; i++ {
					if !sp[i].Equal(&supp[S[c*size+i]]) {
						bad("S%d[%d] is not the support element of S[%d]", c+1, i, c*size+i)
						break
					}
				}
				d, err := kzg.Commit(sp, pk.KzgLagrange)
				if err != nil {
					bad("INFRA commit: %v", err)
					return
				}
				if !d.Equal(&vk.S[c]) {
					bad("vk.S[%d] is not the commitment to S%d", c, c+1)
				}
			}
		}
		if !vk.CosetShift.Equal(&domain.FrMultiplicativeGen) || !vk.Generator.Equal(&domain.Generator) {
			bad("vk.CosetShift / vk.Generator are not the domain's")
		}
	}
	rec.Small = size <= 8 && rec.NbVars <= 24
	if !rec.Small {
		rec.RecS, rec.Gates = nil, nil
	}
	return
}

func keyCheck(args common.Args, out *common.Out) error {
	names := append([]string{}, circuits.ShapeNames()...)
	for k := 0; k < 8; k++ {
		names = append(names, fmt.Sprintf("p1x%d", k))
	}
	for _, ci := range circuits.CorpusList {
		if ci.Gkr {
			continue
		}
		names = append(names, ci.Name)
	}
	common.ParallelFor(len(names), args.Int("par", 8), func(i int) {
		name := names[i]
		scsOnly, r1csOnly := false, false
		if _, ok := circuits.Shapes[name]; !ok {
			ci := circuits.CorpusByName(name)
			scsOnly, r1csOnly = ci.SCSOnly, ci.R1CSOnly
		}
		if !scsOnly {
			pan, msg := common.Safely(func() { out.Emit(g16KeyCheck(name)) })
			if pan {
				out.Emit(G16KeyRec{Backend: "groth16", Curve: CurveName, Circuit: name, Problems: []string{"panic: " + msg}})
			}
		}
		if !r1csOnly {
			pan, msg := common.Safely(func() { out.Emit(plonkKeyCheck(name)) })
			if pan {
				out.Emit(PlonkKeyRec{Backend: "plonk", Curve: CurveName, Circuit: name, Problems: []string{"panic: " + msg}})
			}
		}
	})
	return nil
}
