package c_bn254

import (
	"runtime"
	"strings"

	"github.com/consensys/gnark/verifhook"

	"crypto/sha256"
	"encoding/hex"
	"fmt"
	"math/big"
	"sync"
	"time"

	"github.com/consensys/gnark-crypto/ecc/bn254/fr"
	"github.com/consensys/gnark/backend"
	"github.com/consensys/gnark/backend/groth16"
	"github.com/consensys/gnark/backend/plonk"
	"github.com/consensys/gnark/backend/witness"
	"github.com/consensys/gnark/constraint"
	cs "github.com/consensys/gnark/constraint/bn254"
	"github.com/consensys/gnark/constraint/solver"
	"github.com/consensys/gnark/frontend"
	"github.com/consensys/gnark/frontend/cs/r1cs"
	"github.com/consensys/gnark/frontend/cs/scs"
	"github.com/consensys/gnark/test/unsafekzg"

	"verifharness/circuits"
	"verifharness/common"
)

// StressRec is one observation of the C10 stress / history driver.
type StressRec struct {
	Kind    string `json:"kind"` // nbtasks | history | concurrent-solve | concurrent-prove | concurrent-verify
	Circuit string `json:"circuit"`
	System  string `json:"system"` // r1cs | scs | groth16 | plonk
	Detail  string `json:"detail"`
	OK      bool   `json:"ok"`
	Err     string `json:"err,omitempty"`
	Runs    int    `json:"runs"`
}

func vecDigest(vs ...fr.Vector) string {
	h := sha256.New()
	for _, v := range vs {
		for i := range v {
			b := v[i].Bytes()
			h.Write(b[:])
		}
		h.Write([]byte{0xff})
	}
	return hex.EncodeToString(h.Sum(nil)[:8])
}

func solutionDigest(sol any) string {
	switch s := sol.(type) {
	case *cs.R1CSSolution:
		return vecDigest(s.W, s.A, s.B, s.C)
	case *cs.SparseR1CSSolution:
		return vecDigest(fr.Vector(s.L), fr.Vector(s.R), fr.Vector(s.O))
	}
	return fmt.Sprintf("unknown solution type %T", sol)
}

func compileCorpus(name, builder string, n int) (constraint.ConstraintSystem, error) {
	c := circuits.NewCorpus(name)
	if n > 0 {
		c.N = n
	}
	if builder == "r1cs" {
		return frontend.Compile(field(), r1cs.NewBuilder, c)
	}
	return frontend.Compile(field(), scs.NewBuilder, c)
}

func corpusWitness(name string, variant, n int) (witness.Witness, error) {
	return frontend.NewWitness(circuits.AssignCorpusN(name, variant, field(), n), field())
}

// solveSafely solves under recover and a watchdog.
func solveSafely(ccs constraint.ConstraintSystem, w witness.Witness, opts ...solver.Option) (digest string, err error) {
	type r struct {
		d   string
		err error
	}
	ch := make(chan r, 1)
	go func() {
		var sol any
		var e error
		pan, msg := common.Safely(func() { sol, e = ccs.Solve(w, opts...) })
		if pan {
			ch <- r{"", fmt.Errorf("panic: %s", msg)}
			return
		}
		if e != nil {
			ch <- r{"", e}
			return
		}
		ch <- r{solutionDigest(sol), nil}
	}()
	select {
	case x := <-ch:
		return x.d, x.err
	case <-time.After(120 * time.Second):
		return "", fmt.Errorf("hang: Solve did not return within 120s")
	}
}

// commitment-free circuits can be solved without a prover; the others need the backends
var solveOnly = []string{"arith", "hint", "mimc", "logs", "wide", "selector"}
var lookupLike = []string{"lookup", "lookup2", "range", "defer"} // contain stateful lookup blueprints + commitments

func c10Stress(args common.Args, out *common.Out) error {
	rounds := args.Int("rounds", 6)
	nGo := args.Int("goroutines", 8)
	wideN := args.Int("wide", 3000)
	// ---------- A. number of tasks, B. histories (sequential; includes nothing concurrent)
	for _, name := range solveOnly {
		for _, builder := range []string{"r1cs", "scs"} {
			n := 0
			if name == "wide" {
				n = wideN
			}
			ccs, err := compileCorpus(name, builder, n)
			if err != nil {
				return fmt.Errorf("compile %s/%s: %w", name, builder, err)
			}
			w0, err := corpusWitness(name, 0, n)
			if err != nil {
				return err
			}
			w1, _ := corpusWitness(name, 1, n)
			ref, err := solveSafely(ccs, w0, solver.WithNbTasks(1))
			if err != nil {
				return fmt.Errorf("reference solve %s/%s failed: %w", name, builder, err)
			}
			ref1, err := solveSafely(ccs, w1, solver.WithNbTasks(1))
			if err != nil {
				return fmt.Errorf("reference solve %s/%s failed: %w", name, builder, err)
			}
			for _, nt := range []int{1, 2, 3, 7, 16, 64, 512} {
				d, err := solveSafely(ccs, w0, solver.WithNbTasks(nt))
				rec := StressRec{Kind: "nbtasks", Circuit: name, System: builder, Detail: fmt.Sprintf("nbTasks=%d", nt), OK: err == nil && d == ref, Runs: 1}
				if err != nil {
					rec.Err = err.Error()
				} else if d != ref {
					rec.Err = "solution differs from the single-task solution"
				}
				out.Emit(rec)
			}
			// history: valid, invalid, valid again, other valid, first valid again
			bad := circuits.AssignCorpusN(name, 0, field(), n)
			bad.P[0] = 12345
			wbad, _ := frontend.NewWitness(bad, field())
			hist := StressRec{Kind: "history", Circuit: name, System: builder, Detail: "valid,invalid,valid,other,valid", OK: true, Runs: 5}
			_, eb := solveSafely(ccs, wbad)
			if eb == nil {
				hist.OK, hist.Err = false, "invalid witness solved"
			}
			d2, e2 := solveSafely(ccs, w0)
			d3, e3 := solveSafely(ccs, w1)
			d4, e4 := solveSafely(ccs, w0)
			if e2 != nil || e3 != nil || e4 != nil || d2 != ref || d3 != ref1 || d4 != ref {
				hist.OK = false
				hist.Err = fmt.Sprintf("solutions after a failed solve differ (%v %v %v)", e2, e3, e4)
			}
			out.Emit(hist)
			// ---------- C. concurrent Solve sharing the system, distinct witnesses
			refs := make([]string, nGo)
			ws := make([]witness.Witness, nGo)
			for g := 0; g < nGo; g++ {
				ws[g], _ = corpusWitness(name, g, n)
				refs[g], err = solveSafely(ccs, ws[g], solver.WithNbTasks(1))
				if err != nil {
					return fmt.Errorf("reference solve: %w", err)
				}
			}
			rec := StressRec{Kind: "concurrent-solve", Circuit: name, System: builder, OK: true, Runs: nGo * rounds,
				Detail: fmt.Sprintf("%d goroutines x %d rounds, distinct witnesses, nbTasks in {1,4}", nGo, rounds)}
			var mu sync.Mutex
			var wg sync.WaitGroup
			for g := 0; g < nGo; g++ {
				wg.Add(1)
				go func(g int) {
					defer wg.Done()
					for r := 0; r < rounds; r++ {
						nt := 1
						if (g+r)%2 == 1 {
							nt = 4
						}
						d, err := solveSafely(ccs, ws[g], solver.WithNbTasks(nt))
						if err != nil || d != refs[g] {
							mu.Lock()
							rec.OK = false
							if err != nil {
								rec.Err = err.Error()
							} else {
								rec.Err = "solution differs from the sequential one"
							}
							mu.Unlock()
						}
					}
				}(g)
			}
			wg.Wait()
			out.Emit(rec)
		}
	}
	// ---------- A2. task-split boundaries: level sizes around 50*T for every task count T, with the
	// solver's own scheduling events recorded (level size, task ranges) for validation against Solver.tla
	splitRecs, err := taskSplitSweep(args)
	if err != nil {
		return err
	}
	for _, r := range splitRecs {
		out.Emit(r)
	}
	// ---------- B2. many failing solves (the failing instruction sits in a parallel level), then a valid one
	for _, builder := range []string{"r1cs", "scs"} {
		out.Emit(manyFailuresThenValid(builder))
	}
	// ---------- B3. per-call hint closures (solver.WithHints) and a hint relying on initialised outputs
	for _, builder := range []string{"r1cs", "scs"} {
		out.Emit(hintClosureHistory(builder, nGo, rounds))
		out.Emit(lazyHintHistory(builder, nGo, rounds))
	}
	// ---------- D. concurrent Prove / Verify sharing keys and an option slice with spare capacity
	for _, name := range []string{"commit", "arith", "hint", "emul"} {
		for _, be := range []string{"groth16", "plonk"} {
			rec := stressProve(name, be, nGo, rounds)
			out.Emit(rec)
		}
	}
	return nil
}

func stressProve(name, be string, nGo, rounds int) StressRec {
	rec := StressRec{Kind: "concurrent-prove", Circuit: name, System: be, OK: true, Runs: nGo * rounds,
		Detail: fmt.Sprintf("%d goroutines x %d rounds share cs, pk, vk and a solver-option slice (len 1, cap 8)", nGo, rounds)}
	fail := func(format string, a ...any) StressRec {
		rec.OK = false
		rec.Err = fmt.Sprintf(format, a...)
		return rec
	}
	builder := "r1cs"
	if be == "plonk" {
		builder = "scs"
	}
	ccs, err := compileCorpus(name, builder, 0)
	if err != nil {
		return fail("INFRA compile: %v", err)
	}
	var g16pk groth16.ProvingKey
	var g16vk groth16.VerifyingKey
	var plpk plonk.ProvingKey
	var plvk plonk.VerifyingKey
	if be == "groth16" {
		g16pk, g16vk, err = groth16.Setup(ccs)
	} else {
		srs, srsL, e := unsafekzg.NewSRS(ccs, unsafekzg.WithToxicValue(big.NewInt(424242)))
		if e != nil {
			return fail("INFRA srs: %v", e)
		}
		plpk, plvk, err = plonk.Setup(ccs, srs, srsL)
	}
	if err != nil {
		return fail("INFRA setup: %v", err)
	}
	shared := make([]solver.Option, 1, 8)
	shared[0] = solver.WithNbTasks(2)
	ws := make([]witness.Witness, nGo)
	pubs := make([]witness.Witness, nGo)
	for g := range ws {
		ws[g], err = corpusWitness(name, g, 0)
		if err != nil {
			return fail("INFRA witness: %v", err)
		}
		pubs[g], _ = ws[g].Public()
	}
	var mu sync.Mutex
	var wg sync.WaitGroup
	done := make(chan struct{})
	for g := 0; g < nGo; g++ {
		wg.Add(1)
		go func(g int) {
			defer wg.Done()
			for r := 0; r < rounds; r++ {
				var verr error
				pan, msg := common.Safely(func() {
					if be == "groth16" {
						p, err := groth16.Prove(ccs, g16pk, ws[g], backend.WithSolverOptions(shared...))
						if err != nil {
							verr = fmt.Errorf("prove: %w", err)
							return
						}
						// several goroutines verify the same proof object at once
						var vg sync.WaitGroup
						for k := 0; k < 2; k++ {
							vg.Add(1)
							go func() {
								defer vg.Done()
								if e := groth16.Verify(p, g16vk, pubs[g]); e != nil {
									mu.Lock()
									verr = fmt.Errorf("verify: %w", e)
									mu.Unlock()
								}
							}()
						}
						vg.Wait()
					} else {
						p, err := plonk.Prove(ccs, plpk, ws[g], backend.WithSolverOptions(shared...))
						if err != nil {
							verr = fmt.Errorf("prove: %w", err)
							return
						}
						var vg sync.WaitGroup
						for k := 0; k < 2; k++ {
							vg.Add(1)
							go func() {
								defer vg.Done()
								if e := plonk.Verify(p, plvk, pubs[g]); e != nil {
									mu.Lock()
									verr = fmt.Errorf("verify: %w", e)
									mu.Unlock()
								}
							}()
						}
						vg.Wait()
					}
				})
				if pan || verr != nil {
					mu.Lock()
					rec.OK = false
					if pan {
						rec.Err = "panic: " + msg
					} else {
						rec.Err = verr.Error()
					}
					mu.Unlock()
				}
			}
		}(g)
	}
	go func() { wg.Wait(); close(done) }()
	select {
	case <-done:
	case <-time.After(300 * time.Second):
		return fail("hang: concurrent Prove/Verify did not finish within 300s")
	}
	return rec
}

// SplitRec is the scheduling of one level as recorded through the verif hooks.
type SplitRec struct {
	Kind    string   `json:"kind"` // "split"
	Circuit string   `json:"circuit"`
	System  string   `json:"system"`
	Detail  string   `json:"detail"`
	OK      bool     `json:"ok"`
	Err     string   `json:"err,omitempty"`
	Runs    int      `json:"runs"`
	Level   int      `json:"level"`   // len(level)
	NbTasks int      `json:"nbTasks"` // configured number of tasks
	Ranges  [][2]int `json:"ranges"`  // [start,end) pushed for the largest level; empty = sequential
}

var splitMu sync.Mutex

func taskSplitSweep(args common.Args) ([]SplitRec, error) {
	seed := args.Int("seed", 1)
	tasks := []int{2, 3, 7, 16, 33, 52, 64, 100, 128, 512}
	var recs []SplitRec
	type lvl struct {
		size   int
		ranges [][2]int
	}
	for _, T := range tasks {
		sizes := map[int]bool{}
		for _, d := range []int{-1, 0, 1, 2, T - 1, T, T + 1, 2*T + 1} {
			for _, base := range []int{50 * T, 51 * T, 49 * T} {
				if n := base + d; n > 50 {
					sizes[n] = true
				}
			}
		}
		// a few seeded sizes in the range where the split is not capped by the level size
		for k := 0; k < 4; k++ {
			sizes[51+((seed*7919+k*104729+T*31)%(60*T))] = true
		}
		for n := range sizes {
			if n > 30000 {
				continue
			}
			ccs, err := compileCorpus("wide", "r1cs", n)
			if err != nil {
				return nil, err
			}
			w, err := corpusWitness("wide", 1, n)
			if err != nil {
				return nil, err
			}
			ref, err := solveSafely(ccs, w, solver.WithNbTasks(1))
			if err != nil {
				return nil, fmt.Errorf("reference solve wide(%d): %w", n, err)
			}
			// record the scheduling events of this solve
			splitMu.Lock()
			var levels []lvl
			verifhook.SolverEventFn = func(_ any, kind int, a, b int) {
				switch kind {
				case verifhook.EvLevel:
					levels = append(levels, lvl{size: a})
				case verifhook.EvTaskPush:
					if len(levels) > 0 {
						levels[len(levels)-1].ranges = append(levels[len(levels)-1].ranges, [2]int{a, b})
					}
				}
			}
			d, err := solveSafely(ccs, w, solver.WithNbTasks(T))
			verifhook.SolverEventFn = nil
			splitMu.Unlock()
			rec := SplitRec{Kind: "split", Circuit: fmt.Sprintf("wide(%d)", n), System: "r1cs", Detail: fmt.Sprintf("nbTasks=%d", T),
				OK: err == nil && d == ref, Runs: 1, NbTasks: T, Ranges: [][2]int{}}
			if err != nil {
				rec.Err = err.Error()
			} else if d != ref {
				rec.Err = "solution differs from the single-task solution"
			}
			for _, l := range levels {
				if l.size > rec.Level {
					rec.Level = l.size
					rec.Ranges = l.ranges
					if rec.Ranges == nil {
						rec.Ranges = [][2]int{}
					}
				}
			}
			recs = append(recs, rec)
		}
	}
	return recs, nil
}

func manyFailuresThenValid(builder string) StressRec {
	rec := StressRec{Kind: "history", Circuit: "wide2", System: builder, OK: true,
		Detail: "3*NumCPU solves failing inside a parallel level (nbTasks default and 4), then a valid solve"}
	const n = 400
	ccs, err := compileCorpus("wide2", builder, n)
	if err != nil {
		rec.OK, rec.Err = false, "INFRA compile: "+err.Error()
		return rec
	}
	good, _ := corpusWitness("wide2", 0, n)
	ref, err := solveSafely(ccs, good, solver.WithNbTasks(1))
	if err != nil {
		rec.OK, rec.Err = false, "INFRA reference solve: "+err.Error()
		return rec
	}
	bad := circuits.AssignCorpusN("wide2", 0, field(), n)
	// S0 + 311 == P1: instruction 311 of the wide level fails
	bad.P[1] = new(big.Int).Add(bad.S[0].(*big.Int), big.NewInt(311))
	wbad, _ := frontend.NewWitness(bad, field())
	fails := 3 * runtime.NumCPU()
	for i := 0; i < fails; i++ {
		var opts []solver.Option
		if i%2 == 1 {
			opts = append(opts, solver.WithNbTasks(4))
		}
		if _, err := solveSafely(ccs, wbad, opts...); err == nil {
			rec.OK, rec.Err = false, "invalid witness solved"
			return rec
		} else if strings.HasPrefix(err.Error(), "hang") || strings.HasPrefix(err.Error(), "panic") {
			rec.OK, rec.Err = false, err.Error()
			return rec
		}
		rec.Runs++
	}
	for _, nt := range []int{0, 4, 16} {
		var opts []solver.Option
		if nt > 0 {
			opts = append(opts, solver.WithNbTasks(nt))
		}
		d, err := solveSafelyT(30*time.Second, ccs, good, opts...)
		rec.Runs++
		if err != nil {
			rec.OK, rec.Err = false, "valid solve after failures: "+err.Error()
			return rec
		}
		if d != ref {
			rec.OK, rec.Err = false, "valid solve after failures returns a different solution"
			return rec
		}
	}
	return rec
}

func hintClosureHistory(builder string, nGo, rounds int) StressRec {
	rec := StressRec{Kind: "history", Circuit: "hintdyn", System: builder, OK: true,
		Detail: "every Solve passes its own closure for the same hint id through solver.WithHints: sequentially, then concurrently"}
	ccs, err := compileCorpus("hintdyn", builder, 0)
	if err != nil {
		rec.OK, rec.Err = false, "INFRA compile: "+err.Error()
		return rec
	}
	solveK := func(k int) error {
		w, err := corpusWitness("hintdyn", k, 0)
		if err != nil {
			return err
		}
		_, err = solveSafely(ccs, w, solver.WithHints(circuits.DynHint(int64(k+1))))
		return err
	}
	for k := 0; k < 6; k++ {
		rec.Runs++
		if err := solveK(k); err != nil {
			rec.OK, rec.Err = false, fmt.Sprintf("sequential solve #%d with its own hint closure: %v", k, err)
			return rec
		}
	}
	// a solve that passes no closure must still fail with the missing-hint error, not reuse someone else's
	w0, _ := corpusWitness("hintdyn", 0, 0)
	if _, err := solveSafely(ccs, w0); err == nil {
		rec.OK, rec.Err = false, "solve without any hint function succeeded after earlier solves registered closures"
		return rec
	}
	var mu sync.Mutex
	var wg sync.WaitGroup
	for g := 0; g < nGo; g++ {
		wg.Add(1)
		go func(g int) {
			defer wg.Done()
			for r := 0; r < rounds; r++ {
				if err := solveK(g); err != nil {
					mu.Lock()
					rec.OK, rec.Err = false, fmt.Sprintf("concurrent solve with its own hint closure: %v", err)
					mu.Unlock()
				}
			}
		}(g)
	}
	wg.Wait()
	rec.Runs += nGo * rounds
	return rec
}

func lazyHintHistory(builder string, nGo, rounds int) StressRec {
	rec := StressRec{Kind: "history", Circuit: "hintlazy", System: builder, OK: true,
		Detail: "a hint that leaves its initialised output untouched for input 0, after and during solves that fill the pool with other values"}
	ccs, err := compileCorpus("hintlazy", builder, 0)
	if err != nil {
		rec.OK, rec.Err = false, "INFRA compile: "+err.Error()
		return rec
	}
	run := func(k int) error {
		w, err := corpusWitness("hintlazy", k, 0)
		if err != nil {
			return err
		}
		_, err = solveSafely(ccs, w)
		return err
	}
	for k := 0; k < 12; k++ { // even: non-zero input, odd: zero input
		rec.Runs++
		if err := run(k); err != nil {
			rec.OK, rec.Err = false, fmt.Sprintf("sequential solve #%d: %v", k, err)
			return rec
		}
	}
	var mu sync.Mutex
	var wg sync.WaitGroup
	for g := 0; g < nGo; g++ {
		wg.Add(1)
		go func(g int) {
			defer wg.Done()
			for r := 0; r < rounds; r++ {
				if err := run(g + r); err != nil {
					mu.Lock()
					rec.OK, rec.Err = false, fmt.Sprintf("concurrent solve: %v", err)
					mu.Unlock()
				}
			}
		}(g)
	}
	wg.Wait()
	rec.Runs += nGo * rounds
	return rec
}

func solveSafelyT(d time.Duration, ccs constraint.ConstraintSystem, w witness.Witness, opts ...solver.Option) (string, error) {
	type r struct {
		d   string
		err error
	}
	ch := make(chan r, 1)
	go func() {
		x, e := solveSafely(ccs, w, opts...)
		ch <- r{x, e}
	}()
	select {
	case x := <-ch:
		return x.d, x.err
	case <-time.After(d):
		return "", fmt.Errorf("hang: Solve did not return within %s", d)
	}
}
