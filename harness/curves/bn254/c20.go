package c_bn254

import (
	"fmt"
	"math/big"

	"github.com/consensys/gnark-crypto/ecc"
	curve "github.com/consensys/gnark-crypto/ecc/bn254"
	"github.com/consensys/gnark-crypto/ecc/bn254/fr"
	"github.com/consensys/gnark-crypto/ecc/bn254/kzg"
	"github.com/consensys/gnark/backend"
	"github.com/consensys/gnark/backend/groth16"
	g16c "github.com/consensys/gnark/backend/groth16/bn254"
	"github.com/consensys/gnark/backend/plonk"
	plonkc "github.com/consensys/gnark/backend/plonk/bn254"
	cs "github.com/consensys/gnark/constraint/bn254"
	"github.com/consensys/gnark/test/unsafekzg"
	"github.com/consensys/gnark/verifhook"

	"verifharness/circuits"
	"verifharness/common"
)

type C20Beh struct {
	ID       int      `json:"id"`
	Backend  string   `json:"backend"`
	Shape    string   `json:"shape"`
	StatZK   bool     `json:"statZK"`
	N        int      `json:"n"`
	Blinded  []string `json:"blinded"`
	NbCommit int      `json:"nbCommit"`
}

type C20Res struct {
	ID       int      `json:"id"`
	Curve    string   `json:"curve"`
	Problems []string `json:"problems"`
	Checked  int      `json:"checked"` // element comparisons made
}

func c20Witness(name string, variant int) (any, bool) {
	if _, ok := circuits.Shapes[name]; ok {
		return circuits.AssignShape(name, variant), true
	}
	return circuits.AssignCorpus(name, variant, field()), false
}

func c20Run(b *C20Beh) C20Res {
	res := C20Res{ID: b.ID, Curve: CurveName}
	bad := func(f string, a ...any) {
		if len(res.Problems) < 10 {
			res.Problems = append(res.Problems, fmt.Sprintf(f, a...))
		}
	}
	builder := "r1cs"
	if b.Backend == "plonk" {
		builder = "scs"
	}
	ccs, err := compileNamed(b.Shape, builder)
	if err != nil {
		bad("INFRA compile: %v", err)
		return res
	}
	assign, _ := c20Witness(b.Shape, 0)
	w, err := fullWitnessAny(assign)
	if err != nil {
		bad("INFRA witness: %v", err)
		return res
	}
	pub, _ := w.Public()
	if b.Backend == "groth16" {
		pkI, vk, err := groth16.Setup(ccs)
		if err != nil {
			bad("INFRA setup: %v", err)
			return res
		}
		pk := pkI.(*g16c.ProvingKey)
		var proofs []*g16c.Proof
		var wires []fr.Vector
		for k := 0; k < b.N; k++ {
			hookMu.Lock()
			var W fr.Vector
			verifhook.PostSolveFn = func(_ any, sol any) {
				if s, ok := sol.(*cs.R1CSSolution); ok {
					W = append(fr.Vector(nil), s.W...)
				}
			}
			p, err := groth16.Prove(ccs, pkI, w)
			verifhook.PostSolveFn = nil
			hookMu.Unlock()
			if err != nil {
				bad("INFRA prove: %v", err)
				return res
			}
			if err := groth16.Verify(p, vk, pub); err != nil {
				bad("INFRA verify: %v", err)
				return res
			}
			proofs = append(proofs, p.(*g16c.Proof))
			wires = append(wires, W)
		}
		// deterministic parts: A = alpha + sum w_i A_i ; B = beta + sum w_i B_i (infinity entries are skipped in the key)
		msmG1 := func(points []curve.G1Affine, inf []bool, W fr.Vector) curve.G1Affine {
			var sc []fr.Element
			for i := range W {
				if !inf[i] {
					sc = append(sc, W[i])
				}
			}
			var r curve.G1Affine
			if len(sc) != len(points) {
				bad("INFRA key layout: %d scalars for %d points", len(sc), len(points))
				return r
			}
			r.MultiExp(points, sc, ecc.MultiExpConfig{})
			return r
		}
		for k, p := range proofs {
			W := wires[k]
			aDet := msmG1(pk.G1.A, pk.InfinityA, W)
			aDet.Add(&aDet, &pk.G1.Alpha)
			var scB []fr.Element
			for i := range W {
				if !pk.InfinityB[i] {
					scB = append(scB, W[i])
				}
			}
			var bDet curve.G2Affine
			if len(scB) == len(pk.G2.B) {
				bDet.MultiExp(pk.G2.B, scB, ecc.MultiExpConfig{})
				bDet.Add(&bDet, &pk.G2.Beta)
				res.Checked++
				if p.Bs.Equal(&bDet) {
					bad("proof %d: Bs equals the deterministic commitment beta + sum w_i B_i (no random multiple of delta)", k)
				}
			}
			res.Checked++
			if p.Ar.Equal(&aDet) {
				bad("proof %d: Ar equals the deterministic commitment alpha + sum w_i A_i (no random multiple of delta)", k)
			} else {
				// Ar - A must be a multiple r.delta with the same r that shifts nothing else: e(Ar - A, g2) == e(delta1, X) has no
				// public X, so check at least that the shift is not a trivially guessable one (0 or +-delta)
				var d, nd curve.G1Affine
				d.Sub(&p.Ar, &aDet)
				nd.Neg(&pk.G1.Delta)
				if d.Equal(&pk.G1.Delta) || d.Equal(&nd) {
					bad("proof %d: Ar is shifted by exactly +-delta", k)
				}
			}
			if len(p.Commitments) != b.NbCommit {
				bad("INFRA: %d commitments, spec says %d", len(p.Commitments), b.NbCommit)
			}
		}
		for j := 0; j < len(proofs); j++ {
			for k := j + 1; k < len(proofs); k++ {
				res.Checked += 3 + len(proofs[j].Commitments)
				if proofs[j].Ar.Equal(&proofs[k].Ar) {
					bad("proofs %d and %d of the same witness have equal Ar", j, k)
				}
				if proofs[j].Bs.Equal(&proofs[k].Bs) {
					bad("proofs %d and %d of the same witness have equal Bs", j, k)
				}
				if proofs[j].Krs.Equal(&proofs[k].Krs) {
					bad("proofs %d and %d of the same witness have equal Krs", j, k)
				}
				for i := range proofs[j].Commitments {
					if proofs[j].Commitments[i].Equal(&proofs[k].Commitments[i]) {
						bad("proofs %d and %d of the same witness have equal commitment %d (no fresh mask)", j, k, i)
					}
				}
			}
		}
		return res
	}
	// ---- PLONK
	srs, srsL, err := unsafekzg.NewSRS(ccs, unsafekzg.WithToxicValue(big.NewInt(5150)))
	if err != nil {
		bad("INFRA srs: %v", err)
		return res
	}
	pkI, vk, err := plonk.Setup(ccs, srs, srsL)
	if err != nil {
		bad("INFRA setup: %v", err)
		return res
	}
	pk := pkI.(*plonkc.ProvingKey)
	var popts []backend.ProverOption
	if b.StatZK {
		popts = append(popts, backend.WithStatisticalZeroKnowledge())
	}
	var proofs []*plonkc.Proof
	var lro [][3]fr.Vector
	for k := 0; k < b.N; k++ {
		hookMu.Lock()
		var L, R, O fr.Vector
		verifhook.PostSolveFn = func(_ any, sol any) {
			if s, ok := sol.(*cs.SparseR1CSSolution); ok {
				L = append(fr.Vector(nil), s.L...)
				R = append(fr.Vector(nil), s.R...)
				O = append(fr.Vector(nil), s.O...)
			}
		}
		p, err := plonk.Prove(ccs, pkI, w, popts...)
		verifhook.PostSolveFn = nil
		hookMu.Unlock()
		if err != nil {
			bad("INFRA prove: %v", err)
			return res
		}
		if err := plonk.Verify(p, vk, pub); err != nil {
			bad("INFRA verify: %v", err)
			return res
		}
		proofs = append(proofs, p.(*plonkc.Proof))
		lro = append(lro, [3]fr.Vector{L, R, O})
	}
	for k, p := range proofs {
		for c := 0; c < 3; c++ {
			det, err := kzg.Commit(lro[k][c], pk.KzgLagrange)
			if err != nil {
				bad("INFRA commit: %v", err)
				return res
			}
			res.Checked++
			if det.Equal(&p.LRO[c]) {
				bad("proof %d: commitment %s equals the unblinded commitment to the wire values", k, []string{"L", "R", "O"}[c])
			}
		}
		if len(p.Bsb22Commitments) != b.NbCommit {
			bad("INFRA: %d BSB22 commitments, spec says %d", len(p.Bsb22Commitments), b.NbCommit)
		}
	}
	for j := 0; j < len(proofs); j++ {
		for k := j + 1; k < len(proofs); k++ {
			pj, pk2 := proofs[j], proofs[k]
			cmp := func(name string, a, c *curve.G1Affine) {
				res.Checked++
				if a.Equal(c) && !a.IsInfinity() {
					bad("proofs %d and %d of the same witness have equal %s", j, k, name)
				}
			}
			cmp("L", &pj.LRO[0], &pk2.LRO[0])
			cmp("R", &pj.LRO[1], &pk2.LRO[1])
			cmp("O", &pj.LRO[2], &pk2.LRO[2])
			cmp("Z", &pj.Z, &pk2.Z)
			cmp("H0", &pj.H[0], &pk2.H[0])
			cmp("H1", &pj.H[1], &pk2.H[1])
			cmp("H2", &pj.H[2], &pk2.H[2])
			for i := range pj.Bsb22Commitments {
				cmp(fmt.Sprintf("Bsb22[%d]", i), &pj.Bsb22Commitments[i], &pk2.Bsb22Commitments[i])
			}
		}
	}
	return res
}

func c20Replay(args common.Args, out *common.Out) error {
	behs, err := common.ReadNDJSON[C20Beh](args.Get("in", ""))
	if err != nil {
		return err
	}
	for i := range behs {
		out.Emit(c20Run(&behs[i]))
	}
	return nil
}
