package c_bn254

import (
	"bytes"
	"crypto/sha256"
	"crypto/sha512"
	"fmt"
	"math/big"
	"strings"
	"sync"

	curve "github.com/consensys/gnark-crypto/ecc/bn254"
	"github.com/consensys/gnark-crypto/ecc/bn254/fr"
	"github.com/consensys/gnark/backend"
	"github.com/consensys/gnark/backend/plonk"
	plonkc "github.com/consensys/gnark/backend/plonk/bn254"
	"github.com/consensys/gnark/backend/witness"
	"github.com/consensys/gnark/constraint"
	cs "github.com/consensys/gnark/constraint/bn254"
	"github.com/consensys/gnark/frontend"
	"github.com/consensys/gnark/frontend/cs/scs"
	"github.com/consensys/gnark/test/unsafekzg"
	"github.com/consensys/gnark/verifhook"

	"verifharness/circuits"
	"verifharness/common"
)

type plonkFixture struct {
	ccs      constraint.ConstraintSystem
	pk       plonk.ProvingKey
	vk       *plonkc.VerifyingKey
	vkRe     *plonkc.VerifyingKey // same circuit, other SRS
	vkAlt    *plonkc.VerifyingKey // other circuit with the same layout, same SRS
	proof    *plonkc.Proof
	other    *plonkc.Proof
	full0    witness.Witness
	pubVec0  fr.Vector
	pubVec1  fr.Vector
	setupErr error
}

var (
	plonkFixMu sync.Mutex
	plonkFix   = map[string]*plonkFixture{}
)

func plonkGetFixture(shape string) *plonkFixture {
	plonkFixMu.Lock()
	defer plonkFixMu.Unlock()
	if f, ok := plonkFix[shape]; ok {
		return f
	}
	f := &plonkFixture{}
	plonkFix[shape] = f
	f.setupErr = func() error {
		ccs, err := frontend.Compile(field(), scs.NewBuilder, circuits.NewShape(shape))
		if err != nil {
			return fmt.Errorf("compile: %w", err)
		}
		f.ccs = ccs
		srs, srsL, err := unsafekzg.NewSRS(ccs, unsafekzg.WithToxicValue(big.NewInt(123456789)))
		if err != nil {
			return err
		}
		pk, vk, err := plonk.Setup(ccs, srs, srsL)
		if err != nil {
			return fmt.Errorf("setup: %w", err)
		}
		f.pk, f.vk = pk, vk.(*plonkc.VerifyingKey)
		srs2, srsL2, err := unsafekzg.NewSRS(ccs, unsafekzg.WithToxicValue(big.NewInt(987654321)))
		if err != nil {
			return err
		}
		_, vk2, err := plonk.Setup(ccs, srs2, srsL2)
		if err != nil {
			return err
		}
		f.vkRe = vk2.(*plonkc.VerifyingKey)
		ccsAlt, err := frontend.Compile(field(), scs.NewBuilder, circuits.NewShape(shape+"_alt"))
		if err != nil {
			return fmt.Errorf("compile alt: %w", err)
		}
		srs3, srsL3, err := unsafekzg.NewSRS(ccsAlt, unsafekzg.WithToxicValue(big.NewInt(123456789)))
		if err != nil {
			return err
		}
		_, vk3, err := plonk.Setup(ccsAlt, srs3, srsL3)
		if err != nil {
			return err
		}
		f.vkAlt = vk3.(*plonkc.VerifyingKey)
		if f.full0, err = fullWitness(circuits.AssignShape(shape, 0)); err != nil {
			return err
		}
		pub0, _ := f.full0.Public()
		f.pubVec0 = pubVector(pub0)
		full1, err := fullWitness(circuits.AssignShape(shape, 1))
		if err != nil {
			return err
		}
		pub1, _ := full1.Public()
		f.pubVec1 = pubVector(pub1)
		hookMu.RLock()
		defer hookMu.RUnlock()
		p0, err := plonk.Prove(ccs, pk, f.full0, PlonkProverOpts...)
		if err != nil {
			return fmt.Errorf("prove0: %w", err)
		}
		f.proof = p0.(*plonkc.Proof)
		p1, err := plonk.Prove(ccs, pk, full1, PlonkProverOpts...)
		if err != nil {
			return fmt.Errorf("prove1: %w", err)
		}
		f.other = p1.(*plonkc.Proof)
		if err := plonk.Verify(f.proof, f.vk, pub0, PlonkVerifierOpts...); err != nil {
			return fmt.Errorf("genuine proof rejected: %w", err)
		}
		return nil
	}()
	return f
}

func copyPlonkProof(p *plonkc.Proof) *plonkc.Proof {
	q := *p
	q.Bsb22Commitments = append(q.Bsb22Commitments[:0:0], p.Bsb22Commitments...)
	q.BatchedProof.ClaimedValues = append(q.BatchedProof.ClaimedValues[:0:0], p.BatchedProof.ClaimedValues...)
	return &q
}

func plonkStage(err error) string {
	if err == nil {
		return ""
	}
	s := err.Error()
	switch {
	case strings.Contains(s, "BSB22 Commitment number mismatch"):
		return "nb-bsb22"
	case strings.Contains(s, "witness"):
		return "witness-size"
	case strings.Contains(s, "point is not on the curve"), strings.Contains(s, "subgroup"), strings.Contains(s, "invalid point"):
		return "subgroup"
	case strings.Contains(s, "claimed values"), strings.Contains(s, "claimed evaluations"):
		return "claimed-values"
	case strings.Contains(s, "algebraic relation"):
		return "algebraic"
	case strings.Contains(s, "invalid number of digests"), strings.Contains(s, "opening"), strings.Contains(s, "polynomials"),
		strings.Contains(s, "can't verify"), strings.Contains(s, "pairing"):
		return "kzg"
	}
	return "other"
}

func scalarClass(cls string, orig, other fr.Element) (fr.Element, bool) {
	var r fr.Element
	switch cls {
	case "inc":
		var one fr.Element
		one.SetOne()
		r.Add(&orig, &one)
		return r, true
	case "zero":
		return r, !orig.IsZero()
	case "other":
		return other, !other.Equal(&orig)
	case "five":
		r.SetUint64(5)
		return r, !r.Equal(&orig)
	}
	panic("unknown scalar class " + cls)
}

func plonkG1(p *plonkc.Proof, comp string) *curve.G1Affine {
	switch comp {
	case "L":
		return &p.LRO[0]
	case "R":
		return &p.LRO[1]
	case "O":
		return &p.LRO[2]
	case "Z":
		return &p.Z
	case "H0":
		return &p.H[0]
	case "H1":
		return &p.H[1]
	case "H2":
		return &p.H[2]
	case "BatchH":
		return &p.BatchedProof.H
	case "ZShiftH":
		return &p.ZShiftedOpening.H
	}
	panic("bad comp " + comp)
}

func plonkRun(b *Behaviour) Result {
	res := Result{ID: b.ID, Curve: CurveName, Backend: "plonk"}
	f := plonkGetFixture(b.Shape)
	if f.setupErr != nil {
		res.Verdict, res.Err = "setup-error", f.setupErr.Error()
		return res
	}
	proof := copyPlonkProof(f.proof)
	vk := f.vk
	pubVec := append(fr.Vector(nil), f.pubVec0...)
	var vopts []backend.VerifierOption
	roundTrip := ""
	for _, e := range b.Edits {
		if e.Op != "BadAssign" {
			continue
		}
		applied := false
		hookMu.Lock()
		verifhook.PostSolveFn = func(_ any, sol any) {
			s, ok := sol.(*cs.SparseR1CSSolution)
			if !ok {
				return
			}
			nbPub := f.ccs.GetNbPublicVariables()
			var one, two fr.Element
			one.SetOne()
			two.SetUint64(2)
			switch e.Cls {
			case "gate":
				s.L[nbPub].Add(&s.L[nbPub], &one)
				applied = true
			case "lastrow":
				n := f.ccs.GetNbConstraints() + nbPub - 1
				s.O[n].Add(&s.O[n], &one)
				applied = true
			case "copy":
				// a row with the same wire on L and R (Y0*Y0): scale L by 2, R by 1/2 -
				// the gate still holds, the copy constraint L-position ~ R-position does not
				for r := nbPub; r < nbPub+f.ccs.GetNbConstraints(); r++ {
					if s.L[r].Equal(&s.R[r]) && !s.L[r].IsZero() && !s.L[r].IsOne() {
						s.L[r].Mul(&s.L[r], &two)
						s.R[r].Div(&s.R[r], &two)
						applied = true
						break
					}
				}
			}
		}
		var p plonk.Proof
		var err error
		pan, msg := common.Safely(func() { p, err = plonk.Prove(f.ccs, f.pk, f.full0, PlonkProverOpts...) })
		verifhook.PostSolveFn = nil
		hookMu.Unlock()
		if !applied {
			res.Verdict, res.Note = "skip", "BadAssign/"+e.Cls+" found no row to tamper with"
			return res
		}
		if pan {
			res.Verdict, res.Stage, res.Note = "reject", "prove-panic", msg
			return res
		}
		if err != nil {
			res.Verdict, res.Stage, res.Err = "reject", "prove", err.Error()
			return res
		}
		proof = copyPlonkProof(p.(*plonkc.Proof))
	}
	for _, e := range b.Edits {
		ok := true
		switch e.Op {
		case "BadAssign":
		case "ReplaceG1":
			dst := plonkG1(proof, e.Comp)
			*dst, ok = g1Class(e.Cls, *dst, *plonkG1(f.other, e.Comp), f.vk.S[0])
		case "BsbReplace":
			i := e.I - 1
			if i >= len(proof.Bsb22Commitments) {
				ok = false
				break
			}
			proof.Bsb22Commitments[i], ok = g1Class(e.Cls, proof.Bsb22Commitments[i], f.other.Bsb22Commitments[i], f.vk.S[0])
		case "BsbDrop":
			i := e.I - 1
			if i >= len(proof.Bsb22Commitments) {
				ok = false
				break
			}
			proof.Bsb22Commitments = append(proof.Bsb22Commitments[:i:i], proof.Bsb22Commitments[i+1:]...)
		case "BsbAppend":
			base := f.vk.S[0]
			if len(f.proof.Bsb22Commitments) > 0 {
				base = f.proof.Bsb22Commitments[0]
			}
			el := base
			if e.Cls != "dup" {
				el, _ = g1Class(e.Cls, base, f.other.Z, f.vk.S[0])
			}
			proof.Bsb22Commitments = append(proof.Bsb22Commitments, el)
		case "BsbSwap":
			i, j := e.I-1, e.J-1
			if i >= len(proof.Bsb22Commitments) || j >= len(proof.Bsb22Commitments) {
				ok = false
				break
			}
			if proof.Bsb22Commitments[i].Equal(&proof.Bsb22Commitments[j]) {
				ok = false
				break
			}
			proof.Bsb22Commitments[i], proof.Bsb22Commitments[j] = proof.Bsb22Commitments[j], proof.Bsb22Commitments[i]
		case "AlterCV":
			k := e.I - 1
			if k >= len(proof.BatchedProof.ClaimedValues) {
				ok = false
				break
			}
			proof.BatchedProof.ClaimedValues[k], ok = scalarClass(e.Cls, proof.BatchedProof.ClaimedValues[k], f.other.BatchedProof.ClaimedValues[k])
		case "TruncCV":
			if e.I >= len(proof.BatchedProof.ClaimedValues) {
				ok = false
				break
			}
			proof.BatchedProof.ClaimedValues = proof.BatchedProof.ClaimedValues[:e.I]
		case "ExtendCV":
			var x fr.Element
			if e.Cls != "zero" {
				x.SetUint64(5)
			}
			proof.BatchedProof.ClaimedValues = append(proof.BatchedProof.ClaimedValues, x)
		case "AlterZu":
			proof.ZShiftedOpening.ClaimedValue, ok = scalarClass(e.Cls, proof.ZShiftedOpening.ClaimedValue, f.other.ZShiftedOpening.ClaimedValue)
		case "AlterPub":
			i := e.I - 1
			var one fr.Element
			one.SetOne()
			if e.Cls == "other" {
				pubVec[i] = f.pubVec1[i]
			} else {
				pubVec[i].Add(&pubVec[i], &one)
			}
		case "ExtendPub":
			var x fr.Element
			if e.Cls != "zero" {
				x.SetUint64(5)
			}
			pubVec = append(pubVec, x)
		case "TruncPub":
			pubVec = pubVec[:len(pubVec)-1]
		case "OtherVK":
			if e.Cls == "resrs" {
				vk = f.vkRe
			} else {
				vk = f.vkAlt
			}
		case "OptMismatch":
			switch e.Cls {
			case "challenge":
				vopts = append(vopts, backend.WithVerifierChallengeHashFunction(sha512.New()))
			case "folding":
				vopts = append(vopts, backend.WithVerifierKZGFoldingHashFunction(sha512.New()))
			case "htf":
				vopts = append(vopts, backend.WithVerifierHashToFieldFunction(sha256.New()))
			}
		case "RoundTrip":
			roundTrip = e.Cls
		default:
			panic("unknown edit op " + e.Op)
		}
		if !ok {
			res.Verdict, res.Note = "skip", "class not available here: "+e.Op+"/"+e.Cls
			return res
		}
	}
	pw, err := witnessFromVector(pubVec)
	if err != nil {
		res.Verdict, res.Err = "harness-error", err.Error()
		return res
	}
	var toVerify plonk.Proof = proof
	if roundTrip != "" {
		var buf bytes.Buffer
		var werr error
		var n int64
		pan, msg := common.Safely(func() {
			if roundTrip == "raw" {
				n, werr = proof.WriteRawTo(&buf)
			} else {
				n, werr = proof.WriteTo(&buf)
			}
		})
		if pan {
			res.Verdict, res.Stage, res.Err = "panic", "encode", msg
			return res
		}
		if werr != nil {
			res.Verdict, res.Stage, res.Err = "reject", "encode", werr.Error()
			return res
		}
		if int(n) != buf.Len() {
			res.Note = fmt.Sprintf("WriteTo reported %d bytes, wrote %d", n, buf.Len())
		}
		dec := plonk.NewProof(CurveID)
		var rerr error
		pan, msg = common.Safely(func() { _, rerr = dec.ReadFrom(bytes.NewReader(buf.Bytes())) })
		if pan {
			res.Verdict, res.Stage, res.Err = "panic", "decode", msg
			return res
		}
		if rerr != nil {
			res.Verdict, res.Stage, res.Err = "reject", "decode", rerr.Error()
			return res
		}
		toVerify = dec
	}
	var verr error
	allOpts := append(append([]backend.VerifierOption(nil), PlonkVerifierOpts...), vopts...)
	pan, msg := common.Safely(func() { verr = plonk.Verify(toVerify, vk, pw, allOpts...) })
	switch {
	case pan:
		res.Verdict, res.Stage, res.Err = "panic", "verify", msg
	case verr == nil:
		res.Verdict = "accept"
	default:
		res.Verdict, res.Stage, res.Err = "reject", plonkStage(verr), verr.Error()
	}
	if PlonkObserver != nil && len(vopts) == 0 && !pan {
		PlonkObserver(b, f.ccs, toVerify, vk, pw, res.Verdict)
	}
	return res
}

// PlonkProverOpts / PlonkVerifierOpts are appended to every native Prove / Verify call of the PLONK replay (set by the
// recursion replay before the first fixture is built).
var (
	PlonkProverOpts   []backend.ProverOption
	PlonkVerifierOpts []backend.VerifierOption
)

// PlonkObserver, when set, sees every edited triple that reached the native verifier together with the native verdict (C17).
var PlonkObserver func(b *Behaviour, ccs constraint.ConstraintSystem, proof plonk.Proof, vk plonk.VerifyingKey, pw witness.Witness, verdict string)

// PlonkRun is plonkRun for other packages.
func PlonkRun(b *Behaviour) Result { return plonkRun(b) }

// PlonkAlt returns the verifying key of the alternative circuit (same layout, same SRS).
func PlonkAlt(shape string) plonk.VerifyingKey {
	f := plonkGetFixture(shape)
	if f.setupErr != nil {
		return nil
	}
	return f.vkAlt
}

func plonkReplay(args common.Args, out *common.Out) error {
	behs, err := common.ReadNDJSON[Behaviour](args.Get("in", ""))
	if err != nil {
		return err
	}
	common.ParallelFor(len(behs), args.Int("par", 8), func(i int) {
		r := plonkRun(&behs[i])
		if r.Verdict == "accept" || r.Verdict == "panic" {
			r2 := plonkRun(&behs[i])
			if r2.Verdict != r.Verdict {
				r.Note += " UNSTABLE second run: " + r2.Verdict
				r.Verdict = "unstable"
			}
		}
		out.Emit(r)
	})
	return nil
}
