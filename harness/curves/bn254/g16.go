package c_bn254

import (
	"bytes"
	"crypto/sha256"
	"fmt"
	"strings"
	"sync"

	"github.com/consensys/gnark-crypto/ecc/bn254/fr"
	"github.com/consensys/gnark/backend"
	"github.com/consensys/gnark/backend/groth16"
	g16c "github.com/consensys/gnark/backend/groth16/bn254"
	"github.com/consensys/gnark/backend/witness"
	"github.com/consensys/gnark/constraint"
	cs "github.com/consensys/gnark/constraint/bn254"
	"github.com/consensys/gnark/frontend"
	"github.com/consensys/gnark/frontend/cs/r1cs"
	"github.com/consensys/gnark/verifhook"

	"verifharness/circuits"
	"verifharness/common"
)

type g16Fixture struct {
	ccs      constraint.ConstraintSystem
	pk       groth16.ProvingKey
	vk       *g16c.VerifyingKey
	vkRe     *g16c.VerifyingKey // second Setup of the same circuit
	vkAlt    *g16c.VerifyingKey // Setup of a different circuit with the same layout
	proof    *g16c.Proof        // genuine, variant 0
	other    *g16c.Proof        // genuine, variant 1
	full0    witness.Witness
	pub0     witness.Witness
	pubVec0  fr.Vector
	pubVec1  fr.Vector
	setupErr error
}

var (
	g16FixMu sync.Mutex
	g16Fix   = map[string]*g16Fixture{}
	hookMu   sync.RWMutex // writers install verifhook.PostSolveFn; every other Prove holds the read lock
)

func g16GetFixture(shape string) *g16Fixture {
	g16FixMu.Lock()
	defer g16FixMu.Unlock()
	if f, ok := g16Fix[shape]; ok {
		return f
	}
	f := &g16Fixture{}
	g16Fix[shape] = f
	f.setupErr = func() error {
		ccs, err := frontend.Compile(field(), r1cs.NewBuilder, circuits.NewShape(shape))
		if err != nil {
			return fmt.Errorf("compile: %w", err)
		}
		f.ccs = ccs
		pk, vk, err := groth16.Setup(ccs)
		if err != nil {
			return fmt.Errorf("setup: %w", err)
		}
		f.pk, f.vk = pk, vk.(*g16c.VerifyingKey)
		_, vk2, err := groth16.Setup(ccs)
		if err != nil {
			return err
		}
		f.vkRe = vk2.(*g16c.VerifyingKey)
		ccsAlt, err := frontend.Compile(field(), r1cs.NewBuilder, circuits.NewShape(shape+"_alt"))
		if err != nil {
			return fmt.Errorf("compile alt: %w", err)
		}
		_, vk3, err := groth16.Setup(ccsAlt)
		if err != nil {
			return err
		}
		f.vkAlt = vk3.(*g16c.VerifyingKey)
		if f.full0, err = fullWitness(circuits.AssignShape(shape, 0)); err != nil {
			return err
		}
		if f.pub0, err = f.full0.Public(); err != nil {
			return err
		}
		f.pubVec0 = pubVector(f.pub0)
		full1, err := fullWitness(circuits.AssignShape(shape, 1))
		if err != nil {
			return err
		}
		pub1, _ := full1.Public()
		f.pubVec1 = pubVector(pub1)
		hookMu.RLock()
		defer hookMu.RUnlock()
		p0, err := groth16.Prove(ccs, pk, f.full0, G16ProverOpts...)
		if err != nil {
			return fmt.Errorf("prove0: %w", err)
		}
		f.proof = p0.(*g16c.Proof)
		p1, err := groth16.Prove(ccs, pk, full1, G16ProverOpts...)
		if err != nil {
			return fmt.Errorf("prove1: %w", err)
		}
		f.other = p1.(*g16c.Proof)
		// sanity: the genuine proofs verify
		if err := groth16.Verify(f.proof, f.vk, f.pub0, G16VerifierOpts...); err != nil {
			return fmt.Errorf("genuine proof rejected: %w", err)
		}
		return nil
	}()
	return f
}

func copyG16Proof(p *g16c.Proof) *g16c.Proof {
	q := *p
	q.Commitments = append(q.Commitments[:0:0], p.Commitments...)
	return &q
}

func g16Stage(err error) string {
	if err == nil {
		return ""
	}
	s := err.Error()
	switch {
	case strings.Contains(s, "invalid witness size"), strings.Contains(s, "witness"):
		return "witness-size"
	case strings.Contains(s, "number of commitments"), strings.Contains(s, "invalid proof: "):
		return "nb-commitments"
	case strings.Contains(s, "correct subgroup"):
		return "subgroup"
	case strings.Contains(s, "pairing doesn't match"):
		return "pairing"
	case strings.Contains(s, "commitments length mismatch"), strings.Contains(s, "pok"), strings.Contains(s, "commitment"),
		strings.Contains(s, "proof of knowledge"), strings.Contains(s, "proof rejected"), strings.Contains(s, "pairing mismatch"), strings.Contains(s, "can't verify"):
		return "pok"
	}
	return "other"
}

// g16Run replays one behaviour on the real Groth16 implementation.
func g16Run(b *Behaviour) Result {
	res := Result{ID: b.ID, Curve: CurveName, Backend: "groth16"}
	f := g16GetFixture(b.Shape)
	if f.setupErr != nil {
		res.Verdict, res.Err = "setup-error", f.setupErr.Error()
		return res
	}
	proof := copyG16Proof(f.proof)
	vk := f.vk
	pubVec := append(fr.Vector(nil), f.pubVec0...)
	var vopts []backend.VerifierOption
	roundTrip := ""
	// BadAssign edits need a fresh proof made from a tampered solution.
	for _, e := range b.Edits {
		if e.Op == "BadAssign" {
			hookMu.Lock()
			verifhook.PostSolveFn = func(_ any, sol any) {
				s, ok := sol.(*cs.R1CSSolution)
				if !ok {
					return
				}
				var one fr.Element
				one.SetOne()
				switch e.Cls {
				case "w":
					s.W[len(s.W)-1].Add(&s.W[len(s.W)-1], &one)
				case "wfirst":
					// first secret wire
					idx := f.ccs.GetNbPublicVariables()
					s.W[idx].Add(&s.W[idx], &one)
				case "c":
					s.C[0].Add(&s.C[0], &one)
				case "a":
					s.A[len(s.A)-1].Add(&s.A[len(s.A)-1], &one)
				}
			}
			var p groth16.Proof
			var err error
			pan, msg := common.Safely(func() { p, err = groth16.Prove(f.ccs, f.pk, f.full0, G16ProverOpts...) })
			verifhook.PostSolveFn = nil
			hookMu.Unlock()
			if pan {
				// a prover that refuses a non-satisfying assignment is fine
				res.Verdict, res.Stage, res.Note = "reject", "prove-panic", msg
				return res
			}
			if err != nil {
				res.Verdict, res.Stage, res.Err = "reject", "prove", err.Error()
				return res
			}
			proof = copyG16Proof(p.(*g16c.Proof))
		}
	}
	for _, e := range b.Edits {
		ok := true
		switch e.Op {
		case "BadAssign":
		case "ReplaceG1":
			switch e.Comp {
			case "Ar":
				proof.Ar, ok = g1Class(e.Cls, proof.Ar, f.other.Ar, f.vk.G1.Alpha)
			case "Krs":
				proof.Krs, ok = g1Class(e.Cls, proof.Krs, f.other.Krs, f.vk.G1.Alpha)
			case "Pok":
				proof.CommitmentPok, ok = g1Class(e.Cls, proof.CommitmentPok, f.other.CommitmentPok, f.vk.G1.Alpha)
			default:
				panic("bad comp " + e.Comp)
			}
		case "ReplaceG2":
			proof.Bs, ok = g2Class(e.Cls, proof.Bs, f.other.Bs, f.vk.G2.Beta)
		case "SwapArKrs":
			proof.Ar, proof.Krs = proof.Krs, proof.Ar
		case "CommitReplace":
			i := e.I - 1
			if i >= len(proof.Commitments) {
				ok = false
				break
			}
			proof.Commitments[i], ok = g1Class(e.Cls, proof.Commitments[i], f.other.Commitments[i], f.vk.G1.Alpha)
		case "CommitDrop":
			i := e.I - 1
			if i >= len(proof.Commitments) {
				ok = false
				break
			}
			proof.Commitments = append(proof.Commitments[:i:i], proof.Commitments[i+1:]...)
		case "CommitAppend":
			var base = f.vk.G1.Alpha
			if len(f.proof.Commitments) > 0 {
				base = f.proof.Commitments[0]
			}
			var el = base
			if e.Cls != "dup" {
				el, ok = g1Class(e.Cls, base, f.other.Ar, f.vk.G1.Alpha)
				if e.Cls == "inf" {
					ok = true
				}
			}
			proof.Commitments = append(proof.Commitments, el)
		case "CommitSwap":
			i, j := e.I-1, e.J-1
			if i >= len(proof.Commitments) || j >= len(proof.Commitments) {
				ok = false
				break
			}
			proof.Commitments[i], proof.Commitments[j] = proof.Commitments[j], proof.Commitments[i]
		case "AlterPub":
			i := e.I - 1
			var one fr.Element
			one.SetOne()
			if e.Cls == "other" {
				pubVec[i] = f.pubVec1[i]
			} else {
				pubVec[i].Add(&pubVec[i], &one)
			}
		case "ExtendPub":
			var x fr.Element
			if e.Cls != "zero" {
				x.SetUint64(5)
			}
			pubVec = append(pubVec, x)
		case "TruncPub":
			pubVec = pubVec[:len(pubVec)-1]
		case "OtherVK":
			if e.Cls == "resetup" {
				vk = f.vkRe
			} else {
				vk = f.vkAlt
			}
		case "HtfMismatch":
			vopts = append(vopts, backend.WithVerifierHashToFieldFunction(sha256.New()))
		case "RoundTrip":
			roundTrip = e.Cls
		default:
			panic("unknown edit op " + e.Op)
		}
		if !ok {
			res.Verdict, res.Note = "skip", "class not available on this curve: "+e.Op+"/"+e.Cls
			return res
		}
	}
	var pw witness.Witness
	var err error
	pw, err = witnessFromVector(pubVec)
	if err != nil {
		res.Verdict, res.Err = "harness-error", err.Error()
		return res
	}
	var toVerify groth16.Proof = proof
	if roundTrip != "" {
		var buf bytes.Buffer
		var werr error
		var n int64
		pan, msg := common.Safely(func() {
			if roundTrip == "raw" {
				n, werr = proof.WriteRawTo(&buf)
			} else {
				n, werr = proof.WriteTo(&buf)
			}
		})
		if pan {
			res.Verdict, res.Stage, res.Err = "panic", "encode", msg
			return res
		}
		if werr != nil {
			res.Verdict, res.Stage, res.Err = "reject", "encode", werr.Error()
			return res
		}
		if int(n) != buf.Len() {
			res.Note = fmt.Sprintf("WriteTo reported %d bytes, wrote %d", n, buf.Len())
		}
		dec := groth16.NewProof(CurveID)
		var rerr error
		pan, msg = common.Safely(func() { _, rerr = dec.ReadFrom(bytes.NewReader(buf.Bytes())) })
		if pan {
			res.Verdict, res.Stage, res.Err = "panic", "decode", msg
			return res
		}
		if rerr != nil {
			res.Verdict, res.Stage, res.Err = "reject", "decode", rerr.Error()
			return res
		}
		toVerify = dec
	}
	var verr error
	allOpts := append(append([]backend.VerifierOption(nil), G16VerifierOpts...), vopts...)
	pan, msg := common.Safely(func() { verr = groth16.Verify(toVerify, vk, pw, allOpts...) })
	switch {
	case pan:
		res.Verdict, res.Stage, res.Err = "panic", "verify", msg
	case verr == nil:
		res.Verdict = "accept"
	default:
		res.Verdict, res.Stage, res.Err = "reject", g16Stage(verr), verr.Error()
	}
	if G16Observer != nil && len(vopts) == 0 && !pan {
		G16Observer(b, f.ccs, toVerify, vk, pw, res.Verdict)
	}
	return res
}

// G16ProverOpts / G16VerifierOpts are appended to every native Prove / Verify call of the Groth16 replay (the recursion
// replay sets them to the options matching the in-circuit verifier before the first fixture is built).
var (
	G16ProverOpts   []backend.ProverOption
	G16VerifierOpts []backend.VerifierOption
)

// G16Alt returns the verifying key of the fixture's alternative circuit (same layout, other constraints).
func G16Alt(shape string) groth16.VerifyingKey {
	f := g16GetFixture(shape)
	if f.setupErr != nil {
		return nil
	}
	return f.vkAlt
}

// G16KeyHasInfinity reports whether one of the public-input bases of the key is the point at infinity (a public input
// no constraint uses): such a key is outside the domain of incomplete in-circuit arithmetic.
func G16KeyHasInfinity(vk groth16.VerifyingKey) bool {
	k, ok := vk.(*g16c.VerifyingKey)
	if !ok {
		return true
	}
	for i := range k.G1.K {
		if k.G1.K[i].IsInfinity() {
			return true
		}
	}
	return false
}

// G16Observer, when set, sees every edited triple that reached the native verifier (default options) together with the
// native verdict; used by the recursion replay (C17).
var G16Observer func(b *Behaviour, ccs constraint.ConstraintSystem, proof groth16.Proof, vk groth16.VerifyingKey, pw witness.Witness, verdict string)

// G16Run is g16Run for other packages.
func G16Run(b *Behaviour) Result { return g16Run(b) }

func g16Replay(args common.Args, out *common.Out) error {
	behs, err := common.ReadNDJSON[Behaviour](args.Get("in", ""))
	if err != nil {
		return err
	}
	common.ParallelFor(len(behs), args.Int("par", 8), func(i int) {
		r := g16Run(&behs[i])
		if r.Verdict == "accept" || r.Verdict == "panic" {
			// reproduce once more: a verdict must be stable before anyone acts on it
			r2 := g16Run(&behs[i])
			if r2.Verdict != r.Verdict {
				r.Note += " UNSTABLE second run: " + r2.Verdict
				r.Verdict = "unstable"
			}
		}
		out.Emit(r)
	})
	return nil
}
