// Package c_bn254 is the per-curve part of the harness. The bn254 copy is the source of
// truth; tools/gen_curves.py derives the other curves from it by rewriting import paths.
package c_bn254

import (
	"bytes"
	"crypto/rand"
	"fmt"
	"math/big"
	"reflect"
	"sync"

	"github.com/consensys/gnark-crypto/ecc"
	curve "github.com/consensys/gnark-crypto/ecc/bn254"
	"github.com/consensys/gnark-crypto/ecc/bn254/fr"
	"github.com/consensys/gnark/backend"
	"github.com/consensys/gnark/backend/witness"
	"github.com/consensys/gnark/constraint/solver"
	"github.com/consensys/gnark/frontend"

	"verifharness/common"
)

const CurveName = "bn254"

var CurveID = ecc.BN254

func init() {
	common.Register(&common.CurveOps{Name: CurveName, Cmds: map[string]func(common.Args, *common.Out) error{
		"g16replay":   g16Replay,
		"plonkreplay": plonkReplay,
		"framing":     framingCmd,
		"c10stress":   c10Stress,
		"keycheck":    keyCheck,
		"c06corpus":   c06Corpus,
		"c03replay":   c03Replay,
		"c20replay":   c20Replay,
		"c09replay":   c09Replay,
		"c09big":      c09Big,
		"c13replay":   c13Replay,
		"c13lookup":   c13Lookup,
		"c13bind":     c13Bind,
		"c18replay":   c18Replay,
		"c19replay":   c19Replay,
	}})
}

func field() *big.Int { return CurveID.ScalarField() }

// ---------- group element classes used by the protocol edit alphabets ----------

var (
	offOnce sync.Once
	offG1   *curve.G1Affine
	offG2   *curve.G2Affine
)

// offSubgroup returns points that are on the curve but outside the prime-order subgroup
// (nil when none could be found, e.g. cofactor 1).
func offSubgroup() (*curve.G1Affine, *curve.G2Affine) {
	offOnce.Do(func() {
		_, _, g1, g2 := curve.Generators()
		// G1
		for try := 0; try < 400 && offG1 == nil; try++ {
			buf := g1.Bytes()
			b := buf[:]
			rb := make([]byte, len(b)-1)
			rand.Read(rb)
			copy(b[1:], rb)
			var p curve.G1Affine
			dec := curve.NewDecoder(bytes.NewReader(b), curve.NoSubgroupChecks())
			if err := dec.Decode(&p); err != nil {
				continue
			}
			if p.IsOnCurve() && !p.IsInSubGroup() && !p.IsInfinity() {
				q := p
				offG1 = &q
			}
		}
		for try := 0; try < 400 && offG2 == nil; try++ {
			buf := g2.Bytes()
			b := buf[:]
			rb := make([]byte, len(b)-1)
			rand.Read(rb)
			copy(b[1:], rb)
			var p curve.G2Affine
			dec := curve.NewDecoder(bytes.NewReader(b), curve.NoSubgroupChecks())
			if err := dec.Decode(&p); err != nil {
				continue
			}
			if p.IsOnCurve() && !p.IsInSubGroup() && !p.IsInfinity() {
				q := p
				offG2 = &q
			}
		}
	})
	return offG1, offG2
}

// g1Class returns the replacement for orig of the given class; ok=false when the class
// does not exist on this curve.
func g1Class(cls string, orig, other, vkel curve.G1Affine) (curve.G1Affine, bool) {
	var r curve.G1Affine
	switch cls {
	case "other":
		return other, !other.Equal(&orig)
	case "inf":
		return r, !orig.IsInfinity()
	case "neg":
		r.Neg(&orig)
		return r, !orig.IsInfinity()
	case "rand":
		_, _, g1, _ := curve.Generators()
		var k fr.Element
		k.SetRandom()
		var kb big.Int
		k.BigInt(&kb)
		r.ScalarMultiplication(&g1, &kb)
		return r, true
	case "dbl":
		r.Add(&orig, &orig)
		return r, !orig.IsInfinity()
	case "vkel":
		return vkel, !vkel.Equal(&orig)
	case "offsub":
		p, _ := offSubgroup()
		if p == nil {
			return r, false
		}
		return *p, true
	case "torsion":
		// orig + T with T = [r]Q a pure cofactor-torsion point: only usable when the pairing cannot see T
		p, _ := offSubgroup()
		if p == nil || orig.IsInfinity() {
			return r, false
		}
		var t curve.G1Affine
		t.ScalarMultiplication(p, fr.Modulus())
		if t.IsInfinity() {
			return r, false
		}
		r.Add(&orig, &t)
		if r.IsInSubGroup() {
			return r, false
		}
		var neg curve.G1Affine
		neg.Neg(&orig)
		_, _, _, g2 := curve.Generators()
		ok, err := curve.PairingCheck([]curve.G1Affine{r, neg}, []curve.G2Affine{g2, g2})
		if err != nil || !ok {
			return r, false
		}
		return r, true
	}
	panic("unknown g1 class " + cls)
}

func g2Class(cls string, orig, other, vkel curve.G2Affine) (curve.G2Affine, bool) {
	var r curve.G2Affine
	switch cls {
	case "other":
		return other, !other.Equal(&orig)
	case "inf":
		return r, !orig.IsInfinity()
	case "neg":
		r.Neg(&orig)
		return r, !orig.IsInfinity()
	case "rand":
		_, _, _, g2 := curve.Generators()
		var k fr.Element
		k.SetRandom()
		var kb big.Int
		k.BigInt(&kb)
		r.ScalarMultiplication(&g2, &kb)
		return r, true
	case "dbl":
		r.Add(&orig, &orig)
		return r, !orig.IsInfinity()
	case "vkel":
		return vkel, !vkel.Equal(&orig)
	case "offsub":
		_, p := offSubgroup()
		if p == nil {
			return r, false
		}
		return *p, true
	}
	panic("unknown g2 class " + cls)
}

// ---------- witnesses ----------

func fullWitness(assign frontend.Circuit) (witness.Witness, error) {
	return frontend.NewWitness(assign, field())
}

func fullWitnessAny(assign any) (witness.Witness, error) {
	return frontend.NewWitness(assign.(frontend.Circuit), field())
}

func backendSolverOpts(opts []solver.Option) []backend.ProverOption {
	return []backend.ProverOption{backend.WithSolverOptions(opts...)}
}

func frontendLeafType() reflect.Type { return reflect.TypeOf((*frontend.Variable)(nil)).Elem() }

func pubWitness(assign frontend.Circuit) (witness.Witness, error) {
	return frontend.NewWitness(assign, field(), frontend.PublicOnly())
}

// witnessFromVector builds a public-only witness holding exactly vec.
func witnessFromVector(vec fr.Vector) (witness.Witness, error) {
	w, err := witness.New(field())
	if err != nil {
		return nil, err
	}
	ch := make(chan any, len(vec))
	for i := range vec {
		ch <- vec[i]
	}
	close(ch)
	if err := w.Fill(len(vec), 0, ch); err != nil {
		return nil, err
	}
	return w, nil
}

func pubVector(w witness.Witness) fr.Vector {
	v := w.Vector().(fr.Vector)
	r := make(fr.Vector, len(v))
	copy(r, v)
	return r
}

// Edit is one adversarial or neutral action of a protocol behaviour (see specs/*Protocol.tla).
type Edit struct {
	Op   string `json:"op"`
	Comp string `json:"comp,omitempty"`
	Cls  string `json:"cls,omitempty"`
	I    int    `json:"i,omitempty"`
	J    int    `json:"j,omitempty"`
}

// Behaviour is a TLC-generated protocol behaviour.
type Behaviour struct {
	ID    int    `json:"id"`
	Shape string `json:"shape"`
	Edits []Edit `json:"edits"`
	Spec  string `json:"spec"`  // verdict the property demands: accept | reject
	Code  string `json:"code"`  // verdict of the transcribed step list
	Stage string `json:"stage"` // stage at which the transcribed step list rejects
}

// Result is what the real code did.
type Result struct {
	ID      int    `json:"id"`
	Curve   string `json:"curve"`
	Backend string `json:"backend"`
	Verdict string `json:"verdict"` // accept | reject | panic | skip
	Stage   string `json:"stage"`
	Err     string `json:"err,omitempty"`
	Note    string `json:"note,omitempty"`
}

func errString(err error) string {
	if err == nil {
		return ""
	}
	return fmt.Sprint(err)
}
