package generic

import (
	"fmt"
	"math/big"
	"reflect"
	"runtime"
	"strconv"
	"strings"
	"sync"
	"time"

	"github.com/consensys/gnark/constraint/solver"
	"github.com/consensys/gnark/frontend"
	"github.com/consensys/gnark/verifhook"

	"verifharness/circuits"
	"verifharness/common"
)

func goid() int64 {
	var buf [64]byte
	n := runtime.Stack(buf[:], false)
	f := strings.Fields(string(buf[:n]))
	if len(f) < 2 {
		return -1
	}
	id, _ := strconv.ParseInt(f[1], 10, 64)
	return id
}

type schedStep struct {
	C   int    `json:"c"`
	Act string `json:"act"`
}

type gatedOutcome struct {
	PC   string `json:"pc"`
	Read []int  `json:"read"`
	Hint int    `json:"hint"`
}

// GatedBeh is a complete schedule emitted by SharedCS.tla with the outcome the model predicts.
type GatedBeh struct {
	ID      int            `json:"id"`
	N       int            `json:"n"`
	Nb      int            `json:"nb"`
	Sched   []schedStep    `json:"sched"`
	Outcome []gatedOutcome `json:"outcome"`
}

type GatedRes struct {
	ID     int      `json:"id"`
	Read   [][]int  `json:"read"`  // per caller: owner of every entry it read (0 = zero value, -1 = unknown value)
	Err    []string `json:"err"`   // per caller: Solve error ("" = solved)
	Status string   `json:"status"` // ok | stuck:<where> | panic
	Note   string   `json:"note,omitempty"`
}

type gateEvent struct {
	caller int
	site   string
	obj    any
	a, b   int
}

// gatedRunner serialises replays (the hook is process-global).
var gatedMu sync.Mutex

var gateAfter = map[string][]string{
	"reset":  {"lookup.reset.done", "lookup.enter"},
	"lock":   {"lookup.locked"},
	"extend": {"lookup.extended"},
	"unlock": {"lookup.unlocked"},
	"read":   {"lookup.read"},
}

func expectedTable(variant int, mod *big.Int) []*big.Int {
	a := circuits.AssignCorpus("lookup", variant, mod)
	s := make([]*big.Int, 3)
	for i := 0; i < 3; i++ {
		s[i] = a.S[i].(*big.Int)
	}
	t3 := new(big.Int).Add(s[0], s[1])
	t3.Mod(t3, mod)
	t4 := new(big.Int).Mul(s[1], s[2])
	t4.Mod(t4, mod)
	return []*big.Int{s[0], s[1], s[2], t3, t4}
}

// entriesAt reads b.cachedEntries[:nb] (up to capacity) through reflection and converts the
// Montgomery-form words to big.Int with toBig.
func entriesAt(b any, nb int, toBig func(words []uint64) *big.Int) []*big.Int {
	v := reflect.ValueOf(b).Elem().FieldByName("cachedEntries")
	if !v.IsValid() || nb > v.Cap() {
		return nil
	}
	sl := v.Slice3(0, nb, nb)
	out := make([]*big.Int, nb)
	for i := 0; i < nb; i++ {
		e := sl.Index(i)
		w := make([]uint64, e.Len())
		for j := range w {
			w[j] = e.Index(j).Uint()
		}
		out[i] = toBig(w)
	}
	return out
}

func gatedRun(b *GatedBeh, field string, cs AnyCS, toBig func([]uint64) *big.Int) GatedRes {
	gatedMu.Lock()
	defer gatedMu.Unlock()
	mod, _ := FieldByName(field)
	res := GatedRes{ID: b.ID, Read: make([][]int, b.N), Err: make([]string, b.N), Status: "ok"}
	tables := make([][]*big.Int, b.N+1)
	for c := 1; c <= b.N; c++ {
		tables[c] = expectedTable(c, mod)
	}
	owner := func(idx int, v *big.Int) int {
		if v.Sign() == 0 {
			return 0
		}
		for c := 1; c <= b.N; c++ {
			if tables[c][idx].Cmp(v) == 0 {
				return c
			}
		}
		return -1
	}
	var mu sync.Mutex
	callerOf := map[int64]int{}
	free := map[int]bool{}
	arrived := make(chan gateEvent, 64)
	release := make([]chan struct{}, b.N+1)
	for c := range release {
		release[c] = make(chan struct{}, 1)
	}
	verifhook.GateFn = func(site string, obj any, a, bb int) {
		mu.Lock()
		c, ok := callerOf[goid()]
		fr := free[c]
		mu.Unlock()
		if !ok || fr {
			return
		}
		arrived <- gateEvent{c, site, obj, a, bb}
		<-release[c]
	}
	defer func() { verifhook.GateFn = nil }()
	done := make([]chan struct{}, b.N+1)
	started := make(chan struct{}, b.N)
	for c := 1; c <= b.N; c++ {
		done[c] = make(chan struct{})
		go func(c int) {
			defer close(done[c])
			mu.Lock()
			callerOf[goid()] = c
			mu.Unlock()
			started <- struct{}{}
			w, err := frontend.NewWitness(circuits.AssignCorpus("lookup", c, mod), mod)
			if err != nil {
				res.Err[c-1] = "witness: " + err.Error()
				return
			}
			pan, msg := common.Safely(func() {
				_, err = cs.Solve(w, solver.WithNbTasks(1))
			})
			if pan {
				res.Err[c-1] = "panic: " + msg
			} else if err != nil {
				res.Err[c-1] = err.Error()
			}
		}(c)
	}
	for c := 1; c <= b.N; c++ {
		<-started
	}
	at := make([]string, b.N+1) // gate each caller is blocked at
	waitGate := func(c int, want string) (gateEvent, bool) {
		for {
			select {
			case ev := <-arrived:
				at[ev.caller] = ev.site
				if ev.caller == c && ev.site == want {
					return ev, true
				}
				if ev.caller == c {
					// an unexpected gate of this caller: pass through
					release[c] <- struct{}{}
				}
			case <-time.After(5 * time.Second):
				return gateEvent{}, false
			}
		}
	}
	// every caller first blocks at lookup.reset.enter
	pending := b.N
	for pending > 0 {
		select {
		case ev := <-arrived:
			at[ev.caller] = ev.site
			if ev.site != "lookup.reset.enter" {
				res.Status = "stuck:first gate is " + ev.site
				return res
			}
			pending--
		case <-time.After(10 * time.Second):
			res.Status = "stuck:start"
			return res
		}
	}
	abort := func(where string) GatedRes {
		res.Status = "stuck:" + where
		// let everything run free so the goroutines end
		mu.Lock()
		for c := 1; c <= b.N; c++ {
			free[c] = true
		}
		mu.Unlock()
		for c := 1; c <= b.N; c++ {
			select {
			case release[c] <- struct{}{}:
			default:
			}
		}
		return res
	}
	for k, st := range b.Sched {
		gates, ok := gateAfter[st.Act]
		if !ok {
			continue // "append" and internal steps have no gate in a Solve-only replay
		}
		for _, g := range gates {
			release[st.C] <- struct{}{}
			ev, ok := waitGate(st.C, g)
			if !ok {
				return abort(fmt.Sprintf("step %d caller %d waiting for %s (at %s)", k, st.C, g, at[st.C]))
			}
			if g == "lookup.read" {
				ents := entriesAt(ev.obj, ev.b, toBig)
				if ents == nil {
					res.Note += fmt.Sprintf("caller %d: cannot read %d entries; ", st.C, ev.b)
				}
				for idx, v := range ents {
					res.Read[st.C-1] = append(res.Read[st.C-1], owner(idx, v))
				}
				// run to completion without further gating
				mu.Lock()
				free[st.C] = true
				mu.Unlock()
				release[st.C] <- struct{}{}
				select {
				case <-done[st.C]:
				case <-time.After(20 * time.Second):
					return abort(fmt.Sprintf("caller %d did not finish after read", st.C))
				}
			}
		}
	}
	return res
}

// C10Gated replays SharedCS.tla schedules on the real solver (BN254 scalar field, r1cs or scs).
func C10Gated(args common.Args, out *common.Out) error {
	behs, err := common.ReadNDJSON[GatedBeh](args.Get("in", ""))
	if err != nil {
		return err
	}
	builder := args.Get("builder", "r1cs")
	field := "bn254"
	cs, err := CompileAny(field, builder, circuits.NewCorpus("lookup"))
	if err != nil {
		return err
	}
	mod, _ := FieldByName(field)
	// Montgomery R^-1 for 4-word elements of the BN254 scalar field
	rinv := new(big.Int).Lsh(big.NewInt(1), 256)
	rinv.ModInverse(rinv, mod)
	toBig := func(w []uint64) *big.Int {
		x := new(big.Int)
		for i := 3; i >= 0; i-- {
			x.Lsh(x, 64)
			x.Or(x, new(big.Int).SetUint64(w[i]))
		}
		x.Mul(x, rinv)
		return x.Mod(x, mod)
	}
	for i := range behs {
		out.Emit(gatedRun(&behs[i], field, cs, toBig))
	}
	return nil
}
