package generic

import (
	"crypto/elliptic"
	"fmt"
	"math/big"

	"github.com/consensys/gnark-crypto/ecc"
	bls12381 "github.com/consensys/gnark-crypto/ecc/bls12-381"
	bn254 "github.com/consensys/gnark-crypto/ecc/bn254"
	bn254fr "github.com/consensys/gnark-crypto/ecc/bn254/fr"
	bn254te "github.com/consensys/gnark-crypto/ecc/bn254/twistededwards"
	bw6761 "github.com/consensys/gnark-crypto/ecc/bw6-761"
	"github.com/consensys/gnark-crypto/ecc/secp256k1"
	tedwards "github.com/consensys/gnark-crypto/ecc/twistededwards"
	"github.com/consensys/gnark/frontend"
	"github.com/consensys/gnark/std/algebra/algopts"
	"github.com/consensys/gnark/std/algebra/emulated/sw_emulated"
	"github.com/consensys/gnark/std/algebra/native/twistededwards"
	"github.com/consensys/gnark/std/math/emulated"
	"github.com/consensys/gnark/test"

	"verifharness/common"
)

// CurveCase is one case of specs/CurveOps.tla.
type CurveCase struct {
	ID       int    `json:"id"`
	Op       string `json:"op"`
	P        int    `json:"p"`
	Q        int    `json:"q"`
	S        string `json:"s"`
	T        string `json:"t"`
	Complete bool   `json:"complete"`
	Full     int    `json:"full"`
	Exp      struct {
		Def bool `json:"def"`
		K   int  `json:"k"`
	} `json:"exp"`
}

type CurveRes struct {
	ID       int      `json:"id"`
	Family   string   `json:"family"`
	Runs     int      `json:"runs"`
	Skipped  string   `json:"skipped,omitempty"`
	Problems []string `json:"problems"`
}

// scalar classes: integer value given to the gadget
func curveScalar(class string, r *big.Int) *big.Int {
	switch class {
	case "r-1":
		return new(big.Int).Sub(r, big.NewInt(1))
	case "r":
		return new(big.Int).Set(r)
	case "r+1":
		return new(big.Int).Add(r, big.NewInt(1))
	}
	v, _ := new(big.Int).SetString(class, 10)
	return v
}

// ---- short Weierstrass curves over emulated fields ----

type SWCircuit[B, S emulated.FieldParams] struct {
	P, Q, E sw_emulated.AffinePoint[B]
	S1, S2  emulated.Element[S]
	Case    CurveCase `gnark:"-"`
}

func (c *SWCircuit[B, S]) Define(api frontend.API) error {
	cr, err := sw_emulated.New[B, S](api, sw_emulated.GetCurveParams[B]())
	if err != nil {
		return err
	}
	var opts []algopts.AlgebraOption
	if c.Case.Complete {
		opts = append(opts, algopts.WithCompleteArithmetic())
	}
	var r *sw_emulated.AffinePoint[B]
	switch c.Case.Op {
	case "Add":
		r = cr.Add(&c.P, &c.Q)
	case "AddUnified":
		r = cr.AddUnified(&c.P, &c.Q)
	case "Neg":
		r = cr.Neg(&c.P)
	case "ScalarMul":
		r = cr.ScalarMul(&c.P, &c.S1, opts...)
	case "ScalarMulBase":
		r = cr.ScalarMulBase(&c.S1, opts...)
	case "JointScalarMulBase":
		r = cr.JointScalarMulBase(&c.P, &c.S2, &c.S1, opts...) // [S1]G + [S2]P
	case "Msm2":
		r, err = cr.MultiScalarMul([]*sw_emulated.AffinePoint[B]{&c.P, &c.Q}, []*emulated.Element[S]{&c.S1, &c.S2}, opts...)
		if err != nil {
			return err
		}
	default:
		return fmt.Errorf("operation %q not offered", c.Case.Op)
	}
	cr.AssertIsEqual(r, &c.E)
	return nil
}

type swNative struct {
	order *big.Int
	mul   func(k *big.Int) (x, y *big.Int) // [k]G, k in [0, order); (0,0) for infinity
}

func swFamily(name string) *swNative {
	aff := func(x, y interface{ BigInt(*big.Int) *big.Int }, inf bool) (*big.Int, *big.Int) {
		if inf {
			return new(big.Int), new(big.Int)
		}
		return x.BigInt(new(big.Int)), y.BigInt(new(big.Int))
	}
	switch name {
	case "secp256k1":
		return &swNative{ecc.SECP256K1.ScalarField(), func(k *big.Int) (*big.Int, *big.Int) {
			var p secp256k1.G1Affine
			p.ScalarMultiplicationBase(k)
			return aff(&p.X, &p.Y, p.IsInfinity())
		}}
	case "bn254":
		return &swNative{ecc.BN254.ScalarField(), func(k *big.Int) (*big.Int, *big.Int) {
			var p bn254.G1Affine
			p.ScalarMultiplicationBase(k)
			return aff(&p.X, &p.Y, p.IsInfinity())
		}}
	case "bls12381":
		return &swNative{ecc.BLS12_381.ScalarField(), func(k *big.Int) (*big.Int, *big.Int) {
			var p bls12381.G1Affine
			p.ScalarMultiplicationBase(k)
			return aff(&p.X, &p.Y, p.IsInfinity())
		}}
	case "bw6761":
		return &swNative{ecc.BW6_761.ScalarField(), func(k *big.Int) (*big.Int, *big.Int) {
			var p bw6761.G1Affine
			p.ScalarMultiplicationBase(k)
			return aff(&p.X, &p.Y, p.IsInfinity())
		}}
	case "p256", "p384":
		cv := elliptic.P256()
		if name == "p384" {
			cv = elliptic.P384()
		}
		return &swNative{cv.Params().N, func(k *big.Int) (*big.Int, *big.Int) {
			if k.Sign() == 0 {
				return new(big.Int), new(big.Int)
			}
			return cv.ScalarBaseMult(k.Bytes())
		}}
	}
	return nil
}

func swRun[B, S emulated.FieldParams](c *CurveCase, fam string, res *CurveRes, bad func(string, ...any)) {
	nat := swFamily(fam)
	if c.Op == "Double" {
		res.Skipped = "no public Double on the emulated curve"
		return
	}
	pt := func(k int) sw_emulated.AffinePoint[B] {
		kk := new(big.Int).Mod(big.NewInt(int64(k)), nat.order)
		x, y := nat.mul(kk)
		return sw_emulated.AffinePoint[B]{X: emulated.ValueOf[B](x), Y: emulated.ValueOf[B](y)}
	}
	mk := func() *SWCircuit[B, S] { return &SWCircuit[B, S]{Case: *c} }
	assign := func(expK int) *SWCircuit[B, S] {
		return &SWCircuit[B, S]{P: pt(c.P), Q: pt(c.Q), E: pt(expK),
			S1: limbsOf[S](curveScalar(c.S, nat.order)), S2: limbsOf[S](curveScalar(c.T, nat.order))}
	}
	mod := ecc.BN254.ScalarField()
	var e error
	pan, msg := common.Safely(func() { e = test.IsSolved(mk(), assign(c.Exp.K), mod) })
	res.Runs++
	if pan {
		bad("gadget panics: %s", msg)
		return
	}
	if e != nil {
		bad("result differs from the native group law: %s", firstLine(e.Error()))
		return
	}
	pan, msg = common.Safely(func() { e = test.IsSolved(mk(), assign(c.Exp.K+1), mod) })
	res.Runs++
	if pan {
		bad("gadget panics: %s", msg)
	} else if e == nil {
		bad("a wrong result ([k+1]G) is accepted")
	}
}

// ---- native twisted Edwards (companion curve of BN254) ----

type TECircuit struct {
	P, Q, E twistededwards.Point
	S1, S2  frontend.Variable
	Case    CurveCase `gnark:"-"`
}

func (c *TECircuit) Define(api frontend.API) error {
	cr, err := twistededwards.NewEdCurve(api, tedwards.BN254)
	if err != nil {
		return err
	}
	var r twistededwards.Point
	switch c.Case.Op {
	case "Add", "AddUnified":
		r = cr.Add(c.P, c.Q)
	case "Double":
		r = cr.Double(c.P)
	case "Neg":
		r = cr.Neg(c.P)
	case "ScalarMul":
		r = cr.ScalarMul(c.P, c.S1)
	case "ScalarMulBase":
		b := cr.Params().Base
		r = cr.ScalarMul(twistededwards.Point{X: b[0], Y: b[1]}, c.S1)
	case "Msm2":
		r = cr.DoubleBaseScalarMul(c.P, c.Q, c.S1, c.S2)
	default:
		return fmt.Errorf("operation %q not offered", c.Case.Op)
	}
	api.AssertIsEqual(r.X, c.E.X)
	api.AssertIsEqual(r.Y, c.E.Y)
	api.AssertIsDifferent(api.Add(c.S2, c.Q.X, c.Q.Y, 12345), api.Add(c.S2, c.Q.X, c.Q.Y))
	return nil
}

func teRun(c *CurveCase, res *CurveRes, bad func(string, ...any)) {
	if c.Op == "JointScalarMulBase" {
		res.Skipped = "not offered on twisted Edwards"
		return
	}
	params := bn254te.GetEdwardsCurve()
	order := &params.Order
	pt := func(k int) twistededwards.Point {
		kk := new(big.Int).Mod(big.NewInt(int64(k)), order)
		var p bn254te.PointAffine
		p.ScalarMultiplication(&params.Base, kk)
		return twistededwards.Point{X: p.X.BigInt(new(big.Int)), Y: p.Y.BigInt(new(big.Int))}
	}
	mk := func() *TECircuit { return &TECircuit{Case: *c} }
	assign := func(expK int) *TECircuit {
		return &TECircuit{P: pt(c.P), Q: pt(c.Q), E: pt(expK), S1: curveScalar(c.S, order), S2: curveScalar(c.T, order)}
	}
	mod := bn254fr.Modulus()
	var e error
	pan, msg := common.Safely(func() { e = test.IsSolved(mk(), assign(c.Full), mod) })
	res.Runs++
	if pan {
		bad("gadget panics: %s", msg)
		return
	}
	if e != nil {
		bad("result differs from the native group law: %s", firstLine(e.Error()))
		return
	}
	pan, msg = common.Safely(func() { e = test.IsSolved(mk(), assign(c.Full+1), mod) })
	res.Runs++
	if pan {
		bad("gadget panics: %s", msg)
	} else if e == nil {
		bad("a wrong result ([k+1]G) is accepted")
	}
}

// CurveReplay replays CurveOps.tla cases on one curve family.
func CurveReplay(args common.Args, out *common.Out) error {
	cases, err := common.ReadNDJSON[CurveCase](args.Get("in", ""))
	if err != nil {
		return err
	}
	fam := args.Get("family", "secp256k1")
	common.ParallelFor(len(cases), args.Int("par", 16), func(i int) {
		c := &cases[i]
		res := CurveRes{ID: c.ID, Family: fam}
		bad := func(f string, a ...any) {
			if len(res.Problems) < 4 {
				res.Problems = append(res.Problems, fmt.Sprintf(f, a...))
			}
		}
		defer func() { out.Emit(res) }()
		if !c.Exp.Def && fam != "tedwards-bn254" {
			res.Skipped = "outside the documented domain"
			return
		}
		switch fam {
		case "secp256k1":
			swRun[emulated.Secp256k1Fp, emulated.Secp256k1Fr](c, fam, &res, bad)
		case "bn254":
			swRun[emulated.BN254Fp, emulated.BN254Fr](c, fam, &res, bad)
		case "bls12381":
			swRun[emulated.BLS12381Fp, emulated.BLS12381Fr](c, fam, &res, bad)
		case "bw6761":
			swRun[emulated.BW6761Fp, emulated.BW6761Fr](c, fam, &res, bad)
		case "p256":
			swRun[emulated.P256Fp, emulated.P256Fr](c, fam, &res, bad)
		case "p384":
			swRun[emulated.P384Fp, emulated.P384Fr](c, fam, &res, bad)
		case "bls12377-g1", "bls12377-g2":
			run377(c, fam, &res, bad)
		case "tedwards-bn254":
			// the Edwards addition law is complete: every case is in the domain, the expectation is the complete variant's
			teRun(c, &res, bad)
		default:
			bad("INFRA unknown family %q", fam)
		}
	})
	return nil
}
