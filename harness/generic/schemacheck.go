package generic

import (
	"bytes"
	"fmt"
	"math/big"
	"reflect"
	"strings"

	"github.com/consensys/gnark/backend/witness"
	"github.com/consensys/gnark/frontend"
	"github.com/consensys/gnark/frontend/schema"

	"github.com/consensys/gnark/test"

	"verifharness/circuits"
	"verifharness/common"
)

type SchemaRes struct {
	Name     string   `json:"name"`
	Field    string   `json:"field"`
	Conflict bool     `json:"conflict"`
	NbLeaves int      `json:"nb_leaves"`
	Problems []string `json:"problems"`
}

func vecInts(w witness.Witness) []int64 {
	vs := vecToBig(reflect.ValueOf(w.Vector()))
	r := make([]int64, len(vs))
	for i, v := range vs {
		if v.IsInt64() {
			r[i] = v.Int64()
		} else {
			r[i] = -1
		}
	}
	return r
}

func schemaOne(e circuits.SchemaEntry, field string) SchemaRes {
	res := SchemaRes{Name: e.Name, Field: field, Conflict: e.Conflict, NbLeaves: e.NbPublic + e.NbSecret}
	bad := func(f string, a ...any) {
		if len(res.Problems) < 8 {
			res.Problems = append(res.Problems, fmt.Sprintf(f, a...))
		}
	}
	mod, _ := FieldByName(field)
	assign := e.New()
	leaves := e.Leaves(assign)
	for k, l := range leaves {
		*l = k + 1
	}
	var w witness.Witness
	var err error
	pan, msg := common.Safely(func() { w, err = frontend.NewWitness(assign, mod) })
	if pan {
		bad("NewWitness panics: %s", msg)
		return res
	}
	if e.Conflict {
		if err == nil {
			bad("conflicting visibility tags accepted by NewWitness")
		}
		for _, b := range []string{"r1cs", "scs"} {
			var cerr error
			pan, msg := common.Safely(func() { _, cerr = CompileAny(field, b, e.New()) })
			if !pan && cerr == nil {
				bad("conflicting visibility tags accepted by Compile (%s)", b)
			}
			_ = msg
		}
		return res
	}
	if err != nil {
		bad("NewWitness fails on a well-formed circuit: %v", err)
		return res
	}
	n := len(leaves)
	want := make([]int64, n)
	for i := range want {
		want[i] = int64(i + 1)
	}
	if got := vecInts(w); fmt.Sprint(got) != fmt.Sprint(want) {
		bad("witness vector is %v, documented order gives %v", got, want)
	}
	pub, err := w.Public()
	if err != nil {
		bad("Public(): %v", err)
	} else if got := vecInts(pub); fmt.Sprint(got) != fmt.Sprint(want[:e.NbPublic]) {
		bad("Public() is %v, expected the public prefix %v", got, want[:e.NbPublic])
	}
	if po, err := frontend.NewWitness(assign, mod, frontend.PublicOnly()); err != nil {
		bad("NewWitness(PublicOnly): %v", err)
	} else if got := vecInts(po); fmt.Sprint(got) != fmt.Sprint(want[:e.NbPublic]) {
		bad("public-only witness is %v, expected %v", got, want[:e.NbPublic])
	}
	// encodings
	data, err := w.MarshalBinary()
	if err != nil {
		bad("MarshalBinary: %v", err)
	} else {
		w2, _ := witness.New(mod)
		if err := w2.UnmarshalBinary(data); err != nil {
			bad("UnmarshalBinary: %v", err)
		} else if fmt.Sprint(vecInts(w2)) != fmt.Sprint(want) {
			bad("binary round trip changes the vector: %v", vecInts(w2))
		} else if p2, err := w2.Public(); err != nil || fmt.Sprint(vecInts(p2)) != fmt.Sprint(want[:e.NbPublic]) {
			bad("binary round trip loses the public/secret split")
		}
	}
	if n > 0 {
		sch, err := schema.New(e.New(), reflect.TypeOf((*frontend.Variable)(nil)).Elem())
		if err != nil {
			bad("schema.New: %v", err)
		} else if js, err := safeToJSON(w, sch); err != nil {
			bad("ToJSON: %v", err)
		} else {
			w3, _ := witness.New(mod)
			if err := w3.FromJSON(sch, js); err != nil {
				bad("FromJSON of its own output: %v (%s)", err, js)
			} else if fmt.Sprint(vecInts(w3)) != fmt.Sprint(want) {
				bad("JSON round trip changes the vector: %v (json %s)", vecInts(w3), js)
			}
		}
	}
	// the compiler allocates its input wires in the same order: every leaf carries the value assigned to that field
	for _, b := range []string{"r1cs", "scs"} {
		if n == 0 {
			break // a circuit without any input is degenerate (nothing to bind)
		}
		var cs AnyCS
		var cerr error
		pan, msg := common.Safely(func() { cs, cerr = CompileAny(field, b, e.New()) })
		if pan || cerr != nil {
			bad("Compile (%s) of a well-formed circuit fails: %v %s", b, cerr, msg)
			continue
		}
		np := cs.GetNbPublicVariables()
		if b == "r1cs" {
			np-- // ONE wire
		}
		if np != e.NbPublic || cs.GetNbSecretVariables() != e.NbSecret {
			bad("%s: compiled system has %d public / %d secret inputs, documented leaves: %d / %d", b, np, cs.GetNbSecretVariables(), e.NbPublic, e.NbSecret)
			continue
		}
		var serr error
		if pan, msg := common.Safely(func() { _, serr = cs.Solve(w) }); pan {
			bad("%s: Solve panics: %s", b, msg)
		} else if serr != nil {
			bad("%s: inside Define a variable does not carry the value assigned to its field: %v", b, firstLine(serr.Error()))
		}
		if n >= 2 {
			// swap two values: now some variable carries a wrong value and the circuit must be unsatisfied
			a2 := e.New()
			l2 := e.Leaves(a2)
			for k, l := range l2 {
				*l = k + 1
			}
			i, j := 0, n-1
			*l2[i], *l2[j] = *l2[j], *l2[i]
			w4, err := frontend.NewWitness(a2, mod)
			if err == nil {
				var e4 error
				common.Safely(func() { _, e4 = cs.Solve(w4) })
				if e4 == nil {
					bad("%s: a witness with the values of leaves %d and %d exchanged still satisfies the circuit", b, i, j)
				}
			}
			_ = err
		}
	}
	return res
}

// ---- value conversion: every accepted assignment value type reduces modulo the field ----

type convCircuit struct {
	X frontend.Variable `gnark:",public"`
	Y frontend.Variable
}

func (c *convCircuit) Define(api frontend.API) error { api.AssertIsEqual(c.X, c.Y); return nil }

func convCheck(field string) SchemaRes {
	res := SchemaRes{Name: "value-conversion", Field: field}
	bad := func(f string, a ...any) { res.Problems = append(res.Problems, fmt.Sprintf(f, a...)) }
	mod, _ := FieldByName(field)
	pm1 := new(big.Int).Sub(mod, big.NewInt(1))
	tp1 := new(big.Int).Add(new(big.Int).Lsh(mod, 1), big.NewInt(1)) // 2p+1
	cases := []struct {
		name string
		v    any
		want *big.Int
	}{
		{"int", 5, big.NewInt(5)}, {"int8 negative", int8(-1), pm1}, {"int64 negative", int64(-3), new(big.Int).Sub(mod, big.NewInt(3))},
		{"uint8", uint8(200), new(big.Int).Mod(big.NewInt(200), mod)}, {"uint64 max", ^uint64(0), new(big.Int).Mod(new(big.Int).SetUint64(^uint64(0)), mod)},
		{"big.Int p-1", new(big.Int).Set(pm1), pm1}, {"big.Int p", new(big.Int).Set(mod), big.NewInt(0)}, {"big.Int 2p+1", tp1, big.NewInt(1)},
		{"*big.Int negative", big.NewInt(-7), new(big.Int).Sub(mod, big.NewInt(7))},
		{"decimal string", "12", new(big.Int).Mod(big.NewInt(12), mod)}, {"hex string", "0x1f", new(big.Int).Mod(big.NewInt(31), mod)},
		{"binary string", "0b101", big.NewInt(5)}, {"octal string", "0o17", big.NewInt(15)},
		// (big.Int).SetString(s, 0): a leading "0" selects base 8
		{"leading-zero string", "010", big.NewInt(8)}, {"leading-zeros string", "0017", big.NewInt(15)}, {"zero string", "0", big.NewInt(0)},
		{"decimal string >= p", tp1.String(), big.NewInt(1)}, {"negative string", "-2", new(big.Int).Sub(mod, big.NewInt(2))},
		{"bytes", []byte{1, 0}, new(big.Int).Mod(big.NewInt(256), mod)},
	}
	for _, c := range cases {
		var w witness.Witness
		var err error
		pan, msg := common.Safely(func() { w, err = frontend.NewWitness(&convCircuit{X: c.v, Y: c.v}, mod) })
		if pan {
			bad("%s: NewWitness panics: %s", c.name, msg)
			continue
		}
		if err != nil {
			bad("%s: NewWitness rejects the value: %v", c.name, err)
			continue
		}
		vs := vecToBig(reflect.ValueOf(w.Vector()))
		if len(vs) != 2 || vs[0].Cmp(c.want) != 0 || vs[1].Cmp(c.want) != 0 {
			bad("%s: witness holds %v, expected %s (value reduced modulo the field)", c.name, vs, c.want)
		}
		// the test engine converts assignments with its own routine: it must read the same value
		// the engine does not canonicalise its inputs: compare only representations of values already in [0, p), large fields
		if field == "tinyfield" || strings.Contains(c.name, "negative") || strings.Contains(c.name, "big.Int") || strings.Contains(c.name, ">= p") {
			continue
		}
		var terr error
		pan, msg = common.Safely(func() { terr = test.IsSolved(&convCircuit{}, &convCircuit{X: c.v, Y: c.want}, mod) })
		if pan {
			bad("%s: test engine panics: %s", c.name, msg)
		} else if terr != nil {
			bad("%s: the test engine reads another value than %s: %v", c.name, c.want, firstLine(terr.Error()))
		}
	}
	res.NbLeaves = len(cases)
	var _ = bytes.Equal
	return res
}

// SchemaCheck runs the generated schema corpus through NewWitness / encodings / Compile / Solve.
func SchemaCheck(args common.Args, out *common.Out) error {
	field := args.Get("field", "bn254")
	common.ParallelFor(len(circuits.SchemaCorpus), args.Int("par", 16), func(i int) {
		out.Emit(schemaOne(circuits.SchemaCorpus[i], field))
	})
	out.Emit(convCheck(field))
	return nil
}

// safeToJSON: a panic inside the encoder is reported like an error (the process must survive to judge the other types).
func safeToJSON(w witness.Witness, sch *schema.Schema) (js []byte, err error) {
	defer func() {
		if e := recover(); e != nil {
			err = fmt.Errorf("panic: %v", e)
		}
	}()
	return w.ToJSON(sch)
}
