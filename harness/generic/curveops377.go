package generic

// CurveOps.tla cases on the native two-chain gadget std/algebra/native/sw_bls12377 (G1 through the algebra.Curve
// interface, G2 through its point methods), evaluated over the BW6-761 scalar field against gnark-crypto.

import (
	"fmt"
	"math/big"

	"github.com/consensys/gnark-crypto/ecc"
	bls12377 "github.com/consensys/gnark-crypto/ecc/bls12-377"
	"github.com/consensys/gnark/frontend"
	"github.com/consensys/gnark/std/algebra/algopts"
	"github.com/consensys/gnark/std/algebra/native/sw_bls12377"
	"github.com/consensys/gnark/std/math/emulated"
	"github.com/consensys/gnark/test"

	"verifharness/common"
)

type g1Circuit377 struct {
	P, Q, E sw_bls12377.G1Affine
	S1, S2  sw_bls12377.Scalar
	Case    CurveCase `gnark:"-"`
}

func (c *g1Circuit377) Define(api frontend.API) error {
	cr, err := sw_bls12377.NewCurve(api)
	if err != nil {
		return err
	}
	var opts []algopts.AlgebraOption
	if c.Case.Complete {
		opts = append(opts, algopts.WithCompleteArithmetic())
	}
	var r *sw_bls12377.G1Affine
	switch c.Case.Op {
	case "Add":
		r = cr.Add(&c.P, &c.Q)
	case "AddUnified":
		r = cr.AddUnified(&c.P, &c.Q)
	case "Double":
		r = new(sw_bls12377.G1Affine).Double(api, c.P)
	case "Neg":
		r = cr.Neg(&c.P)
	case "ScalarMul":
		r = cr.ScalarMul(&c.P, &c.S1, opts...)
	case "ScalarMulBase":
		r = cr.ScalarMulBase(&c.S1, opts...)
	case "Msm2":
		r, err = cr.MultiScalarMul([]*sw_bls12377.G1Affine{&c.P, &c.Q}, []*sw_bls12377.Scalar{&c.S1, &c.S2}, opts...)
		if err != nil {
			return err
		}
	default:
		return fmt.Errorf("operation %q not offered", c.Case.Op)
	}
	cr.AssertIsEqual(r, &c.E)
	// keep every input in a constraint
	api.AssertIsDifferent(api.Add(c.Q.X, c.Q.Y, c.S2.Limbs[0], 12345), api.Add(c.Q.X, c.Q.Y, c.S2.Limbs[0]))
	return nil
}

type g2Circuit377 struct {
	P, Q, E sw_bls12377.G2Affine
	Case    CurveCase `gnark:"-"`
}

func (c *g2Circuit377) Define(api frontend.API) error {
	r := c.P.P
	switch c.Case.Op {
	case "Add":
		r.AddAssign(api, c.Q.P)
	case "AddUnified":
		r.AddUnified(api, c.Q.P)
	case "Double":
		r.Double(api, c.P.P)
	case "Neg":
		r.Neg(api, c.P.P)
	default:
		return fmt.Errorf("operation %q not offered", c.Case.Op)
	}
	r.AssertIsEqual(api, c.E.P)
	api.AssertIsDifferent(api.Add(c.Q.P.X.A0, c.Q.P.Y.A0, 12345), api.Add(c.Q.P.X.A0, c.Q.P.Y.A0))
	return nil
}

func run377(c *CurveCase, fam string, res *CurveRes, bad func(string, ...any)) {
	order := ecc.BLS12_377.ScalarField()
	outer := ecc.BW6_761.ScalarField()
	_, _, g1, g2 := bls12377.Generators()
	norm := func(k int) *big.Int { return new(big.Int).Mod(big.NewInt(int64(k)), order) }
	p1 := func(k int) sw_bls12377.G1Affine {
		var p bls12377.G1Affine
		p.ScalarMultiplication(&g1, norm(k)) // infinity is encoded (0,0)
		return sw_bls12377.NewG1Affine(p)
	}
	p2 := func(k int) sw_bls12377.G2Affine {
		var p bls12377.G2Affine
		p.ScalarMultiplication(&g2, norm(k))
		return sw_bls12377.NewG2Affine(p)
	}
	var mk func() frontend.Circuit
	var assign func(expK int) frontend.Circuit
	if fam == "bls12377-g2" {
		switch c.Op {
		case "Add", "AddUnified", "Double", "Neg":
		default:
			res.Skipped = "not offered on G2"
			return
		}
		mk = func() frontend.Circuit { return &g2Circuit377{Case: *c} }
		assign = func(expK int) frontend.Circuit { return &g2Circuit377{P: p2(c.P), Q: p2(c.Q), E: p2(expK)} }
	} else {
		if c.Op == "JointScalarMulBase" {
			res.Skipped = "covered through MultiScalarMul"
			return
		}
		mk = func() frontend.Circuit { return &g1Circuit377{Case: *c} }
		assign = func(expK int) frontend.Circuit {
			return &g1Circuit377{P: p1(c.P), Q: p1(c.Q), E: p1(expK),
				S1: emulated.ValueOf[sw_bls12377.ScalarField](curveScalar(c.S, order)),
				S2: emulated.ValueOf[sw_bls12377.ScalarField](curveScalar(c.T, order))}
		}
	}
	var e error
	pan, msg := common.Safely(func() { e = test.IsSolved(mk(), assign(c.Exp.K), outer) })
	res.Runs++
	if pan {
		bad("gadget panics: %s", msg)
		return
	}
	if e != nil {
		bad("result differs from the native group law: %s", firstLine(e.Error()))
		return
	}
	pan, msg = common.Safely(func() { e = test.IsSolved(mk(), assign(c.Exp.K+1), outer) })
	res.Runs++
	if pan {
		bad("gadget panics: %s", msg)
	} else if e == nil {
		bad("a wrong result ([k+1]G) is accepted")
	}
}
