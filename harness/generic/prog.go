package generic

import (
	"fmt"
	"math/big"

	"github.com/consensys/gnark/constraint/solver"
	"github.com/consensys/gnark/frontend"
	"github.com/consensys/gnark/std/math/bitslice"
	"github.com/consensys/gnark/std/math/cmp"
	"github.com/consensys/gnark/std/rangecheck"
	"github.com/consensys/gnark/std/selector"
)

// ---- programs emitted by specs/ProgGen.tla ----

type Ref struct {
	K string `json:"k"` // c | p | s | t
	I int    `json:"i"` // constant value / input index / temp index
}

type Instr struct {
	Op string `json:"op"`
	A  []Ref  `json:"a"`
	N  int    `json:"n"`
}

type Probe struct {
	Asg    []int  `json:"asg"`
	Ok     bool   `json:"ok"`
	Temps  []int  `json:"temps"`
	Any    []bool `json:"any"`
	Unspec bool   `json:"unspec"`
}

type ProgBeh struct {
	ID     int     `json:"id"`
	Prog   []Instr `json:"prog"`
	Probes []Probe `json:"probes"`
}

// plainAPI hides every optional interface of the builder (Committer, Rangechecker): rangecheck.New falls back to the
// bit-decomposition checker.
type plainAPI struct{ frontend.API }

func isAssert(op string) bool {
	switch op {
	case "AssertIsEqual", "AssertIsDifferent", "AssertIsBoolean", "AssertIsCrumb", "AssertIsLessOrEqual", "PlonkGate", "GRangePlain":
		return true
	}
	return false
}

// ---- the generic circuit interpreting a program through the real frontend.API ----

type ProgCircuit struct {
	P    [2]frontend.Variable `gnark:",public"`
	S    [1]frontend.Variable
	Prog []Instr `gnark:"-"`
	// NoCapture disables the value-capturing hint (so that the emitted constraints are exactly the program's)
	NoCapture bool `gnark:"-"`
	// ConstBits: number of bits ToBinary with n = FieldBits asks for (field dependent)
	FieldBits int `gnark:"-"`
}

// coefficient patterns of the PLONK-specific calls (specs/ApiSemantics.tla PlonkExprCoeffs / PlonkGateCoeffs)
var (
	PlonkExprCoeffs = [][4]int{{1, 2, 3, 4}, {0, 1, -1, 0}, {2, 0, 1, 5}}
	PlonkGateCoeffs = [][5]int{{1, 1, -1, 0, 0}, {0, 0, -1, 1, 0}, {2, 3, -2, 1, 1}}
	ErrNoPlonkAPI   = fmt.Errorf("builder has no PLONK-specific API")
)

// CaptureHint is a placeholder that is overridden per Solve with a closure recording its inputs.
func CaptureHint(_ *big.Int, in, out []*big.Int) error {
	out[0].SetUint64(0)
	return nil
}

func init() { solver.RegisterHint(CaptureHint) }

func (c *ProgCircuit) Define(api frontend.API) error {
	temps, err := c.run(api)
	if err != nil {
		return err
	}
	if !c.NoCapture && len(temps) > 0 {
		if _, err := api.Compiler().NewHint(CaptureHint, 1, temps...); err != nil {
			return err
		}
	}
	return nil
}

// run interprets the program and returns every intermediate result.
func (c *ProgCircuit) run(api frontend.API) ([]frontend.Variable, error) {
	var temps []frontend.Variable
	get := func(r Ref) frontend.Variable {
		switch r.K {
		case "c":
			return r.I
		case "p":
			return c.P[r.I]
		case "s":
			return c.S[r.I]
		case "t":
			return temps[r.I]
		}
		panic("bad ref")
	}
	for _, ins := range c.Prog {
		a := make([]frontend.Variable, len(ins.A))
		for i := range ins.A {
			a[i] = get(ins.A[i])
		}
		switch ins.Op {
		case "Add":
			temps = append(temps, api.Add(a[0], a[1]))
		case "Add3":
			temps = append(temps, api.Add(a[0], a[1], a[2]))
		case "Sub":
			temps = append(temps, api.Sub(a[0], a[1]))
		case "Sub3":
			temps = append(temps, api.Sub(a[0], a[1], a[2]))
		case "Neg":
			temps = append(temps, api.Neg(a[0]))
		case "Mul":
			temps = append(temps, api.Mul(a[0], a[1]))
		case "Mul3":
			temps = append(temps, api.Mul(a[0], a[1], a[2]))
		case "MulAcc":
			// documented usage: the accumulator may be mutated, so hand in a fresh copy
			acc := api.Mul(a[0], 1)
			temps = append(temps, api.MulAcc(acc, a[1], a[2]))
		case "Div":
			temps = append(temps, api.Div(a[0], a[1]))
		case "DivUnchecked":
			temps = append(temps, api.DivUnchecked(a[0], a[1]))
		case "Inverse":
			temps = append(temps, api.Inverse(a[0]))
		case "ToBinary":
			n := ins.N
			if n >= 6 { // 6 / 7 are the spec's FieldBits / FieldBits+1 for P = 47; scale to the field in use
				n = c.FieldBits + (n - 6)
			}
			temps = append(temps, api.ToBinary(a[0], n)...)
		case "FromBinary":
			temps = append(temps, api.FromBinary(a...))
		case "Xor":
			temps = append(temps, api.Xor(a[0], a[1]))
		case "Or":
			temps = append(temps, api.Or(a[0], a[1]))
		case "And":
			temps = append(temps, api.And(a[0], a[1]))
		case "Select":
			temps = append(temps, api.Select(a[0], a[1], a[2]))
		case "Lookup2":
			temps = append(temps, api.Lookup2(a[0], a[1], a[2], a[3], a[4], a[5]))
		case "IsZero":
			temps = append(temps, api.IsZero(a[0]))
		case "Cmp":
			temps = append(temps, api.Cmp(a[0], a[1]))
		case "PlonkExpr":
			pa, ok := api.(frontend.PlonkAPI)
			if !ok {
				return nil, ErrNoPlonkAPI
			}
			q := PlonkExprCoeffs[ins.N-1]
			temps = append(temps, pa.EvaluatePlonkExpression(a[0], a[1], q[0], q[1], q[2], q[3]))
		case "PlonkGate":
			pa, ok := api.(frontend.PlonkAPI)
			if !ok {
				return nil, ErrNoPlonkAPI
			}
			q := PlonkGateCoeffs[ins.N-1]
			pa.AddPlonkConstraint(a[0], a[1], a[2], q[0], q[1], q[2], q[3], q[4])
		case "GIsLess":
			temps = append(temps, cmp.IsLess(api, a[0], a[1]))
		case "GIsLessEq":
			temps = append(temps, cmp.IsLessOrEqual(api, a[0], a[1]))
		case "GMux2", "GMux3", "GMux4", "GMux5":
			temps = append(temps, selector.Mux(api, a[0], a[1:]...))
		case "GMap3":
			temps = append(temps, selector.Map(api, a[0], []frontend.Variable{1, 5, -1}, a[1:4]))
		case "GDecoder3":
			temps = append(temps, selector.Decoder(api, 3, a[0])...)
		case "GPartition":
			lo, hi := bitslice.Partition(api, a[0], uint(ins.N))
			temps = append(temps, lo, hi)
		case "GRangePlain":
			n := ins.N
			if n >= 5 { // 5 / 6 / 7 are FieldBits-1 / FieldBits / FieldBits+1 for P = 47
				n = c.FieldBits + (n - 6)
			}
			rangecheck.New(plainAPI{api}).Check(a[0], n)
		case "AssertIsEqual":
			api.AssertIsEqual(a[0], a[1])
		case "AssertIsDifferent":
			api.AssertIsDifferent(a[0], a[1])
		case "AssertIsBoolean":
			api.AssertIsBoolean(a[0])
		case "AssertIsCrumb":
			api.AssertIsCrumb(a[0])
		case "AssertIsLessOrEqual":
			api.AssertIsLessOrEqual(a[0], a[1])
		default:
			return nil, fmt.Errorf("unknown op %q", ins.Op)
		}
	}
	return temps, nil
}

// ---- Go port of specs/ApiSemantics.tla (cross-checked against TLC on the probe assignments) ----

type OracleResult struct {
	Ok     bool
	Temps  []*big.Int
	Any    []bool
	Unspec bool
}

func bitLen(mod *big.Int) int { return new(big.Int).Sub(mod, big.NewInt(1)).BitLen() }

// EvalProg evaluates prog on (p0,p1,s0) over F_mod under the documented API semantics.
func EvalProg(prog []Instr, asg []*big.Int, mod *big.Int) OracleResult {
	res := OracleResult{Ok: true}
	one := big.NewInt(1)
	isBool := func(x *big.Int) bool { return x.Sign() == 0 || x.Cmp(one) == 0 }
	red := func(x *big.Int) *big.Int { return x.Mod(x, mod) }
	val := func(r Ref) *big.Int {
		switch r.K {
		case "c":
			return red(big.NewInt(int64(r.I)))
		case "p":
			return asg[r.I]
		case "s":
			return asg[2]
		case "t":
			return res.Temps[r.I]
		}
		panic("bad ref")
	}
	for _, ins := range prog {
		if !res.Ok {
			return res
		}
		tainted := false
		for _, r := range ins.A {
			if r.K == "t" && res.Any[r.I] {
				tainted = true
			}
		}
		nout := 1
		if ins.Op == "ToBinary" {
			nout = ins.N
			if nout >= 6 {
				nout = bitLen(mod) + (nout - 6)
			}
		} else if ins.Op == "GDecoder3" {
			nout = 3
		} else if ins.Op == "GPartition" {
			nout = 2
		} else if isAssert(ins.Op) {
			nout = 0
		}
		if tainted {
			for j := 0; j < nout; j++ {
				res.Temps = append(res.Temps, new(big.Int))
				res.Any = append(res.Any, true)
			}
			res.Unspec = true
			continue
		}
		a := make([]*big.Int, len(ins.A))
		for i := range ins.A {
			a[i] = val(ins.A[i])
		}
		push := func(v *big.Int) { res.Temps = append(res.Temps, v); res.Any = append(res.Any, false) }
		n := func() *big.Int { return new(big.Int) }
		switch ins.Op {
		case "Add":
			push(red(n().Add(a[0], a[1])))
		case "Add3":
			push(red(n().Add(n().Add(a[0], a[1]), a[2])))
		case "Sub":
			push(red(n().Sub(a[0], a[1])))
		case "Sub3":
			push(red(n().Sub(n().Sub(a[0], a[1]), a[2])))
		case "Neg":
			push(red(n().Neg(a[0])))
		case "Mul":
			push(red(n().Mul(a[0], a[1])))
		case "Mul3":
			push(red(n().Mul(red(n().Mul(a[0], a[1])), a[2])))
		case "MulAcc":
			push(red(n().Add(a[0], n().Mul(a[1], a[2]))))
		case "Div":
			if a[1].Sign() == 0 {
				res.Ok = false
			} else {
				push(red(n().Mul(a[0], n().ModInverse(a[1], mod))))
			}
		case "DivUnchecked":
			if a[1].Sign() != 0 {
				push(red(n().Mul(a[0], n().ModInverse(a[1], mod))))
			} else if a[0].Sign() == 0 {
				res.Temps = append(res.Temps, n())
				res.Any = append(res.Any, true)
			} else {
				res.Ok = false
			}
		case "Inverse":
			if a[0].Sign() == 0 {
				res.Ok = false
			} else {
				push(n().ModInverse(a[0], mod))
			}
		case "ToBinary":
			if a[0].BitLen() > nout {
				res.Ok = false
			} else {
				for k := 0; k < nout; k++ {
					push(big.NewInt(int64(a[0].Bit(k))))
				}
			}
		case "FromBinary":
			acc := n()
			for k := range a {
				if !isBool(a[k]) {
					res.Ok = false
				}
				acc.Add(acc, n().Lsh(a[k], uint(k)))
			}
			if res.Ok {
				push(red(acc))
			}
		case "Xor", "Or", "And":
			if !isBool(a[0]) || !isBool(a[1]) {
				res.Ok = false
				break
			}
			x, y := a[0].Int64(), a[1].Int64()
			var v int64
			switch ins.Op {
			case "Xor":
				v = x ^ y
			case "Or":
				v = x | y
			case "And":
				v = x & y
			}
			push(big.NewInt(v))
		case "Select":
			if !isBool(a[0]) {
				res.Ok = false
			} else if a[0].Sign() != 0 {
				push(n().Set(a[1]))
			} else {
				push(n().Set(a[2]))
			}
		case "Lookup2":
			if !isBool(a[0]) || !isBool(a[1]) {
				res.Ok = false
			} else {
				push(n().Set(a[2+a[0].Int64()+2*a[1].Int64()]))
			}
		case "IsZero":
			if a[0].Sign() == 0 {
				push(big.NewInt(1))
			} else {
				push(n())
			}
		case "Cmp":
			switch a[0].Cmp(a[1]) {
			case 1:
				push(big.NewInt(1))
			case 0:
				push(n())
			default:
				push(n().Sub(mod, one))
			}
		case "PlonkExpr":
			q := PlonkExprCoeffs[ins.N-1]
			acc := n().Mul(big.NewInt(int64(q[0])), a[0])
			acc.Add(acc, n().Mul(big.NewInt(int64(q[1])), a[1]))
			acc.Add(acc, n().Mul(big.NewInt(int64(q[2])), n().Mul(a[0], a[1])))
			acc.Add(acc, big.NewInt(int64(q[3])))
			push(red(acc))
		case "PlonkGate":
			q := PlonkGateCoeffs[ins.N-1]
			acc := n().Mul(big.NewInt(int64(q[0])), a[0])
			acc.Add(acc, n().Mul(big.NewInt(int64(q[1])), a[1]))
			acc.Add(acc, n().Mul(big.NewInt(int64(q[2])), a[2]))
			acc.Add(acc, n().Mul(big.NewInt(int64(q[3])), n().Mul(a[0], a[1])))
			acc.Add(acc, big.NewInt(int64(q[4])))
			res.Ok = red(acc).Sign() == 0
		case "GIsLess":
			if a[0].Cmp(a[1]) < 0 {
				push(big.NewInt(1))
			} else {
				push(n())
			}
		case "GIsLessEq":
			if a[0].Cmp(a[1]) <= 0 {
				push(big.NewInt(1))
			} else {
				push(n())
			}
		case "GMux2", "GMux3", "GMux4", "GMux5":
			nin := int64(len(a) - 1)
			if a[0].IsInt64() && a[0].Int64() < nin {
				push(n().Set(a[1+a[0].Int64()]))
			} else {
				res.Ok = false
			}
		case "GMap3":
			switch {
			case a[0].Cmp(big.NewInt(1)) == 0:
				push(n().Set(a[1]))
			case a[0].Cmp(big.NewInt(5)) == 0:
				push(n().Set(a[2]))
			case a[0].Cmp(n().Sub(mod, one)) == 0:
				push(n().Set(a[3]))
			default:
				res.Ok = false
			}
		case "GDecoder3":
			if a[0].IsInt64() && a[0].Int64() < 3 {
				for k := int64(0); k < 3; k++ {
					if k == a[0].Int64() {
						push(big.NewInt(1))
					} else {
						push(n())
					}
				}
			} else {
				res.Ok = false
			}
		case "GPartition":
			lo := n().And(a[0], n().Sub(n().Lsh(one, uint(ins.N)), one))
			push(lo)
			push(n().Rsh(a[0], uint(ins.N)))
		case "GRangePlain":
			w := ins.N
			if w >= 5 {
				w = bitLen(mod) + (w - 6)
			}
			res.Ok = a[0].BitLen() <= w
		case "AssertIsEqual":
			res.Ok = a[0].Cmp(a[1]) == 0
		case "AssertIsDifferent":
			res.Ok = a[0].Cmp(a[1]) != 0
		case "AssertIsBoolean":
			res.Ok = isBool(a[0])
		case "AssertIsCrumb":
			res.Ok = a[0].Cmp(big.NewInt(3)) <= 0
		case "AssertIsLessOrEqual":
			res.Ok = a[0].Cmp(a[1]) <= 0
		default:
			panic("unknown op " + ins.Op)
		}
	}
	return res
}
