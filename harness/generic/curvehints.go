package generic

// Dishonest decomposition hints of the scalar multiplication gadgets (C16, "all hint outputs of the GLV / fake-GLV
// decompositions"): the circuit [S]P == E is compiled, and solved / proven with the decomposition and result hints replaced
// by the adversary strategies named in specs/CurveOps.tla (HintAdversaries).  A wrong E must stay unprovable.

import (
	"fmt"
	"math/big"
	mrand "math/rand"
	"strings"

	"github.com/consensys/gnark-crypto/ecc"
	bls12377 "github.com/consensys/gnark-crypto/ecc/bls12-377"
	bls12381 "github.com/consensys/gnark-crypto/ecc/bls12-381"
	secpecdsa "github.com/consensys/gnark-crypto/ecc/secp256k1/ecdsa"
	bn254te "github.com/consensys/gnark-crypto/ecc/bn254/twistededwards"
	tedwards "github.com/consensys/gnark-crypto/ecc/twistededwards"
	"github.com/consensys/gnark/backend"
	"github.com/consensys/gnark/backend/groth16"
	"github.com/consensys/gnark/constraint/solver"
	"github.com/consensys/gnark/frontend"
	"github.com/consensys/gnark/frontend/cs/r1cs"
	"github.com/consensys/gnark/std/algebra/algopts"
	"github.com/consensys/gnark/std/algebra/emulated/sw_bls12381"
	"github.com/consensys/gnark/std/algebra/emulated/sw_emulated"
	"github.com/consensys/gnark/std/algebra/native/sw_bls12377"
	"github.com/consensys/gnark/std/algebra/native/twistededwards"
	"github.com/consensys/gnark/std/evmprecompiles"
	"github.com/consensys/gnark/std/math/emulated"

	"verifharness/common"
)

type HintCase struct {
	ID       int    `json:"id"`
	Gadget   string `json:"gadget"`   // te-bn254 | sw-p256 | sw-secp256k1
	Strategy string `json:"strategy"` // honest | zeroDecomp | unitDecomp | zeroScalarResult
	Scalar   string `json:"scalar"`   // scalar class of CurveOps.tla
	Claim    string `json:"claim"`    // right | wrong : the value asserted for [S]P
	Expect   string `json:"expect"`   // satisfiable | unsatisfiable
}

type HintRes struct {
	ID     int    `json:"id"`
	Solve  string `json:"solve"` // satisfiable | unsatisfiable
	Proof  string `json:"proof,omitempty"`
	Err    string `json:"err,omitempty"`
	Detail string `json:"detail,omitempty"`
}

type teMulCircuit struct {
	P, E twistededwards.Point
	S    frontend.Variable
}

func (c *teMulCircuit) Define(api frontend.API) error {
	cr, err := twistededwards.NewEdCurve(api, tedwards.BN254)
	if err != nil {
		return err
	}
	r := cr.ScalarMul(c.P, c.S)
	api.AssertIsEqual(r.X, c.E.X)
	api.AssertIsEqual(r.Y, c.E.Y)
	return nil
}

type swMulCircuit[B, S emulated.FieldParams] struct {
	P, E sw_emulated.AffinePoint[B]
	Sc   emulated.Element[S]
}

func (c *swMulCircuit[B, S]) Define(api frontend.API) error {
	cr, err := sw_emulated.New[B, S](api, sw_emulated.GetCurveParams[B]())
	if err != nil {
		return err
	}
	r := cr.ScalarMul(&c.P, &c.Sc, algopts.WithCompleteArithmetic())
	cr.AssertIsEqual(r, &c.E)
	return nil
}

func hintByName(hs []solver.Hint, suffix string) solver.Hint {
	for _, h := range hs {
		if strings.HasSuffix(solver.GetHintName(h), "."+suffix) {
			return h
		}
	}
	panic("hint not found: " + suffix)
}

func solveAndProve(circuit, assign frontend.Circuit, opts []solver.Option, res *HintRes) {
	field := ecc.BN254.ScalarField()
	ccs, err := frontend.Compile(field, r1cs.NewBuilder, circuit)
	if err != nil {
		res.Err = "INFRA compile: " + err.Error()
		return
	}
	w, err := frontend.NewWitness(assign, field)
	if err != nil {
		res.Err = "INFRA witness: " + err.Error()
		return
	}
	// the real prover is the solver here (circuits with range checks carry commitments, which only a prover resolves)
	pk, vk, err := groth16.Setup(ccs)
	if err != nil {
		res.Err = "INFRA setup: " + err.Error()
		return
	}
	var proof groth16.Proof
	var perr error
	pan, msg := common.Safely(func() { proof, perr = groth16.Prove(ccs, pk, w, backend.WithSolverOptions(opts...)) })
	if pan || perr != nil {
		res.Solve = "unsatisfiable"
		if pan {
			res.Detail = "panic: " + msg
		} else {
			res.Detail = firstLineOf(perr.Error())
		}
		return
	}
	res.Solve = "satisfiable"
	pw, _ := w.Public()
	if err := groth16.Verify(proof, vk, pw); err != nil {
		res.Proof = "verify fails: " + firstLineOf(err.Error())
		return
	}
	res.Proof = "verifies"
}

func teHintRun(c *HintCase, res *HintRes) {
	params := bn254te.GetEdwardsCurve()
	order := &params.Order
	pt := func(k *big.Int) twistededwards.Point {
		var p bn254te.PointAffine
		p.ScalarMultiplication(&params.Base, new(big.Int).Mod(k, order))
		return twistededwards.Point{X: p.X.BigInt(new(big.Int)), Y: p.Y.BigInt(new(big.Int))}
	}
	s := curveScalar(c.Scalar, order)
	claimK := new(big.Int).Set(s)
	if c.Claim == "wrong" {
		claimK.Add(claimK, big.NewInt(2))
	}
	if c.Strategy == "unitDecomp" && c.Claim == "wrong" {
		claimK.SetInt64(-1) // the strategy proves [S]P = -P
	}
	E := pt(claimK)
	assign := &teMulCircuit{P: pt(big.NewInt(1)), E: E, S: s}
	hs := twistededwards.GetHints()
	var opts []solver.Option
	field := ecc.BN254.ScalarField()
	switch c.Strategy {
	case "honest":
	case "zeroDecomp":
		// s1 = s2 = 0: the accumulator stays at the identity; the claimed result is whatever the prover likes
		opts = append(opts, solver.OverrideHint(solver.GetHintID(hintByName(hs, "halfGCD")), func(_ *big.Int, _, out []*big.Int) error {
			for i := range out {
				out[i].SetInt64(0)
			}
			return nil
		}))
		opts = append(opts, solver.OverrideHint(solver.GetHintID(hintByName(hs, "scalarMulHint")), func(_ *big.Int, _, out []*big.Int) error {
			out[0].Set(E.X.(*big.Int))
			out[1].Set(E.Y.(*big.Int))
			return nil
		}))
	case "unitDecomp":
		// s1 = s2 = 1 with k = (1 + S) / Order computed in the native field: [1]P + [1]Q = 0 for Q = -P
		opts = append(opts, solver.OverrideHint(solver.GetHintID(hintByName(hs, "halfGCD")), func(_ *big.Int, in, out []*big.Int) error {
			out[0].SetInt64(1)
			out[1].SetInt64(1)
			out[2].SetInt64(0)
			k := new(big.Int).Add(in[0], big.NewInt(1))
			inv := new(big.Int).ModInverse(in[1], field)
			out[3].Mul(k, inv).Mod(out[3], field)
			return nil
		}))
		opts = append(opts, solver.OverrideHint(solver.GetHintID(hintByName(hs, "scalarMulHint")), func(_ *big.Int, _, out []*big.Int) error {
			out[0].Set(E.X.(*big.Int))
			out[1].Set(E.Y.(*big.Int))
			return nil
		}))
	default:
		res.Err = "INFRA unknown strategy " + c.Strategy
		return
	}
	solveAndProve(&teMulCircuit{}, assign, opts, res)
}

func swHintRun[B, S emulated.FieldParams](c *HintCase, fam string, res *HintRes) {
	nat := swFamily(fam)
	s := curveScalar(c.Scalar, nat.order)
	point := func(k *big.Int) sw_emulated.AffinePoint[B] {
		x, y := nat.mul(new(big.Int).Mod(k, nat.order))
		return sw_emulated.AffinePoint[B]{X: emulated.ValueOf[B](x), Y: emulated.ValueOf[B](y)}
	}
	claimK := new(big.Int).Set(s)
	if c.Claim == "wrong" {
		claimK.Add(claimK, big.NewInt(1))
	}
	assign := &swMulCircuit[B, S]{P: point(big.NewInt(1)), E: point(claimK), Sc: emulated.ValueOf[S](s)}
	var opts []solver.Option
	hs := sw_emulated.GetHints()
	switch c.Strategy {
	case "honest":
	case "zeroScalarResult":
		// the result hint is asked for [S]P; the dishonest prover answers [S+1]P (for S = 0: P instead of the point at infinity)
		orig := hintByName(hs, "scalarMulHint")
		var sf S
		n := int(sf.NbLimbs())
		opts = append(opts, solver.OverrideHint(solver.GetHintID(orig), func(f *big.Int, in, out []*big.Int) error {
			in2 := make([]*big.Int, len(in))
			for i := range in {
				in2[i] = new(big.Int).Set(in[i])
			}
			// the scalar is the last emulated operand: add one to its lowest limb
			in2[len(in2)-n].Add(in2[len(in2)-n], big.NewInt(1))
			return orig(f, in2, out)
		}))
	case "unitResult":
		// whatever the scalar, the dishonest prover answers P itself and claims [S]P = P: the s = +-1 special case of the
		// complete-arithmetic variant is recognised from the HINTED point
		orig := hintByName(hs, "scalarMulHint")
		var sf S
		n := int(sf.NbLimbs())
		assign.E = point(big.NewInt(1))
		opts = append(opts, solver.OverrideHint(solver.GetHintID(orig), func(f *big.Int, in, out []*big.Int) error {
			in2 := make([]*big.Int, len(in))
			for i := range in {
				in2[i] = new(big.Int).Set(in[i])
			}
			for k := 0; k < n; k++ {
				in2[len(in2)-n+k].SetInt64(0)
			}
			in2[len(in2)-n].SetInt64(1)
			return orig(f, in2, out)
		}))
	default:
		res.Err = "INFRA unknown strategy " + c.Strategy
		return
	}
	solveAndProve(&swMulCircuit[B, S]{}, assign, opts, res)
}

// ---- pairing check of the native two-chain gadget (BLS12-377 in BW6-761) ----

type pairCheckCircuit struct {
	P1, P2 sw_bls12377.G1Affine
	Q1, Q2 sw_bls12377.G2Affine
}

func (c *pairCheckCircuit) Define(api frontend.API) error {
	pr := sw_bls12377.NewPairing(api)
	return pr.PairingCheck([]*sw_bls12377.G1Affine{&c.P1, &c.P2}, []*sw_bls12377.G2Affine{&c.Q1, &c.Q2})
}

func pairHintRun(c *HintCase, res *HintRes) {
	_, _, g1, g2 := bls12377.Generators()
	var p1, p2 bls12377.G1Affine
	p1.Set(&g1)
	k := big.NewInt(5)
	if c.Claim == "right" {
		p2.Neg(&g1) // e(G1,G2) * e(-G1,G2) = 1
	} else {
		p2.ScalarMultiplication(&g1, k) // e(G1,G2) * e(5 G1,G2) != 1
	}
	assign := &pairCheckCircuit{
		P1: sw_bls12377.NewG1Affine(p1), P2: sw_bls12377.NewG1Affine(p2),
		Q1: sw_bls12377.NewG2Affine(g2), Q2: sw_bls12377.NewG2Affine(g2),
	}
	var opts []solver.Option
	switch c.Strategy {
	case "honest":
	case "zeroWitness":
		// the residue witness of the final-exponentiation shortcut is hinted; the dishonest prover answers zero
		h := hintByName(sw_bls12377.GetHints(), "pairingCheckHint")
		opts = append(opts, solver.OverrideHint(solver.GetHintID(h), func(_ *big.Int, _, out []*big.Int) error {
			for i := range out {
				out[i].SetInt64(0)
			}
			return nil
		}))
	default:
		res.Err = "INFRA unknown strategy " + c.Strategy
		return
	}
	field := ecc.BW6_761.ScalarField()
	ccs, err := frontend.Compile(field, r1cs.NewBuilder, &pairCheckCircuit{})
	if err != nil {
		res.Err = "INFRA compile: " + err.Error()
		return
	}
	w, err := frontend.NewWitness(assign, field)
	if err != nil {
		res.Err = "INFRA witness: " + err.Error()
		return
	}
	var serr error
	pan, msg := common.Safely(func() { _, serr = ccs.Solve(w, opts...) })
	switch {
	case pan:
		res.Solve, res.Detail = "unsatisfiable", "panic: "+msg
	case serr != nil:
		res.Solve, res.Detail = "unsatisfiable", firstLineOf(serr.Error())
	default:
		// every constraint of the compiled system holds: the prover is only slower, not stricter
		res.Solve, res.Proof = "satisfiable", "verifies"
	}
}

// ---- final-exponentiation check of the emulated BLS12-381 pairing ----

type finalExpCircuit struct {
	X sw_bls12381.GTEl
}

func (c *finalExpCircuit) Define(api frontend.API) error {
	pr, err := sw_bls12381.NewPairing(api)
	if err != nil {
		return err
	}
	pr.AssertFinalExponentiationIsOne(&c.X)
	return nil
}

func finalExpHintRun(c *HintCase, res *HintRes) {
	_, _, g1, g2 := bls12381.Generators()
	var x bls12381.GT
	if c.Claim == "right" {
		var n1 bls12381.G1Affine
		n1.Neg(&g1)
		x, _ = bls12381.MillerLoop([]bls12381.G1Affine{g1, n1}, []bls12381.G2Affine{g2, g2}) // e(G1,G2) e(-G1,G2) = 1
	} else {
		x, _ = bls12381.MillerLoop([]bls12381.G1Affine{g1}, []bls12381.G2Affine{g2}) // e(G1,G2) != 1
	}
	assign := &finalExpCircuit{X: sw_bls12381.NewGTEl(x)}
	var opts []solver.Option
	switch c.Strategy {
	case "honest":
	case "zeroWitness":
		h := hintByName(sw_bls12381.GetHints(), "finalExpHint")
		opts = append(opts, solver.OverrideHint(solver.GetHintID(h), func(_ *big.Int, _, out []*big.Int) error {
			for i := range out {
				out[i].SetInt64(0)
			}
			return nil
		}))
	default:
		res.Err = "INFRA unknown strategy " + c.Strategy
		return
	}
	solveAndProve(&finalExpCircuit{}, assign, opts, res)
}

// ---- joint scalar multiplication [s]G + [t]P with the GLV decompositions shifted between the two scalars ----

type swJointCircuit[B, S emulated.FieldParams] struct {
	P, E   sw_emulated.AffinePoint[B]
	Sc, Tc emulated.Element[S]
}

func (c *swJointCircuit[B, S]) Define(api frontend.API) error {
	cr, err := sw_emulated.New[B, S](api, sw_emulated.GetCurveParams[B]())
	if err != nil {
		return err
	}
	r := cr.JointScalarMulBase(&c.P, &c.Tc, &c.Sc) // [Sc]G + [Tc]P
	cr.AssertIsEqual(r, &c.E)
	return nil
}

func swJointRun[B, S emulated.FieldParams](c *HintCase, fam string, res *HintRes) {
	nat := swFamily(fam)
	sv, tv := big.NewInt(1234577), big.NewInt(7654321)
	delta := big.NewInt(1)
	point := func(k *big.Int) sw_emulated.AffinePoint[B] {
		x, y := nat.mul(new(big.Int).Mod(k, nat.order))
		return sw_emulated.AffinePoint[B]{X: emulated.ValueOf[B](x), Y: emulated.ValueOf[B](y)}
	}
	pk := big.NewInt(5) // P = [5]G
	// honest result [s + 5t]G ; the shifted strategy aims at [(s+d) + 5(t-d)]G
	right := new(big.Int).Add(sv, new(big.Int).Mul(pk, tv))
	shifted := new(big.Int).Add(new(big.Int).Add(sv, delta), new(big.Int).Mul(pk, new(big.Int).Sub(tv, delta)))
	claim := right
	if c.Claim == "wrong" {
		claim = shifted
	}
	assign := &swJointCircuit[B, S]{P: point(pk), E: point(claim), Sc: emulated.ValueOf[S](sv), Tc: emulated.ValueOf[S](tv)}
	var opts []solver.Option
	switch c.Strategy {
	case "honest":
	case "shiftDecomp":
		// both decomposition hints are answered for s + d and t - d instead of s and t
		for _, name := range []string{"decomposeScalarG1Subscalars", "decomposeScalarG1Signs"} {
			orig := hintByName(sw_emulated.GetHints(), name)
			opts = append(opts, solver.OverrideHint(solver.GetHintID(orig), func(f *big.Int, in, out []*big.Int) error {
				in2 := make([]*big.Int, len(in))
				for i := range in {
					in2[i] = new(big.Int).Set(in[i])
				}
				for i := range in2 {
					// the scalars are small: their lowest limb identifies them
					if in2[i].Cmp(sv) == 0 {
						in2[i].Add(in2[i], delta)
					} else if in2[i].Cmp(tv) == 0 {
						in2[i].Sub(in2[i], delta)
					}
				}
				return orig(f, in2, out)
			}))
		}
	default:
		res.Err = "INFRA unknown strategy " + c.Strategy
		return
	}
	solveAndProve(&swJointCircuit[B, S]{}, assign, opts, res)
}

// ---- ECRECOVER precompile gadget: the recovered public key is hinted ----

type ecrecoverCircuit struct {
	Message   emulated.Element[emulated.Secp256k1Fr]
	V         frontend.Variable
	R, S      emulated.Element[emulated.Secp256k1Fr]
	Strict    frontend.Variable
	IsFailure frontend.Variable
	Expected  sw_emulated.AffinePoint[emulated.Secp256k1Fp]
}

func (c *ecrecoverCircuit) Define(api frontend.API) error {
	curve, err := sw_emulated.New[emulated.Secp256k1Fp, emulated.Secp256k1Fr](api, sw_emulated.GetSecp256k1Params())
	if err != nil {
		return err
	}
	res := evmprecompiles.ECRecover(api, c.Message, c.V, c.R, c.S, c.Strict, c.IsFailure)
	curve.AssertIsEqual(&c.Expected, res)
	return nil
}

func ecrecoverHintRun(c *HintCase, res *HintRes) {
	sk, err := secpecdsa.GenerateKey(detRand{mrand.New(mrand.NewSource(int64(4242 + c.ID)))})
	if err != nil {
		res.Err = "INFRA " + err.Error()
		return
	}
	msg := []byte("C16 ecrecover")
	v, r, s, err := sk.SignForRecover(msg, nil)
	if err != nil {
		res.Err = "INFRA " + err.Error()
		return
	}
	var pk secpecdsa.PublicKey
	if err := pk.RecoverFrom(msg, v, r, s); err != nil || !pk.A.Equal(&sk.PublicKey.A) {
		res.Err = fmt.Sprintf("INFRA native recovery: %v", err)
		return
	}
	px, py := pk.A.X.BigInt(new(big.Int)), pk.A.Y.BigInt(new(big.Int))
	claimX, claimY := px, py
	var emfp emulated.Secp256k1Fp
	n := int(emfp.NbLimbs())
	tamper := -1
	switch c.Strategy {
	case "honest":
		if c.Claim == "wrong" {
			claimY = new(big.Int).Xor(py, big.NewInt(1))
		}
	case "tamperY":
		claimY = new(big.Int).Xor(py, big.NewInt(1))
		tamper = n // lowest limb of Y
	case "tamperX":
		claimX = new(big.Int).Xor(px, big.NewInt(1))
		tamper = 0 // lowest limb of X
	default:
		res.Err = "INFRA unknown strategy " + c.Strategy
		return
	}
	assign := &ecrecoverCircuit{
		Message: emulated.ValueOf[emulated.Secp256k1Fr](secpecdsa.HashToInt(msg)), V: v + 27,
		R: emulated.ValueOf[emulated.Secp256k1Fr](r), S: emulated.ValueOf[emulated.Secp256k1Fr](s), Strict: 0, IsFailure: 0,
		Expected: sw_emulated.AffinePoint[emulated.Secp256k1Fp]{X: emulated.ValueOf[emulated.Secp256k1Fp](claimX), Y: emulated.ValueOf[emulated.Secp256k1Fp](claimY)},
	}
	var opts []solver.Option
	if tamper >= 0 {
		orig := hintByName(evmprecompiles.GetHints(), "recoverPublicKeyHint")
		opts = append(opts, solver.OverrideHint(solver.GetHintID(orig), func(f *big.Int, in, out []*big.Int) error {
			if err := orig(f, in, out); err != nil {
				return err
			}
			out[tamper].Xor(out[tamper], big.NewInt(1))
			return nil
		}))
	}
	solveAndProve(&ecrecoverCircuit{}, assign, opts, res)
}

// CurveHints runs the hint adversaries.
func CurveHints(args common.Args, out *common.Out) error {
	cases, err := common.ReadNDJSON[HintCase](args.Get("in", ""))
	if err != nil {
		return err
	}
	common.ParallelFor(len(cases), args.Int("par", 8), func(i int) {
		c := &cases[i]
		res := HintRes{ID: c.ID}
		defer func() { out.Emit(res) }()
		pan, msg := common.Safely(func() {
			switch c.Gadget {
			case "te-bn254":
				teHintRun(c, &res)
			case "joint-secp256k1":
				swJointRun[emulated.Secp256k1Fp, emulated.Secp256k1Fr](c, "secp256k1", &res)
			case "joint-bn254":
				swJointRun[emulated.BN254Fp, emulated.BN254Fr](c, "bn254", &res)
			case "ecrecover":
				ecrecoverHintRun(c, &res)
			case "pairing-bls12377":
				pairHintRun(c, &res)
			case "finalexp-bls12381":
				finalExpHintRun(c, &res)
			case "sw-p256":
				swHintRun[emulated.P256Fp, emulated.P256Fr](c, "p256", &res)
			case "sw-secp256k1":
				swHintRun[emulated.Secp256k1Fp, emulated.Secp256k1Fr](c, "secp256k1", &res)
			case "sw-bn254":
				swHintRun[emulated.BN254Fp, emulated.BN254Fr](c, "bn254", &res)
			case "sw-bls12381":
				swHintRun[emulated.BLS12381Fp, emulated.BLS12381Fr](c, "bls12381", &res)
			case "sw-p384":
				swHintRun[emulated.P384Fp, emulated.P384Fr](c, "p384", &res)
			default:
				res.Err = "INFRA unknown gadget " + c.Gadget
			}
		})
		if pan {
			res.Err = fmt.Sprintf("INFRA panic: %s", msg)
		}
	})
	return nil
}
