package generic

import (
	"fmt"
	"math/big"
	"reflect"
	"strings"

	"github.com/consensys/gnark/backend/witness"
	"github.com/consensys/gnark/constraint/solver"
	"github.com/consensys/gnark/frontend"

	"verifharness/common"
)

// ProgRes summarises what the real compiler + solver did with one program under one builder.
type ProgRes struct {
	ID        int    `json:"id"`
	Builder   string `json:"builder"`
	Field     string `json:"field"`
	Compile   string `json:"compile"` // ok | error | panic
	CompErr   string `json:"comp_err,omitempty"`
	NbCons    int    `json:"nb_constraints"`
	Solves    int    `json:"solves"`
	Solved    int    `json:"solved"`
	SolChecks int    `json:"solution_checks"`
	// discrepancies, first example of each class
	Disc       map[string]string `json:"disc,omitempty"`
	DiscCount  map[string]int    `json:"disc_count,omitempty"`
	PortVsTLC  string            `json:"port_vs_tlc,omitempty"`
	OracleSat  int               `json:"oracle_sat"` // assignments the reference semantics accepts
	UsesSecret bool              `json:"uses_secret"`
}

func (r *ProgRes) disc(class, example string) {
	if r.Disc == nil {
		r.Disc = map[string]string{}
		r.DiscCount = map[string]int{}
	}
	if _, ok := r.Disc[class]; !ok {
		r.Disc[class] = example
	}
	r.DiscCount[class]++
}

func progString(p []Instr) string {
	var sb strings.Builder
	for i, ins := range p {
		if i > 0 {
			sb.WriteString("; ")
		}
		sb.WriteString(ins.Op)
		if ins.Op == "ToBinary" || ins.Op == "GRangePlain" || ins.Op == "GPartition" {
			fmt.Fprintf(&sb, "[%d]", ins.N)
		}
		sb.WriteString("(")
		for j, r := range ins.A {
			if j > 0 {
				sb.WriteString(",")
			}
			fmt.Fprintf(&sb, "%s%d", r.K, r.I)
		}
		sb.WriteString(")")
	}
	return sb.String()
}

// fastWitness mutates the vector of one witness object in place (building a witness through the
// schema for each of the 10^4 assignments per program would dominate the run).
type fastWitness struct {
	w     witness.Witness
	vec   reflect.Value
	table map[string]reflect.Value
	mod   *big.Int
}

func newFastWitness(mod *big.Int) (*fastWitness, error) {
	c := &ProgCircuit{}
	c.P[0], c.P[1], c.S[0] = 0, 0, 0
	w, err := frontend.NewWitness(c, mod)
	if err != nil {
		return nil, err
	}
	return &fastWitness{w: w, vec: reflect.ValueOf(w.Vector()), table: map[string]reflect.Value{}, mod: mod}, nil
}

func (f *fastWitness) set(i int, v *big.Int) {
	k := v.String()
	e, ok := f.table[k]
	if !ok {
		ne := reflect.New(f.vec.Type().Elem())
		ne.MethodByName("SetBigInt").Call([]reflect.Value{reflect.ValueOf(v)})
		e = ne.Elem()
		f.table[k] = e
	}
	f.vec.Index(i).Set(e)
}

func cornerValues(mod *big.Int) []*big.Int {
	one := big.NewInt(1)
	pm1 := new(big.Int).Sub(mod, one)
	half := new(big.Int).Rsh(mod, 1)
	k := uint(mod.BitLen() - 1)
	p2 := new(big.Int).Lsh(one, k)
	return []*big.Int{big.NewInt(0), big.NewInt(1), big.NewInt(2), big.NewInt(3), pm1, new(big.Int).Sub(pm1, one), half,
		new(big.Int).Add(half, one), new(big.Int).Sub(p2, one), p2, new(big.Int).Lsh(one, 64), new(big.Int).Sub(new(big.Int).Lsh(one, 64), one)}
}

func progRunOne(b *ProgBeh, field, builder string, opts []frontend.CompileOption, checkEvery int) ProgRes {
	mod, small := FieldByName(field)
	res := ProgRes{ID: b.ID, Builder: builder, Field: field}
	usesP := [2]bool{}
	constZeroDiv := false
	hasDivU := false
	for _, ins := range b.Prog {
		if ins.Op == "DivUnchecked" {
			hasDivU = true // a divisor folded to the constant 0 is rejected at compile time
		}
		for j, r := range ins.A {
			if r.K == "s" {
				res.UsesSecret = true
			}
			if r.K == "p" {
				usesP[r.I] = true
			}
			if ins.Op == "DivUnchecked" && j == 1 && r.K == "c" && r.I == 0 {
				constZeroDiv = true
			}
		}
	}
	// oracle port vs TLC on the probe assignments (only meaningful over the spec's field)
	if small && mod.Cmp(big.NewInt(47)) == 0 {
		for _, pr := range b.Probes {
			asg := []*big.Int{big.NewInt(int64(pr.Asg[0])), big.NewInt(int64(pr.Asg[1])), big.NewInt(int64(pr.Asg[2]))}
			o := EvalProg(b.Prog, asg, mod)
			same := o.Ok == pr.Ok && o.Unspec == pr.Unspec
			if same && o.Ok && !o.Unspec {
				if len(o.Temps) != len(pr.Temps) {
					same = false
				} else {
					for i := range o.Temps {
						if !pr.Any[i] && o.Temps[i].Int64() != int64(pr.Temps[i]) {
							same = false
						}
					}
				}
			}
			if !same {
				res.PortVsTLC = fmt.Sprintf("asg=%v: TLC ok=%v temps=%v, port ok=%v temps=%v", pr.Asg, pr.Ok, pr.Temps, o.Ok, o.Temps)
				return res
			}
		}
	}
	circuit := &ProgCircuit{Prog: b.Prog, FieldBits: bitLen(mod)}
	var cs AnyCS
	var err error
	pan, msg := common.Safely(func() { cs, err = CompileAny(field, builder, circuit, opts...) })
	switch {
	case pan:
		res.Compile, res.CompErr = "panic", msg
	case err != nil:
		res.Compile, res.CompErr = "error", err.Error()
	default:
		res.Compile = "ok"
		res.NbCons = cs.GetNbConstraints()
	}
	var rows *Rows
	if res.Compile == "ok" {
		rows, err = ExportRows(cs, builder)
		if err != nil {
			res.disc("INFRA export", err.Error())
			return res
		}
	}
	fw, err := newFastWitness(mod)
	if err != nil {
		res.disc("INFRA witness", err.Error())
		return res
	}
	var pvals, svals []*big.Int
	if small {
		for v := int64(0); v < mod.Int64() && v < 47; v++ {
			pvals = append(pvals, big.NewInt(v))
		}
		if mod.Int64() > 47 {
			pvals = append(pvals, cornerValues(mod)...)
		}
		svals = []*big.Int{big.NewInt(0), big.NewInt(1), big.NewInt(2), big.NewInt(23), big.NewInt(45), new(big.Int).Sub(mod, big.NewInt(1))}
	} else {
		pvals = cornerValues(mod)
		svals = []*big.Int{big.NewInt(0), big.NewInt(1), new(big.Int).Sub(mod, big.NewInt(1)), big.NewInt(5)}
	}
	if !res.UsesSecret {
		svals = svals[:1]
	}
	p0vals, p1vals := pvals, pvals
	if !usesP[0] {
		p0vals = pvals[3:4]
	}
	if !usesP[1] {
		p1vals = pvals[2:3]
	}
	captureID := solver.GetHintID(CaptureHint)
	var captured []*big.Int
	capOpt := solver.OverrideHint(captureID, func(_ *big.Int, in, out []*big.Int) error {
		captured = captured[:0]
		for _, x := range in {
			captured = append(captured, new(big.Int).Set(x))
		}
		out[0].SetUint64(0)
		return nil
	})
	count := 0
	for _, s0 := range svals {
		for _, p0 := range p0vals {
			for _, p1 := range p1vals {
				asg := []*big.Int{p0, p1, s0}
				o := EvalProg(b.Prog, asg, mod)
				if o.Ok {
					res.OracleSat++
				}
				res.Solves++
				count++
				desc := func() string { return fmt.Sprintf("p0=%s p1=%s s0=%s", p0, p1, s0) }
				if res.Compile != "ok" {
					// a program rejected at compile time must be unsatisfiable under the reference semantics
					// (dividing by the literal constant 0 is rejected at compile time even for DivUnchecked: accepted deviation)
					if o.Ok && !o.Unspec && !constZeroDiv && !(hasDivU && strings.Contains(res.CompErr, "constant(0)")) {
						res.disc("compile rejects a program the reference semantics can satisfy", desc()+" : "+res.CompErr)
					}
					continue
				}
				fw.set(0, p0)
				fw.set(1, p1)
				fw.set(2, s0)
				captured = captured[:0]
				var sol any
				var serr error
				pan, msg := common.Safely(func() { sol, serr = cs.Solve(fw.w, capOpt, solver.WithNbTasks(1)) })
				if pan {
					res.disc("solver panic", desc()+" : "+msg)
					continue
				}
				if serr == nil {
					res.Solved++
				}
				switch {
				case o.Ok && serr != nil:
					if o.Unspec {
						// an unconstrained value (DivUnchecked(0,0)) flows into later instructions: the
						// documented meaning no longer determines satisfiability for the solver's choice
						break
					}
					cls := "solve fails although every assertion holds"
					if anyTrue(o.Any) {
						cls = "solve fails on the documented unconstrained case DivUnchecked(0,0)"
					}
					res.disc(cls, desc()+" : "+firstLine(serr.Error()))
				case !o.Ok && serr == nil:
					res.disc("solve succeeds although an assertion is violated", desc())
				case o.Ok && serr == nil:
					if !o.Unspec {
						if len(captured) != len(o.Temps) {
							if len(o.Temps) > 0 {
								res.disc("INFRA capture", fmt.Sprintf("%d captured, %d expected", len(captured), len(o.Temps)))
							}
						} else {
							for i := range captured {
								if !o.Any[i] && captured[i].Cmp(o.Temps[i]) != 0 {
									res.disc("computed value differs from the reference semantics",
										fmt.Sprintf("%s : temp %d = %s, expected %s", desc(), i, captured[i], o.Temps[i]))
									break
								}
							}
						}
					}
					if checkEvery > 0 && count%checkEvery == 0 {
						s, err := ReadSolution(sol)
						if err != nil {
							res.disc("INFRA solution", err.Error())
							continue
						}
						res.SolChecks++
						if err := SolutionOK(rows, s, asg, mod); err != nil {
							res.disc("returned solution is not a satisfying assignment", desc()+" : "+err.Error())
						}
					}
				}
			}
		}
	}
	return res
}

func anyTrue(b []bool) bool {
	for _, x := range b {
		if x {
			return true
		}
	}
	return false
}

func firstLine(s string) string {
	if i := strings.IndexByte(s, '\n'); i >= 0 {
		return s[:i]
	}
	return s
}

// ProgRun compiles and exhaustively solves TLC-generated programs (C04 / C06).
func ProgRun(args common.Args, out *common.Out) error {
	behs, err := common.ReadNDJSON[ProgBeh](args.Get("in", ""))
	if err != nil {
		return err
	}
	field := args.Get("field", "tinyfield")
	builders := strings.Split(args.Get("builders", "r1cs,scs"), ",")
	checkEvery := args.Int("checkevery", 7)
	var opts []frontend.CompileOption
	if t := args.Int("compress", -1); t >= 0 {
		opts = append(opts, frontend.WithCompressThreshold(t))
	}
	common.ParallelFor(len(behs), args.Int("par", 16), func(i int) {
		for _, b := range builders {
			if b == "r1cs" && usesPlonkAPI(behs[i].Prog) {
				continue // the PLONK-specific calls exist in the sparse builder only
			}
			r := progRunOne(&behs[i], field, b, opts, checkEvery)
			out.Emit(r)
		}
	})
	return nil
}

func usesPlonkAPI(p []Instr) bool {
	for _, ins := range p {
		if ins.Op == "PlonkExpr" || ins.Op == "PlonkGate" {
			return true
		}
	}
	return false
}
