package generic

// Points with a zero coordinate (C16): on P-256 the point Z = (0, sqrt(b)) is a prime-order point of the curve whose
// x-coordinate is zero; the emulated gadgets encode the point at infinity as (0,0), so every "is it infinity" test that
// looks at one coordinate only confuses Z with it.  Names are pairs (g, z) standing for [g]G + [z]Z (specs/CurveOps.tla,
// SpecialCases); expectations come from crypto/elliptic.

import (
	"crypto/elliptic"
	"fmt"
	"math/big"

	"github.com/consensys/gnark-crypto/ecc"
	"github.com/consensys/gnark/frontend"
	"github.com/consensys/gnark/std/algebra/algopts"
	"github.com/consensys/gnark/std/algebra/emulated/sw_emulated"
	"github.com/consensys/gnark/std/math/emulated"
	"github.com/consensys/gnark/test"

	"verifharness/common"
)

type SpecialCase struct {
	ID  int    `json:"id"`
	Op  string `json:"op"` // OnCurve | AddUnified | Add | ScalarMul
	PG  int    `json:"pg"`
	PZ  int    `json:"pz"`
	QG  int    `json:"qg"`
	QZ  int    `json:"qz"`
	S   int    `json:"s"`
	EG  int    `json:"eg"`
	EZ  int    `json:"ez"`
	Def bool   `json:"def"`
}

type specialCircuit struct {
	P, Q, E sw_emulated.AffinePoint[emulated.P256Fp]
	S       emulated.Element[emulated.P256Fr]
	Case    SpecialCase `gnark:"-"`
}

func (c *specialCircuit) Define(api frontend.API) error {
	cr, err := sw_emulated.New[emulated.P256Fp, emulated.P256Fr](api, sw_emulated.GetCurveParams[emulated.P256Fp]())
	if err != nil {
		return err
	}
	var r *sw_emulated.AffinePoint[emulated.P256Fp]
	switch c.Case.Op {
	case "OnCurve":
		cr.AssertIsOnCurve(&c.P)
		r = &c.P
	case "AddUnified":
		r = cr.AddUnified(&c.P, &c.Q)
	case "Add":
		r = cr.Add(&c.P, &c.Q)
	case "ScalarMul":
		r = cr.ScalarMul(&c.P, &c.S, algopts.WithCompleteArithmetic())
	default:
		return fmt.Errorf("operation %q not offered", c.Case.Op)
	}
	cr.AssertIsEqual(r, &c.E)
	return nil
}

// CurveSpecial replays the special-point cases on P-256.
func CurveSpecial(args common.Args, out *common.Out) error {
	cases, err := common.ReadNDJSON[SpecialCase](args.Get("in", ""))
	if err != nil {
		return err
	}
	cv := elliptic.P256()
	p := cv.Params().P
	zy := new(big.Int).ModSqrt(cv.Params().B, p)
	if zy == nil {
		return fmt.Errorf("b is not a square: no point with x = 0")
	}
	name := func(g, z int) (*big.Int, *big.Int) {
		// [g]G + [z]Z, (0,0) for the point at infinity
		var x, y *big.Int = new(big.Int), new(big.Int)
		inf := true
		add := func(ax, ay *big.Int) {
			if inf {
				x, y, inf = ax, ay, false
				return
			}
			if x.Cmp(ax) == 0 {
				if y.Cmp(ay) == 0 {
					x, y = cv.Double(x, y)
				} else {
					x, y, inf = new(big.Int), new(big.Int), true
				}
				return
			}
			x, y = cv.Add(x, y, ax, ay)
		}
		rep := func(n int, bx, by *big.Int) {
			if n < 0 {
				n, by = -n, new(big.Int).Sub(p, by)
			}
			for i := 0; i < n; i++ {
				add(bx, by)
			}
		}
		rep(g, cv.Params().Gx, cv.Params().Gy)
		rep(z, new(big.Int), zy)
		return x, y
	}
	pt := func(g, z int) sw_emulated.AffinePoint[emulated.P256Fp] {
		x, y := name(g, z)
		return sw_emulated.AffinePoint[emulated.P256Fp]{X: emulated.ValueOf[emulated.P256Fp](x), Y: emulated.ValueOf[emulated.P256Fp](y)}
	}
	mod := ecc.BN254.ScalarField()
	common.ParallelFor(len(cases), args.Int("par", 8), func(i int) {
		c := &cases[i]
		res := CurveRes{ID: c.ID, Family: "p256-special"}
		bad := func(f string, a ...any) { res.Problems = append(res.Problems, fmt.Sprintf(f, a...)) }
		defer func() { out.Emit(res) }()
		if !c.Def {
			res.Skipped = "outside the documented domain"
			return
		}
		assign := func(dg int) *specialCircuit {
			return &specialCircuit{P: pt(c.PG, c.PZ), Q: pt(c.QG, c.QZ), E: pt(c.EG+dg, c.EZ), S: emulated.ValueOf[emulated.P256Fr](c.S)}
		}
		var e error
		pan, msg := common.Safely(func() { e = test.IsSolved(&specialCircuit{Case: *c}, assign(0), mod) })
		res.Runs++
		if pan {
			bad("gadget panics: %s", msg)
			return
		}
		if e != nil {
			bad("result differs from the native group law: %s", firstLine(e.Error()))
			return
		}
		if c.Op == "OnCurve" {
			return
		}
		pan, msg = common.Safely(func() { e = test.IsSolved(&specialCircuit{Case: *c}, assign(1), mod) })
		res.Runs++
		if pan {
			bad("gadget panics: %s", msg)
		} else if e == nil {
			bad("a wrong result (expected + G) is accepted")
		}
	})
	return nil
}
