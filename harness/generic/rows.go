package generic

import (
	"fmt"
	"math/big"
	"reflect"

	"github.com/consensys/gnark/constraint"
)

// TermV is a term with its coefficient value resolved.
type TermV struct {
	C *big.Int `json:"c"`
	W int      `json:"w"`
}

// Rows is the exported constraint list of a compiled system with concrete coefficient values.
type Rows struct {
	Kind     string      `json:"kind"` // r1cs | scs
	NbPublic int         `json:"nb_public"`
	NbSecret int         `json:"nb_secret"`
	NbWires  int         `json:"nb_wires"`
	R1C      [][3][]TermV `json:"r1c,omitempty"`
	Sparse   []SparseRow `json:"sparse,omitempty"`
}

type SparseRow struct {
	XA, XB, XC         int
	QL, QR, QO, QM, QC *big.Int
	Commitment         int
}

func exportRows[E constraint.Element](cs constraint.ConstraintSystemGeneric[E], builder string) (*Rows, error) {
	coeff := func(id uint32) *big.Int { return cs.ToBigInt(cs.GetCoefficient(int(id))) }
	r := &Rows{NbPublic: cs.GetNbPublicVariables(), NbSecret: cs.GetNbSecretVariables()}
	r.NbWires = r.NbPublic + r.NbSecret + cs.GetNbInternalVariables()
	switch builder {
	case "r1cs":
		t, ok := any(cs).(interface{ GetR1Cs() []constraint.R1C })
		if !ok {
			return nil, fmt.Errorf("system %T has no GetR1Cs", cs)
		}
		r.Kind = "r1cs"
		for _, c := range t.GetR1Cs() {
			var row [3][]TermV
			for k, le := range []constraint.LinearExpression{c.L, c.R, c.O} {
				for _, term := range le {
					row[k] = append(row[k], TermV{C: coeff(term.CID), W: int(term.VID)})
				}
			}
			r.R1C = append(r.R1C, row)
		}
	case "scs":
		t, ok := any(cs).(interface{ GetSparseR1Cs() []constraint.SparseR1C })
		if !ok {
			return nil, fmt.Errorf("system %T has no GetSparseR1Cs", cs)
		}
		r.Kind = "scs"
		for _, c := range t.GetSparseR1Cs() {
			r.Sparse = append(r.Sparse, SparseRow{XA: int(c.XA), XB: int(c.XB), XC: int(c.XC),
				QL: coeff(c.QL), QR: coeff(c.QR), QO: coeff(c.QO), QM: coeff(c.QM), QC: coeff(c.QC), Commitment: int(c.Commitment)})
		}
	default:
		return nil, fmt.Errorf("unknown system type %T", cs)
	}
	return r, nil
}

// ExportRows resolves the rows of cs whatever its element width.
func ExportRows(cs AnyCS, builder string) (*Rows, error) {
	switch t := cs.(type) {
	case constraint.ConstraintSystemGeneric[constraint.U64]:
		return exportRows[constraint.U64](t, builder)
	case constraint.ConstraintSystemGeneric[constraint.U32]:
		return exportRows[constraint.U32](t, builder)
	}
	return nil, fmt.Errorf("unsupported constraint system %T", cs)
}

// vecToBig converts a field-element vector of any of gnark's fields to big.Int values.
func vecToBig(v reflect.Value) []*big.Int {
	out := make([]*big.Int, v.Len())
	for i := range out {
		e := v.Index(i).Addr().Interface().(interface{ BigInt(*big.Int) *big.Int })
		out[i] = e.BigInt(new(big.Int))
	}
	return out
}

// Solution is a field-independent copy of what Solve returned.
type Solution struct {
	W, A, B, C []*big.Int // r1cs
	L, R, O    []*big.Int // scs
}

func ReadSolution(sol any) (*Solution, error) {
	v := reflect.ValueOf(sol)
	if v.Kind() != reflect.Ptr {
		return nil, fmt.Errorf("unexpected solution %T", sol)
	}
	v = v.Elem()
	s := &Solution{}
	if f := v.FieldByName("W"); f.IsValid() {
		s.W, s.A, s.B, s.C = vecToBig(f), vecToBig(v.FieldByName("A")), vecToBig(v.FieldByName("B")), vecToBig(v.FieldByName("C"))
		return s, nil
	}
	if f := v.FieldByName("L"); f.IsValid() {
		s.L, s.R, s.O = vecToBig(f), vecToBig(v.FieldByName("R")), vecToBig(v.FieldByName("O"))
		return s, nil
	}
	return nil, fmt.Errorf("unexpected solution %T", sol)
}

func evalLE(le []TermV, w []*big.Int, mod *big.Int) *big.Int {
	acc := new(big.Int)
	t := new(big.Int)
	for _, term := range le {
		acc.Add(acc, t.Mul(term.C, w[term.W]))
	}
	return acc.Mod(acc, mod)
}

// SolutionOK is the Go port of the SolutionOK predicate (specs/ConstraintSat.tla): the solution
// extends the witness, satisfies every row, and (sparse) is laid out as the backend expects.
// witness = public (without ONE for scs, with the ONE wire prepended for r1cs) then secret values.
func SolutionOK(rows *Rows, sol *Solution, witness []*big.Int, mod *big.Int) error {
	if rows.Kind == "r1cs" {
		if len(sol.W) != rows.NbWires {
			return fmt.Errorf("W has %d entries, system has %d wires", len(sol.W), rows.NbWires)
		}
		if sol.W[0].Cmp(big.NewInt(1)) != 0 {
			return fmt.Errorf("W[0] (ONE wire) = %s", sol.W[0])
		}
		for i, v := range witness {
			if sol.W[i+1].Cmp(v) != 0 {
				return fmt.Errorf("W[%d]=%s does not extend the witness value %s", i+1, sol.W[i+1], v)
			}
		}
		if len(sol.A) != len(rows.R1C) || len(sol.B) != len(rows.R1C) || len(sol.C) != len(rows.R1C) {
			return fmt.Errorf("A/B/C lengths %d/%d/%d, %d rows", len(sol.A), len(sol.B), len(sol.C), len(rows.R1C))
		}
		for k, row := range rows.R1C {
			a, b, c := evalLE(row[0], sol.W, mod), evalLE(row[1], sol.W, mod), evalLE(row[2], sol.W, mod)
			ab := new(big.Int).Mul(a, b)
			if ab.Mod(ab, mod).Cmp(c) != 0 {
				return fmt.Errorf("row %d violated: %s * %s != %s", k, a, b, c)
			}
			if sol.A[k].Cmp(a) != 0 || sol.B[k].Cmp(b) != 0 || sol.C[k].Cmp(c) != 0 {
				return fmt.Errorf("row %d: returned (a,b,c)=(%s,%s,%s) but the row evaluates to (%s,%s,%s)", k, sol.A[k], sol.B[k], sol.C[k], a, b, c)
			}
		}
		return nil
	}
	// sparse: rows 0..nbPub-1 are the public placeholders (L holds the input), then one row per gate,
	// padded to a power of two with the value of wire 0
	nbPub := rows.NbPublic
	n := nbPub + len(rows.Sparse)
	size := 1
	for size < n {
		size <<= 1
	}
	if len(sol.L) != size || len(sol.R) != size || len(sol.O) != size {
		return fmt.Errorf("L/R/O lengths %d/%d/%d, expected %d", len(sol.L), len(sol.R), len(sol.O), size)
	}
	wire := map[int]*big.Int{}
	see := func(w int, v *big.Int, where string) error {
		if old, ok := wire[w]; ok {
			if old.Cmp(v) != 0 {
				return fmt.Errorf("wire %d carries %s and %s (%s): copy constraint broken", w, old, v, where)
			}
			return nil
		}
		wire[w] = v
		return nil
	}
	for i := 0; i < nbPub; i++ {
		if sol.L[i].Cmp(witness[i]) != 0 {
			return fmt.Errorf("L[%d]=%s is not public input %d (%s)", i, sol.L[i], i, witness[i])
		}
		if err := see(i, sol.L[i], "placeholder"); err != nil {
			return err
		}
	}
	for i := nbPub; i < len(witness); i++ {
		wire[i] = witness[i] // secret inputs: whatever position holds them must carry the witness value
	}
	for k, g := range rows.Sparse {
		r := nbPub + k
		l, rr, o := sol.L[r], sol.R[r], sol.O[r]
		for _, x := range []struct {
			w int
			v *big.Int
		}{{g.XA, l}, {g.XB, rr}, {g.XC, o}} {
			if err := see(x.w, x.v, fmt.Sprintf("gate %d", k)); err != nil {
				return err
			}
		}
		acc := new(big.Int).Mul(g.QL, l)
		acc.Add(acc, new(big.Int).Mul(g.QR, rr))
		acc.Add(acc, new(big.Int).Mul(g.QO, o))
		acc.Add(acc, new(big.Int).Mul(g.QM, new(big.Int).Mul(l, rr)))
		acc.Add(acc, g.QC)
		if g.Commitment == 0 && acc.Mod(acc, mod).Sign() != 0 {
			return fmt.Errorf("gate %d violated: qL*%s+qR*%s+qO*%s+qM*l*r+qC = %s", k, l, rr, o, acc)
		}
	}
	w0, ok := wire[0]
	for r := n; r < size; r++ {
		if ok && (sol.L[r].Cmp(w0) != 0 || sol.R[r].Cmp(w0) != 0 || sol.O[r].Cmp(w0) != 0) {
			return fmt.Errorf("padding row %d does not hold the value of wire 0", r)
		}
	}
	return nil
}

// WitnessValues converts a witness vector (public without ONE, then secret) of any field to big.Int.
func WitnessValues(vec any) []*big.Int {
	return vecToBig(reflect.ValueOf(vec))
}
