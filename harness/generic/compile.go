// Package generic holds the curve-independent commands of the harness.
package generic

import (
	"bytes"
	"crypto/sha256"
	"encoding/hex"
	"fmt"
	"io"
	"math/big"

	"github.com/consensys/gnark-crypto/ecc"
	"github.com/consensys/gnark/backend/witness"
	"github.com/consensys/gnark/constraint"
	"github.com/consensys/gnark/constraint/solver"
	"github.com/consensys/gnark/frontend"
	"github.com/consensys/gnark/frontend/cs/r1cs"
	"github.com/consensys/gnark/frontend/cs/scs"
	"strings"
)

// AnyCS is the field-width independent view of a compiled constraint system.
type AnyCS interface {
	io.WriterTo
	io.ReaderFrom
	Solve(w witness.Witness, opts ...solver.Option) (any, error)
	GetNbConstraints() int
	GetNbInstructions() int
	GetNbInternalVariables() int
	GetNbSecretVariables() int
	GetNbPublicVariables() int
	GetNbCoefficients() int
	Field() *big.Int
}

var SmallFields = map[string]*big.Int{
	"tinyfield": big.NewInt(47),
	"babybear":  big.NewInt(2013265921),
	"koalabear": big.NewInt(2130706433),
}

var CurveIDs = map[string]ecc.ID{
	"bn254": ecc.BN254, "bls12-377": ecc.BLS12_377, "bls12-381": ecc.BLS12_381, "bls24-315": ecc.BLS24_315,
	"bls24-317": ecc.BLS24_317, "bw6-633": ecc.BW6_633, "bw6-761": ecc.BW6_761,
}

func FieldByName(name string) (*big.Int, bool) {
	if m, ok := SmallFields[name]; ok {
		return m, true
	}
	if id, ok := CurveIDs[name]; ok {
		return id.ScalarField(), false
	}
	panic("unknown field " + name)
}

// CompileAny compiles circuit over the named field with the named builder ("r1cs" | "scs").
func CompileAny(field, builder string, circuit frontend.Circuit, opts ...frontend.CompileOption) (AnyCS, error) {
	mod, small := FieldByName(field)
	if small {
		var nb frontend.NewBuilderU32
		if builder == "r1cs" {
			nb = r1cs.NewBuilder[constraint.U32]
		} else {
			nb = scs.NewBuilder[constraint.U32]
		}
		return frontend.CompileU32(mod, nb, circuit, opts...)
	}
	var nb frontend.NewBuilder
	if builder == "r1cs" {
		nb = r1cs.NewBuilder[constraint.U64]
	} else {
		nb = scs.NewBuilder[constraint.U64]
	}
	return frontend.Compile(mod, nb, circuit, opts...)
}

func Serialize(cs AnyCS) ([]byte, error) {
	var buf bytes.Buffer
	n, err := cs.WriteTo(&buf)
	if err != nil {
		return nil, err
	}
	if int(n) != buf.Len() {
		return nil, fmt.Errorf("WriteTo reported %d bytes but wrote %d", n, buf.Len())
	}
	return buf.Bytes(), nil
}

func Digest(b []byte) string {
	h := sha256.Sum256(b)
	return hex.EncodeToString(h[:8])
}

// LogderivCountHint returns the (unexported) multiplicity-counting hint of the log-derivative argument.
func LogderivCountHint() solver.Hint {
	for _, h := range solver.GetRegisteredHints() {
		if strings.HasSuffix(solver.GetHintName(h), "logderivarg.countHint") {
			return h
		}
	}
	panic("the log-derivative argument's counting hint is not registered")
}
