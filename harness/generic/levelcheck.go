package generic

import (
	"verifharness/common"
)

// LevelCheck compiles TLC-generated programs over tinyfield and reports on their instruction levels.
func LevelCheck(args common.Args, out *common.Out) error {
	behs, err := common.ReadNDJSON[ProgBeh](args.Get("in", ""))
	if err != nil {
		return err
	}
	field := args.Get("field", "tinyfield")
	mod, _ := FieldByName(field)
	common.ParallelFor(len(behs), args.Int("par", 16), func(i int) {
		for _, b := range []string{"r1cs", "scs"} {
			if b == "r1cs" && usesPlonkAPI(behs[i].Prog) {
				continue
			}
			var cs AnyCS
			var err error
			pan, _ := common.Safely(func() {
				cs, err = CompileAny(field, b, &ProgCircuit{Prog: behs[i].Prog, FieldBits: bitLen(mod)})
			})
			if pan || err != nil {
				continue
			}
			out.Emit(LevelReport(b+" "+progString(behs[i].Prog), cs))
		}
	})
	return nil
}
