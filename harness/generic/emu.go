package generic

import (
	"fmt"
	"math/big"
	"strings"

	"github.com/consensys/gnark-crypto/ecc"
	"github.com/consensys/gnark/backend"
	"github.com/consensys/gnark/backend/groth16"
	"github.com/consensys/gnark/backend/plonk"
	"github.com/consensys/gnark/constraint"
	"github.com/consensys/gnark/constraint/solver"
	"github.com/consensys/gnark/frontend"
	"github.com/consensys/gnark/frontend/cs/r1cs"
	"github.com/consensys/gnark/frontend/cs/scs"
	"github.com/consensys/gnark/std/math/emulated"
	"github.com/consensys/gnark/test"
	"github.com/consensys/gnark/test/unsafekzg"

	"verifharness/common"
)

// Mod13 is a toy emulated field (the modulus specs/EmulatedOps.tla evaluates over).
type Mod13 struct{}

func (Mod13) NbLimbs() uint     { return 2 }
func (Mod13) BitsPerLimb() uint { return 3 }
func (Mod13) IsPrime() bool     { return true }
func (Mod13) Modulus() *big.Int { return big.NewInt(13) }

// Mod251x2 has limbs so narrow that overflow bookkeeping matters early.
type Mod65521 struct{}

func (Mod65521) NbLimbs() uint     { return 4 }
func (Mod65521) BitsPerLimb() uint { return 4 }
func (Mod65521) IsPrime() bool     { return true }
func (Mod65521) Modulus() *big.Int { return big.NewInt(65521) }

type EmuRef struct {
	K string `json:"k"`
	I int    `json:"i"`
}
type EmuInstr struct {
	Op string   `json:"op"`
	A  []EmuRef `json:"a"`
}
type EmuProbe struct {
	A     int   `json:"a"`
	B     int   `json:"b"`
	Sel   int   `json:"sel"`
	Ok    bool  `json:"ok"`
	Un    bool  `json:"un"`
	Temps []int `json:"temps"`
}
type EmuBeh struct {
	ID     int        `json:"id"`
	Prog   []EmuInstr `json:"prog"`
	Probes []EmuProbe `json:"probes"`
}

// EmuCircuit interprets a program over emulated.Field[T] and asserts every intermediate result.
type EmuCircuit[T emulated.FieldParams] struct {
	A, B emulated.Element[T]
	E    []emulated.Element[T]
	N    []frontend.Variable // native expectations (low bits of the canonical representative for CanonBits)
	Sel  frontend.Variable `gnark:",public"`
	Prog []EmuInstr        `gnark:"-"`
}

func (c *EmuCircuit[T]) Define(api frontend.API) error {
	f, err := emulated.NewField[T](api)
	if err != nil {
		return err
	}
	var t T
	qm1 := new(big.Int).Sub(t.Modulus(), big.NewInt(1))
	selBits := api.ToBinary(c.Sel, 2)
	var temps []*emulated.Element[T]
	modres := make([]*emulated.Element[T], len(c.Prog))
	get := func(r EmuRef) *emulated.Element[T] {
		switch r.K {
		case "a":
			return &c.A
		case "b":
			return &c.B
		case "zero":
			return f.Zero()
		case "one":
			return f.One()
		case "qm1":
			return f.NewElement(qm1)
		case "t":
			return temps[r.I]
		}
		panic("bad ref")
	}
	for k, ins := range c.Prog {
		a := make([]*emulated.Element[T], len(ins.A))
		for i := range ins.A {
			a[i] = get(ins.A[i])
		}
		var r *emulated.Element[T]
		switch ins.Op {
		case "Add":
			r = f.Add(a[0], a[1])
		case "Sub":
			r = f.Sub(a[0], a[1])
		case "Mul":
			r = f.Mul(a[0], a[1])
		case "Sqr":
			r = f.Mul(a[0], a[0])
		case "Neg":
			r = f.Neg(a[0])
		case "Div":
			r = f.Div(a[0], a[1])
		case "Inverse":
			r = f.Inverse(a[0])
		case "Reduce":
			r = f.Reduce(a[0])
		case "MulConst3":
			r = f.MulConst(a[0], big.NewInt(3))
		case "AddChain":
			r = a[0]
			for i := 0; i < 340; i++ {
				r = f.Add(r, a[0])
			}
		case "Select":
			r = f.Select(selBits[0], a[0], a[1])
		case "Mux3":
			// the selector is Sel mod 3 for Sel in 0..3: fold 3 onto 0
			is3 := api.And(selBits[0], selBits[1])
			s := api.Select(is3, 0, c.Sel)
			r = f.Mux(s, a[0], a[1], a[2])
		case "Lookup2":
			r = f.Lookup2(selBits[0], selBits[1], a[0], a[1], a[2], a[3])
		case "Sum3":
			r = f.Sum(a[0], a[1], a[2])
		case "IsZeroSel":
			r = f.Select(f.IsZero(a[0]), a[1], f.Add(a[1], f.One()))
		case "MulNR":
			r = f.Reduce(f.MulNoReduce(a[0], a[1]))
		case "SqrtSq":
			t := f.Sqrt(a[0])
			r = f.Mul(t, t)
		case "Exp":
			r = f.Exp(a[0], a[1])
		case "CanonBits":
			bits := f.ToBitsCanonical(a[0])
			r = f.FromBits(bits...)
			low := bits
			if len(low) > 8 {
				low = low[:8]
			}
			api.AssertIsEqual(api.FromBinary(low...), c.N[k])
		case "Bits":
			r = f.FromBits(f.ToBits(a[0])...)
		case "AssertEq":
			f.AssertIsEqual(a[0], a[1])
			r = a[0]
		case "AssertDiff":
			f.AssertIsDifferent(a[0], a[1])
			r = a[0]
		case "LeqStrict":
			x, y := f.ReduceStrict(a[0]), f.ReduceStrict(a[1])
			f.AssertIsLessOrEqual(x, y)
			r = a[0]
		case "ReduceStrict":
			r = f.ReduceStrict(a[0])
		case "Eval2":
			r = f.Eval([][]*emulated.Element[T]{{a[0], a[0]}, {a[0], a[1]}, {a[1]}}, []int{1, 2, 3})
		case "LookupOvf":
			x2 := f.Add(a[0], a[0])
			x4 := f.Add(x2, x2)
			x8 := f.Add(x4, x4)
			e := f.Lookup2(selBits[0], selBits[1], a[0], x2, x4, x8)
			r = f.Mul(f.Sub(a[1], e), a[1])
		case "ModAddChain":
			acc := a[0]
			for i := 0; i < 200; i++ {
				acc = f.ModAdd(a[0], acc, &c.B)
			}
			modres[k] = acc
			r = a[0]
		case "ModMulB":
			modres[k] = f.ModMul(a[0], a[1], &c.B)
			r = a[0]
		case "ModAddB":
			modres[k] = f.ModAdd(a[0], a[1], &c.B)
			r = a[0]
		case "ModExpB":
			modres[k] = f.ModExp(a[0], a[1], &c.B)
			r = a[0]
		default:
			return fmt.Errorf("unknown emulated op %q", ins.Op)
		}
		temps = append(temps, r)
	}
	for k := range temps {
		if modres[k] != nil {
			f.ModAssertIsEqual(modres[k], &c.E[k], &c.B)
		} else {
			f.AssertIsEqual(temps[k], &c.E[k])
		}
	}
	return nil
}

// emuOracle evaluates the program with math/big (port of EmulatedOps.tla Eval). a and b are the integer values of the
// witness inputs (a may be non-canonical). Status: 0 satisfiable with expectations exp (and native expectations nat),
// 1 unsatisfiable, 2 unspecified.
func emuOracle(prog []EmuInstr, a, b *big.Int, sel int, q *big.Int) (int, []*big.Int, []*big.Int) {
	var temps, exp, nat []*big.Int
	one := big.NewInt(1)
	get := func(r EmuRef) *big.Int {
		switch r.K {
		case "a":
			return a
		case "b":
			return b
		case "zero":
			return new(big.Int)
		case "one":
			return new(big.Int).Mod(one, q)
		case "qm1":
			return new(big.Int).Sub(q, one)
		case "t":
			return temps[r.I]
		}
		panic("bad ref")
	}
	n := func() *big.Int { return new(big.Int) }
	for _, ins := range prog {
		raw := make([]*big.Int, len(ins.A))
		x := make([]*big.Int, len(ins.A))
		for i := range ins.A {
			raw[i] = get(ins.A[i])
			x[i] = n().Mod(raw[i], q)
		}
		var r, e *big.Int // r: value of the temporary, e: expected E (defaults to r)
		nv := n()
		switch ins.Op {
		case "Add":
			r = n().Add(x[0], x[1])
		case "Sub":
			r = n().Sub(x[0], x[1])
		case "Mul", "MulNR":
			r = n().Mul(x[0], x[1])
		case "Sqr":
			r = n().Mul(x[0], x[0])
		case "Neg":
			r = n().Neg(x[0])
		case "Div":
			if x[1].Sign() == 0 {
				if x[0].Sign() == 0 {
					return 2, nil, nil
				}
				return 1, nil, nil
			}
			r = n().Mul(x[0], n().ModInverse(x[1], q))
		case "Inverse":
			if x[0].Sign() == 0 {
				return 1, nil, nil
			}
			r = n().ModInverse(x[0], q)
		case "Reduce", "ReduceStrict", "Bits":
			r = n().Set(x[0])
		case "CanonBits":
			r = n().Set(x[0])
			nv = n().And(x[0], big.NewInt(255))
		case "MulConst3":
			r = n().Mul(x[0], big.NewInt(3))
		case "AddChain":
			r = n().Mul(x[0], big.NewInt(341))
		case "Select":
			if sel%2 == 1 {
				r = n().Set(x[0])
			} else {
				r = n().Set(x[1])
			}
		case "Mux3":
			r = n().Set(x[sel%3])
		case "Lookup2":
			r = n().Set(x[sel%4])
		case "Sum3":
			r = n().Add(n().Add(x[0], x[1]), x[2])
		case "Eval2":
			r = n().Mul(x[0], x[0])
			r.Add(r, n().Mul(big.NewInt(2), n().Mul(x[0], x[1])))
			r.Add(r, n().Mul(big.NewInt(3), x[1]))
		case "IsZeroSel":
			if x[0].Sign() == 0 {
				r = n().Set(x[1])
			} else {
				r = n().Add(x[1], one)
			}
		case "SqrtSq":
			if x[0].Sign() != 0 && n().ModSqrt(x[0], q) == nil {
				return 1, nil, nil
			}
			r = n().Set(x[0])
		case "Exp":
			if raw[1].Cmp(q) >= 0 || (x[0].Sign() == 0 && raw[1].Sign() == 0) {
				return 2, nil, nil
			}
			r = n().Exp(x[0], raw[1], q)
		case "AssertEq":
			if x[0].Cmp(x[1]) != 0 {
				return 1, nil, nil
			}
			r = n().Set(x[0])
		case "AssertDiff":
			if x[0].Cmp(x[1]) == 0 {
				return 1, nil, nil
			}
			r = n().Set(x[0])
		case "LeqStrict":
			if x[0].Cmp(x[1]) > 0 {
				return 1, nil, nil
			}
			r = n().Set(x[0])
		case "LookupOvf":
			cf := new(big.Int).Lsh(big.NewInt(1), uint(sel%4))
			r = n().Sub(x[1], n().Mul(cf, x[0]))
			r.Mul(r, x[1])
		case "ModMulB", "ModAddB", "ModExpB", "ModAddChain":
			if b.Sign() == 0 {
				return 2, nil, nil
			}
			switch ins.Op {
			case "ModAddChain":
				e = n().Mul(raw[0], big.NewInt(201))
			case "ModMulB":
				e = n().Mul(raw[0], raw[1])
			case "ModAddB":
				e = n().Add(raw[0], raw[1])
			default:
				if raw[0].Sign() == 0 && raw[1].Sign() == 0 {
					return 2, nil, nil
				}
				e = n().Exp(raw[0], raw[1], b)
			}
			e.Mod(e, b)
			r = n().Set(x[0])
		default:
			panic("unknown op " + ins.Op)
		}
		r.Mod(r, q)
		if e == nil {
			e = r
		}
		temps = append(temps, r)
		exp = append(exp, e)
		nat = append(nat, nv)
	}
	return 0, exp, nat
}

func emuIsMod(op string) bool {
	return op == "ModMulB" || op == "ModAddB" || op == "ModExpB" || op == "ModAddChain"
}

type EmuRes struct {
	ID       int      `json:"id"`
	Params   string   `json:"params"`
	Cases    int      `json:"cases"`
	Tampered int      `json:"tampered"`
	Problems []string `json:"problems"`
}

func emuProgString(p []EmuInstr) string {
	var sb strings.Builder
	for i, ins := range p {
		if i > 0 {
			sb.WriteString("; ")
		}
		sb.WriteString(ins.Op + "(")
		for j, r := range ins.A {
			if j > 0 {
				sb.WriteString(",")
			}
			if r.K == "t" {
				fmt.Fprintf(&sb, "t%d", r.I)
			} else {
				sb.WriteString(r.K)
			}
		}
		sb.WriteString(")")
	}
	return sb.String()
}

// limbsOf assigns an element by its limbs, so that a value in [q, 2^width) can be given to a witness.
func limbsOf[T emulated.FieldParams](v *big.Int) emulated.Element[T] {
	var t T
	mask := new(big.Int).Sub(new(big.Int).Lsh(big.NewInt(1), t.BitsPerLimb()), big.NewInt(1))
	x := new(big.Int).Set(v)
	limbs := make([]frontend.Variable, t.NbLimbs())
	for i := range limbs {
		limbs[i] = new(big.Int).And(x, mask)
		x.Rsh(x, t.BitsPerLimb())
	}
	return emulated.Element[T]{Limbs: limbs}
}

// emuRun replays one program on emulated.Field[T] over the native field `native`.
func emuRun[T emulated.FieldParams](b *EmuBeh, pname string, native ecc.ID, full bool, tamper bool) EmuRes {
	res := EmuRes{ID: b.ID, Params: pname}
	bad := func(f string, a ...any) {
		if len(res.Problems) < 6 {
			res.Problems = append(res.Problems, fmt.Sprintf(f, a...))
		}
	}
	var t T
	q := t.Modulus()
	toy := q.Cmp(big.NewInt(13)) == 0
	one := big.NewInt(1)
	limbMax := new(big.Int).Sub(new(big.Int).Lsh(one, t.BitsPerLimb()), one)
	type vv struct {
		a, b *big.Int
		sel  int // -1: all four selector values
	}
	var vals []vv
	if toy {
		for _, pr := range b.Probes {
			vals = append(vals, vv{big.NewInt(int64(pr.A)), big.NewInt(int64(pr.B)), pr.Sel})
		}
	} else {
		qm1 := new(big.Int).Sub(q, one)
		half := new(big.Int).Rsh(q, 1)
		allones := new(big.Int).Mod(new(big.Int).Sub(new(big.Int).Lsh(one, t.BitsPerLimb()*(t.NbLimbs()-1)), one), q) // lower limbs all ones
		corner := []*big.Int{new(big.Int), big.NewInt(1), big.NewInt(2), qm1, half, limbMax, allones, new(big.Int).Sub(qm1, one)}
		for i, x := range corner {
			vals = append(vals, vv{x, corner[(i*3+1)%len(corner)], -1}, vv{x, x, -1})
		}
		// non-canonical witness values: q itself and the largest value the limbs can hold
		top := new(big.Int).Sub(new(big.Int).Lsh(one, uint(q.BitLen())), one)
		vals = append(vals, vv{q, big.NewInt(1), 1}, vv{q, qm1, 2}, vv{top, big.NewInt(2), 0}, vv{top, half, 3})
	}
	hasMod, usesSel := false, false
	for _, ins := range b.Prog {
		if emuIsMod(ins.Op) {
			hasMod = true
		}
		if ins.Op == "Select" || ins.Op == "Mux3" || ins.Op == "Lookup2" || ins.Op == "LookupOvf" {
			usesSel = true
		}
	}
	// a padding for the variable-modulus subtraction may be any multiple of the modulus: perturbing its top limb by one is
	// legitimate when the modulus divides a power of two
	pow2 := func(m *big.Int) bool { return m.Sign() > 0 && new(big.Int).And(m, new(big.Int).Sub(m, one)).Sign() == 0 }
	mkAssign := func(a, bv *big.Int, sel int, exp, nat []*big.Int) *EmuCircuit[T] {
		as := &EmuCircuit[T]{A: limbsOf[T](a), B: limbsOf[T](bv), Sel: sel, E: make([]emulated.Element[T], len(b.Prog)), N: make([]frontend.Variable, len(b.Prog))}
		for k := range as.E {
			as.E[k] = emulated.ValueOf[T](0)
			as.N[k] = 0
			if k < len(exp) {
				as.E[k] = emulated.ValueOf[T](exp[k])
				as.N[k] = nat[k]
			}
		}
		return as
	}
	circuit := &EmuCircuit[T]{Prog: b.Prog, E: make([]emulated.Element[T], len(b.Prog)), N: make([]frontend.Variable, len(b.Prog))}
	// compile once for the prover path
	var ccs constraint.ConstraintSystem
	var pk groth16.ProvingKey
	var vk groth16.VerifyingKey
	var plpk plonk.ProvingKey
	var plvk plonk.VerifyingKey
	usePlonk := b.ID%4 == 3
	if full {
		var err error
		pan, msg := common.Safely(func() {
			if usePlonk {
				ccs, err = frontend.Compile(native.ScalarField(), scs.NewBuilder, circuit)
				if err == nil {
					srs, srsL, e := unsafekzg.NewSRS(ccs, unsafekzg.WithToxicValue(big.NewInt(1212)))
					if e != nil {
						err = e
						return
					}
					plpk, plvk, err = plonk.Setup(ccs, srs, srsL)
				}
			} else {
				ccs, err = frontend.Compile(native.ScalarField(), r1cs.NewBuilder, circuit)
				if err == nil {
					pk, vk, err = groth16.Setup(ccs)
				}
			}
		})
		if pan {
			bad("compiling %s panics: %s", emuProgString(b.Prog), msg)
			return res
		}
		if err != nil {
			// a program no valuation satisfies (constant division by zero) may be rejected at compile time
			sat := false
			for _, v := range vals {
				for sel := 0; sel < 4; sel++ {
					if st, _, _ := emuOracle(b.Prog, v.a, v.b, sel, q); st == 0 {
						sat = true
					}
				}
			}
			if sat {
				bad("compiling %s fails: %v", emuProgString(b.Prog), err)
				return res
			}
			full = false
		}
	}
	prove := func(as *EmuCircuit[T], opts ...solver.Option) error {
		w, err := frontend.NewWitness(as, native.ScalarField())
		if err != nil {
			return fmt.Errorf("INFRA witness: %w", err)
		}
		pub, _ := w.Public()
		var perr error
		pan, msg := common.Safely(func() {
			if usePlonk {
				p, e := plonk.Prove(ccs, plpk, w, backend.WithSolverOptions(opts...))
				if e != nil {
					perr = e
					return
				}
				perr = plonk.Verify(p, plvk, pub)
			} else {
				p, e := groth16.Prove(ccs, pk, w, backend.WithSolverOptions(opts...))
				if e != nil {
					perr = e
					return
				}
				perr = groth16.Verify(p, vk, pub)
			}
		})
		if pan {
			return fmt.Errorf("panic: %s", msg)
		}
		return perr
	}
	for vi, v := range vals {
		sels := []int{0, 1, 2, 3}
		if v.sel >= 0 {
			sels = []int{v.sel}
		} else if !usesSel {
			sels = []int{vi % 4}
		}
		for _, sel := range sels {
			st, exp, nat := emuOracle(b.Prog, v.a, v.b, sel, q)
			if toy {
				pr := b.Probes[vi]
				same := pr.Ok == (st == 0) && pr.Un == (st == 2)
				if same && st == 0 {
					for k := range exp {
						if int(exp[k].Int64()) != pr.Temps[k] {
							same = false
						}
					}
				}
				if !same {
					bad("INFRA oracle port disagrees with TLC on %s a=%s b=%s sel=%d", emuProgString(b.Prog), v.a, v.b, sel)
					return res
				}
			}
			if st == 2 {
				continue // unspecified by the documentation
			}
			ok := st == 0
			as := mkAssign(v.a, v.b, sel, exp, nat)
			res.Cases++
			var terr error
			pan, msg := common.Safely(func() { terr = test.IsSolved(circuit, as, native.ScalarField()) })
			desc := fmt.Sprintf("%s over %s with a=%s b=%s sel=%d", emuProgString(b.Prog), pname, v.a, v.b, sel)
			if pan {
				bad("test engine panics on %s: %s", desc, msg)
			} else if ok && terr != nil {
				bad("result differs from integer arithmetic modulo q (test engine): %s: %v", desc, firstLine(terr.Error()))
			} else if !ok && terr == nil {
				bad("unsatisfiable case accepted (test engine): %s", desc)
			}
			if full && (vi%5 == 0 || toy || v.sel >= 0) {
				perr := prove(as)
				if perr != nil && strings.HasPrefix(perr.Error(), "INFRA") {
					bad("%v", perr)
					return res
				}
				if ok && perr != nil {
					bad("result differs from integer arithmetic modulo q (compiled circuit, real prover): %s: %v", desc, firstLine(perr.Error()))
				} else if !ok && perr == nil {
					bad("unsatisfiable case accepted (compiled circuit): %s", desc)
				}
				// a wrong expected value must be rejected (modulo 1 everything is congruent)
				lastMod := emuIsMod(b.Prog[len(b.Prog)-1].Op)
				if ok && !(lastMod && v.b.Cmp(one) <= 0) {
					wrong := append([]*big.Int(nil), exp...)
					m := q
					if lastMod {
						m = v.b
					}
					wrong[len(wrong)-1] = new(big.Int).Mod(new(big.Int).Add(exp[len(exp)-1], one), m)
					if e := prove(mkAssign(v.a, v.b, sel, wrong, nat)); e == nil {
						bad("a result off by one is accepted by the compiled circuit: %s", desc)
					}
				}
				// the wrap attack on the deferred multiplication check (single multiplication of two witnesses)
				if ok && len(b.Prog) == 1 && (b.Prog[0].Op == "Mul" || b.Prog[0].Op == "Sqr") && vi%5 == 0 && sel == sels[0] {
					wit := true
					for _, r := range b.Prog[0].A {
						if r.K != "a" && r.K != "b" {
							wit = false
						}
					}
					var mh solver.Hint
					for _, h := range emulated.GetHints() {
						if strings.HasSuffix(solver.GetHintName(h), "emulated.mulHint") {
							mh = h
						}
					}
					if wit && mh != nil {
						used := false
						wrong := []*big.Int{new(big.Int).Mod(new(big.Int).Add(exp[0], one), q)}
						e := prove(mkAssign(v.a, v.b, sel, wrong, nat), solver.OverrideHint(solver.GetHintID(mh), emuWrapHint(mh, &used)))
						res.Tampered++
						if used && e == nil {
							bad("dishonest multiplication hint (remainder+1, quotient and carries solved modulo the native field) is accepted: %s", desc)
						}
					}
				}
				// the non-canonical remainder adversary: with it, a flipped zero test / the bits of r+q must still be rejected
				lastOp := b.Prog[len(b.Prog)-1].Op
				if ok && !toy && (lastOp == "IsZeroSel" || lastOp == "CanonBits") && vi%5 == 0 && sel == sels[0] {
					var mh solver.Hint
					for _, h := range emulated.GetHints() {
						if strings.HasSuffix(solver.GetHintName(h), "emulated.mulHint") {
							mh = h
						}
					}
					var flips [][2][]*big.Int // expectations that must not be accepted
					last := len(exp) - 1
					if lastOp == "IsZeroSel" {
						for _, d := range []int64{1, -1} {
							w := append([]*big.Int(nil), exp...)
							w[last] = new(big.Int).Mod(new(big.Int).Add(exp[last], big.NewInt(d)), q)
							flips = append(flips, [2][]*big.Int{w, nat})
						}
					} else if rq := new(big.Int).Add(exp[last], q); rq.BitLen() <= int(t.BitsPerLimb()*t.NbLimbs()) {
						wn := append([]*big.Int(nil), nat...)
						wn[last] = new(big.Int).And(rq, big.NewInt(255))
						if wn[last].Cmp(nat[last]) != 0 {
							flips = append(flips, [2][]*big.Int{exp, wn})
						}
					}
					if mh != nil && len(flips) > 0 {
						n, used := 0, false
						_ = prove(as, solver.OverrideHint(solver.GetHintID(mh), emuNonCanonHint(mh, -1, &n, &used)))
						total := n
						for target := 0; target < total && target < 12; target++ {
							for _, fl := range flips {
								n, used = 0, false
								e := prove(mkAssign(v.a, v.b, sel, fl[0], fl[1]), solver.OverrideHint(solver.GetHintID(mh), emuNonCanonHint(mh, target, &n, &used)))
								res.Tampered++
								if used && e == nil {
									bad("non-canonical remainder from the multiplication hint (call %d) makes a wrong %s outcome provable: %s", target, lastOp, desc)
								}
							}
						}
					}
				}
				doTamper := tamper && ok && !(hasMod && pow2(v.b))
				if toy {
					doTamper = doTamper && vi%12 == 7
				} else {
					doTamper = doTamper && vi == 5 && sel == sels[0]
				}
				if doTamper {
					// which hints does this run call?
					hints := emulated.GetHints()
					called := make([]bool, len(hints))
					var opts []solver.Option
					for hi, h := range hints {
						hi, h := hi, h
						opts = append(opts, solver.OverrideHint(solver.GetHintID(h), func(m *big.Int, in, out []*big.Int) error {
							called[hi] = len(out) > 0
							return h(m, in, out)
						}))
					}
					if e := prove(as, opts...); e != nil {
						bad("INFRA counting hint calls changed the outcome: %s: %v", desc, e)
						return res
					}
					for hi, h := range hints {
						if !called[hi] {
							continue
						}
						h := h
						for _, pos := range []int{0, -1} {
							pos := pos
							opt := solver.OverrideHint(solver.GetHintID(h), func(m *big.Int, in, out []*big.Int) error {
								if err := h(m, in, out); err != nil {
									return err
								}
								if len(out) == 0 {
									return nil
								}
								j := pos
								if j < 0 {
									j = len(out) - 1
								}
								out[j].Add(out[j], one)
								return nil
							})
							res.Tampered++
							if e := prove(as, opt); e == nil {
								bad("hint %d (%s) output %d perturbed by one and the circuit is still satisfied: %s", hi, solver.GetHintName(h), pos, desc)
							}
						}
					}
				}
			}
		}
	}
	return res
}

// emuWrapHint is a dishonest multiplication hint: it returns the remainder plus one, the quotient solved modulo the
// NATIVE field and carries computed in the native field, so that a(X)b(X) = r(X) + k(X)p(X) + (2^w - X)c(X) holds as
// polynomials over the native field although a*b != r + k*p over the integers.  Calls made for equality assertions and
// reductions (second operand on one limb) stay honest.
func emuWrapHint(honest solver.Hint, used *bool) solver.Hint {
	return func(field *big.Int, inputs, outputs []*big.Int) error {
		nbBits := uint(inputs[0].Int64())
		nbLimbs := int(inputs[1].Int64())
		nbALen := int(inputs[2].Int64())
		nbQuoLen := int(inputs[3].Int64())
		nbBLen := len(inputs) - 4 - nbLimbs - nbALen
		if nbBLen <= 1 || nbQuoLen == 0 {
			return honest(field, inputs, outputs)
		}
		recompose := func(l []*big.Int) *big.Int {
			r := new(big.Int)
			for i := len(l) - 1; i >= 0; i-- {
				r.Lsh(r, nbBits).Add(r, l[i])
			}
			return r
		}
		decompose := func(v *big.Int, l []*big.Int) bool {
			x := new(big.Int).Set(v)
			mask := new(big.Int).Sub(new(big.Int).Lsh(big.NewInt(1), nbBits), big.NewInt(1))
			for i := range l {
				l[i].And(x, mask)
				x.Rsh(x, nbBits)
			}
			return x.Sign() == 0
		}
		limbMul := func(x, y []*big.Int) []*big.Int {
			if len(x) == 0 || len(y) == 0 {
				return nil
			}
			r := make([]*big.Int, len(x)+len(y)-1)
			for i := range r {
				r[i] = new(big.Int)
			}
			for i := range x {
				for j := range y {
					r[i+j].Add(r[i+j], new(big.Int).Mul(x[i], y[j]))
				}
			}
			return r
		}
		ptr := 4
		plimbs := inputs[ptr : ptr+nbLimbs]
		ptr += nbLimbs
		alimbs := inputs[ptr : ptr+nbALen]
		ptr += nbALen
		blimbs := inputs[ptr : ptr+nbBLen]
		quo := outputs[0:nbQuoLen]
		rem := outputs[nbQuoLen : nbQuoLen+nbLimbs]
		carries := outputs[nbQuoLen+nbLimbs:]
		p, a, b := recompose(plimbs), recompose(alimbs), recompose(blimbs)
		ab := new(big.Int).Mul(a, b)
		r := new(big.Int).Mod(ab, p)
		r.Add(r, big.NewInt(1))
		k := new(big.Int).Sub(ab, r)
		k.Mod(k, field)
		pinv := new(big.Int).ModInverse(new(big.Int).Mod(p, field), field)
		if pinv == nil {
			return honest(field, inputs, outputs)
		}
		k.Mul(k, pinv).Mod(k, field)
		if !decompose(k, quo) || !decompose(r, rem) {
			return honest(field, inputs, outputs) // does not fit the limbs: no attack for these parameters
		}
		lhs := limbMul(alimbs, blimbs)
		rhs := limbMul(quo, plimbs)
		for i := range rem {
			if i < len(rhs) {
				rhs[i].Add(rhs[i], rem[i])
			} else {
				rhs = append(rhs, new(big.Int).Set(rem[i]))
			}
		}
		tinv := new(big.Int).Lsh(big.NewInt(1), nbBits)
		tinv.ModInverse(tinv, field)
		carry := new(big.Int)
		for i := range carries {
			if i < len(lhs) {
				carry.Add(carry, lhs[i])
			}
			if i < len(rhs) {
				carry.Sub(carry, rhs[i])
			}
			carry.Mul(carry, tinv).Mod(carry, field)
			carries[i].Set(carry)
		}
		*used = true
		return nil
	}
}

// emuNonCanonHint is a dishonest multiplication hint for one chosen call (target): it returns the remainder plus the
// modulus and the quotient minus one (carries recomputed): congruent, but not the canonical representative. Arithmetic
// stays correct; whatever the library documents as canonical (zero tests, canonical bits) must not follow it.
func emuNonCanonHint(honest solver.Hint, target int, calls *int, used *bool) solver.Hint {
	return func(field *big.Int, inputs, outputs []*big.Int) error {
		if err := honest(field, inputs, outputs); err != nil {
			return err
		}
		me := *calls
		*calls++
		if me != target {
			return nil
		}
		nbBits := uint(inputs[0].Int64())
		nbLimbs := int(inputs[1].Int64())
		nbALen := int(inputs[2].Int64())
		nbQuoLen := int(inputs[3].Int64())
		nbBLen := len(inputs) - 4 - nbLimbs - nbALen
		recompose := func(l []*big.Int) *big.Int {
			r := new(big.Int)
			for i := len(l) - 1; i >= 0; i-- {
				r.Lsh(r, nbBits).Add(r, l[i])
			}
			return r
		}
		decompose := func(v *big.Int, l []*big.Int) bool {
			x := new(big.Int).Set(v)
			mask := new(big.Int).Sub(new(big.Int).Lsh(big.NewInt(1), nbBits), big.NewInt(1))
			for i := range l {
				l[i].And(x, mask)
				x.Rsh(x, nbBits)
			}
			return x.Sign() == 0
		}
		limbMul := func(x, y []*big.Int) []*big.Int {
			if len(x) == 0 || len(y) == 0 {
				return nil
			}
			r := make([]*big.Int, len(x)+len(y)-1)
			for i := range r {
				r[i] = new(big.Int)
			}
			for i := range x {
				for j := range y {
					r[i+j].Add(r[i+j], new(big.Int).Mul(x[i], y[j]))
				}
			}
			return r
		}
		plimbs := inputs[4 : 4+nbLimbs]
		alimbs := inputs[4+nbLimbs : 4+nbLimbs+nbALen]
		blimbs := inputs[4+nbLimbs+nbALen : 4+nbLimbs+nbALen+nbBLen]
		quo := outputs[0:nbQuoLen]
		rem := outputs[nbQuoLen : nbQuoLen+nbLimbs]
		carries := outputs[nbQuoLen+nbLimbs:]
		k, r, p := recompose(quo), recompose(rem), recompose(plimbs)
		if k.Sign() == 0 {
			return nil
		}
		r2 := new(big.Int).Add(r, p)
		k2 := new(big.Int).Sub(k, big.NewInt(1))
		sq := make([]*big.Int, len(quo))
		sr := make([]*big.Int, len(rem))
		for i := range sq {
			sq[i] = new(big.Int)
		}
		for i := range sr {
			sr[i] = new(big.Int)
		}
		if !decompose(k2, sq) || !decompose(r2, sr) {
			return nil
		}
		for i := range sq {
			quo[i].Set(sq[i])
		}
		for i := range sr {
			rem[i].Set(sr[i])
		}
		lhs := limbMul(alimbs, blimbs)
		rhs := limbMul(quo, plimbs)
		for i := range rem {
			if i < len(rhs) {
				rhs[i].Add(rhs[i], rem[i])
			} else {
				rhs = append(rhs, new(big.Int).Set(rem[i]))
			}
		}
		carry := new(big.Int)
		for i := range carries {
			if i < len(lhs) {
				carry.Add(carry, lhs[i])
			}
			if i < len(rhs) {
				carry.Sub(carry, rhs[i])
			}
			carry.Rsh(carry, nbBits)
			carries[i].Set(carry)
		}
		*used = true
		return nil
	}
}

// EmuReplay replays EmulatedOps.tla programs on several emulated parameter sets.
func EmuReplay(args common.Args, out *common.Out) error {
	behs, err := common.ReadNDJSON[EmuBeh](args.Get("in", ""))
	if err != nil {
		return err
	}
	native := CurveIDs[args.Get("curve", "bn254")]
	full := args.Get("full", "1") == "1"
	sets := strings.Split(args.Get("params", "mod13,secp256k1"), ",")
	common.ParallelFor(len(behs), args.Int("par", 16), func(i int) {
		b := &behs[i]
		for _, s := range sets {
			switch s {
			case "mod13":
				out.Emit(emuRun[Mod13](b, s, native, full, true))
			case "mod65521":
				out.Emit(emuRun[Mod65521](b, s, native, full, true))
			case "secp256k1":
				out.Emit(emuRun[emulated.Secp256k1Fp](b, s, native, full, true))
			case "bn254fp":
				out.Emit(emuRun[emulated.BN254Fp](b, s, native, full, false))
			case "goldilocks":
				out.Emit(emuRun[emulated.Goldilocks](b, s, native, full, false))
			case "p384":
				out.Emit(emuRun[emulated.P384Fp](b, s, native, full, false))
			case "bls12381fr":
				out.Emit(emuRun[emulated.BLS12381Fr](b, s, native, full, false))
			}
		}
	})
	return nil
}
