package generic

import (
	"fmt"
	"math/big"
	"strings"
	"sync"

	"github.com/consensys/gnark-crypto/ecc"
	"github.com/consensys/gnark/backend"
	"github.com/consensys/gnark/backend/groth16"
	"github.com/consensys/gnark/backend/plonk"
	"github.com/consensys/gnark/constraint"
	"github.com/consensys/gnark/constraint/solver"
	"github.com/consensys/gnark/frontend"
	"github.com/consensys/gnark/frontend/cs/r1cs"
	"github.com/consensys/gnark/frontend/cs/scs"
	"github.com/consensys/gnark/std/math/bitslice"
	"github.com/consensys/gnark/std/math/cmp"
	"github.com/consensys/gnark/std/selector"
	"github.com/consensys/gnark/test"
	"github.com/consensys/gnark/test/unsafekzg"

	"verifharness/common"
)

// WideCase is one case emitted by specs/GadgetsWide.tla.
type WideCase struct {
	ID     int    `json:"id"`
	G      string `json:"g"`
	M      string `json:"m"`
	U      int    `json:"U"`
	Split  int    `json:"split"`
	Digits int    `json:"digits"`
	N      int    `json:"n"`
	Right  bool   `json:"right"`
	In     []int  `json:"in"`
	Exp    string `json:"exp"`
	Out    []int  `json:"out"`
}

func (c *WideCase) key() string {
	return fmt.Sprintf("%s|%s|%d|%d|%d|%d|%v", c.G, c.M, c.U, c.Split, c.Digits, c.N, c.Right)
}

func (c *WideCase) nOut() int {
	switch c.G {
	case "cmp":
		if c.M == "AssertIsLessEq" || c.M == "AssertIsLess" {
			return 0
		}
		return 1
	case "bitpart":
		return 2
	case "selpart", "slice":
		return c.N
	case "mux1":
		return 1
	}
	return 0
}

var wideInputVals = []int{7, 11, 13, 17}

type WideCircuit struct {
	In       []frontend.Variable
	E        []frontend.Variable `gnark:",public"`
	One      frontend.Variable   `gnark:",public"`
	Case     WideCase            `gnark:"-"`
	CheckOut bool                `gnark:"-"`
}

func (c *WideCircuit) Define(api frontend.API) error {
	api.AssertIsEqual(c.One, 1)
	var outs []frontend.Variable
	k := &c.Case
	switch k.G {
	case "cmp":
		bc := cmp.NewBoundedComparator(api, big.NewInt(int64(k.U)), false)
		switch k.M {
		case "AssertIsLessEq":
			bc.AssertIsLessEq(c.In[0], c.In[1])
		case "AssertIsLess":
			bc.AssertIsLess(c.In[0], c.In[1])
		case "IsLess":
			outs = append(outs, bc.IsLess(c.In[0], c.In[1]))
		case "IsLessEq":
			outs = append(outs, bc.IsLessEq(c.In[0], c.In[1]))
		case "Min":
			outs = append(outs, bc.Min(c.In[0], c.In[1]))
		default:
			return fmt.Errorf("unknown comparator method %q", k.M)
		}
	case "bitpart":
		lo, hi := bitslice.Partition(api, c.In[0], uint(k.Split), bitslice.WithNbDigits(k.Digits))
		outs = append(outs, lo, hi)
	case "selpart":
		// the data inputs are variables too (In[1..n]) so that nothing folds
		outs = selector.Partition(api, c.In[0], k.Right, c.In[1:1+k.N])
	case "slice":
		outs = selector.Slice(api, c.In[0], c.In[1], c.In[2:2+k.N])
	case "mux1":
		outs = append(outs, selector.Mux(api, c.In[0], c.In[1]))
	default:
		return fmt.Errorf("unknown gadget %q", k.G)
	}
	if len(outs) != len(c.E) {
		return fmt.Errorf("gadget %s returned %d outputs, %d expected", k.G, len(outs), len(c.E))
	}
	if c.CheckOut {
		for i := range outs {
			api.AssertIsEqual(outs[i], c.E[i])
		}
	}
	return nil
}

func (c *WideCase) nIn() int {
	switch c.G {
	case "selpart":
		return 1 + c.N
	case "slice":
		return 2 + c.N
	case "mux1":
		return 2
	}
	return len(c.In)
}

type wideKeys struct {
	once    sync.Once
	err     error
	ccs     constraint.ConstraintSystem
	pk      groth16.ProvingKey
	vk      groth16.VerifyingKey
	plpk    plonk.ProvingKey
	plvk    plonk.VerifyingKey
	circuit *WideCircuit
}

type WideRes struct {
	ID       int      `json:"id"`
	Runs     int      `json:"runs"`
	Tampered int      `json:"tampered"`
	Problems []string `json:"problems"`
}

func wideHints() []solver.Hint {
	var hs []solver.Hint
	for _, h := range solver.GetRegisteredHints() {
		n := solver.GetHintName(h)
		for _, p := range []string{"std/math/cmp.", "std/selector.", "std/math/bitslice.", "std/math/bits.", "std/rangecheck.", "std/internal/logderivarg."} {
			if strings.Contains(n, p) {
				hs = append(hs, h)
			}
		}
	}
	return hs
}

// WideReplay replays GadgetsWide.tla cases on the real gadgets through the test engine and the real provers.
func WideReplay(args common.Args, out *common.Out) error {
	cases, err := common.ReadNDJSON[WideCase](args.Get("in", ""))
	if err != nil {
		return err
	}
	native := CurveIDs[args.Get("curve", "bn254")]
	mod := native.ScalarField()
	var mu sync.Mutex
	cache := map[string]*wideKeys{}
	get := func(c *WideCase, check, usePlonk bool) *wideKeys {
		k := fmt.Sprintf("%s|%v|%v", c.key(), check, usePlonk)
		mu.Lock()
		w, ok := cache[k]
		if !ok {
			w = &wideKeys{}
			cache[k] = w
		}
		mu.Unlock()
		w.once.Do(func() {
			w.circuit = &WideCircuit{In: make([]frontend.Variable, c.nIn()), E: make([]frontend.Variable, c.nOut()), Case: *c, CheckOut: check}
			pan, msg := common.Safely(func() {
				if usePlonk {
					w.ccs, w.err = frontend.Compile(mod, scs.NewBuilder, w.circuit)
					if w.err == nil {
						srs, srsL, e := unsafekzg.NewSRS(w.ccs, unsafekzg.WithToxicValue(big.NewInt(4242)))
						if e != nil {
							w.err = e
							return
						}
						w.plpk, w.plvk, w.err = plonk.Setup(w.ccs, srs, srsL)
					}
				} else {
					w.ccs, w.err = frontend.Compile(mod, r1cs.NewBuilder, w.circuit)
					if w.err == nil {
						w.pk, w.vk, w.err = groth16.Setup(w.ccs)
					}
				}
			})
			if pan {
				w.err = fmt.Errorf("panic: %s", msg)
			}
		})
		return w
	}
	fe := func(x int) *big.Int {
		v := big.NewInt(int64(x))
		return v.Mod(v, mod)
	}
	hints := wideHints()
	common.ParallelFor(len(cases), args.Int("par", 16), func(i int) {
		c := &cases[i]
		res := WideRes{ID: c.ID}
		bad := func(f string, a ...any) {
			if len(res.Problems) < 6 {
				res.Problems = append(res.Problems, fmt.Sprintf(f, a...))
			}
		}
		defer func() { out.Emit(res) }()
		usePlonk := c.ID%2 == 1
		assign := func(outs []*big.Int) *WideCircuit {
			as := &WideCircuit{In: make([]frontend.Variable, c.nIn()), E: make([]frontend.Variable, c.nOut()), One: 1}
			for j, x := range c.In {
				as.In[j] = fe(x)
			}
			for j := len(c.In); j < len(as.In); j++ {
				as.In[j] = wideInputVals[j-len(c.In)]
			}
			for j := range as.E {
				as.E[j] = 0
				if j < len(outs) {
					as.E[j] = outs[j]
				}
			}
			return as
		}
		prove := func(w *wideKeys, as *WideCircuit, opts ...solver.Option) error {
			wit, err := frontend.NewWitness(as, mod)
			if err != nil {
				return fmt.Errorf("INFRA witness: %w", err)
			}
			pub, _ := wit.Public()
			var perr error
			pan, msg := common.Safely(func() {
				if usePlonk {
					p, e := plonk.Prove(w.ccs, w.plpk, wit, backend.WithSolverOptions(opts...))
					if e != nil {
						perr = e
						return
					}
					perr = plonk.Verify(p, w.plvk, pub)
				} else {
					p, e := groth16.Prove(w.ccs, w.pk, wit, backend.WithSolverOptions(opts...))
					if e != nil {
						perr = e
						return
					}
					perr = groth16.Verify(p, w.vk, pub)
				}
			})
			if pan {
				return fmt.Errorf("panic: %s", msg)
			}
			res.Runs++
			return perr
		}
		engine := func(w *wideKeys, as *WideCircuit) error {
			var terr error
			// the engine writes into the circuit it is given: a private copy per run
			circ := &WideCircuit{In: make([]frontend.Variable, c.nIn()), E: make([]frontend.Variable, c.nOut()), Case: *c, CheckOut: w.circuit.CheckOut}
			pan, msg := common.Safely(func() { terr = test.IsSolved(circ, as, mod) })
			if pan {
				return fmt.Errorf("panic: %s", msg)
			}
			res.Runs++
			return terr
		}
		exp := make([]*big.Int, len(c.Out))
		for j, x := range c.Out {
			exp[j] = fe(x)
		}
		free, checked := get(c, false, usePlonk), get(c, true, usePlonk)
		if free.err != nil || checked.err != nil {
			bad("compiling the gadget fails: %v %v", free.err, checked.err)
			return
		}
		backendName := map[bool]string{false: "groth16", true: "plonk"}[usePlonk]
		switch c.Exp {
		case "ok":
			as := assign(exp)
			if e := engine(checked, as); e != nil {
				bad("in-domain case rejected or result wrong (test engine): %v", firstLine(e.Error()))
			}
			if e := prove(checked, as); e != nil {
				if strings.HasPrefix(e.Error(), "INFRA") {
					bad("%v", e)
					return
				}
				bad("in-domain case rejected or result wrong (%s): %v", backendName, firstLine(e.Error()))
				return
			}
			for j := range exp {
				wrong := append([]*big.Int(nil), exp...)
				wrong[j] = new(big.Int).Add(exp[j], big.NewInt(1))
				if e := prove(checked, assign(wrong)); e == nil {
					bad("output %d off by one is accepted (%s)", j, backendName)
				}
			}
			// dishonest hints
			called := make([]int, len(hints))
			var opts []solver.Option
			for hi, h := range hints {
				hi, h := hi, h
				opts = append(opts, solver.OverrideHint(solver.GetHintID(h), func(m *big.Int, in, o []*big.Int) error {
					if len(o) > called[hi] {
						called[hi] = len(o)
					}
					return h(m, in, o)
				}))
			}
			if e := prove(checked, as, opts...); e != nil {
				bad("INFRA counting hint calls changed the outcome: %v", e)
				return
			}
			for hi, h := range hints {
				h := h
				for j := 0; j < called[hi]; j++ {
					if j >= 4 && j < called[hi]-4 {
						continue
					}
					j := j
					opt := solver.OverrideHint(solver.GetHintID(h), func(m *big.Int, in, o []*big.Int) error {
						if err := h(m, in, o); err != nil {
							return err
						}
						if j < len(o) {
							o[j].Add(o[j], big.NewInt(1))
						}
						return nil
					})
					res.Tampered++
					// the dishonest prover does not care about the declared outputs: both circuits must reject
					if e := prove(free, as, opt); e == nil {
						bad("hint %s output %d perturbed by one and the gadget's constraints are still satisfied (%s)", shortHint(h), j, backendName)
					}
				}
			}
		case "fail":
			as := assign(nil)
			if e := engine(free, as); e == nil {
				bad("out-of-domain case accepted (test engine)")
			}
			if e := prove(free, as); e == nil {
				bad("out-of-domain case accepted (%s)", backendName)
			} else if strings.HasPrefix(e.Error(), "INFRA") {
				bad("%v", e)
			}
		case "either":
			as := assign(exp)
			if e := prove(free, as); e == nil {
				if e2 := prove(checked, as); e2 != nil {
					bad("outside the bound the gadget accepts a wrong result (%s): %v", backendName, firstLine(e2.Error()))
				}
			}
		default:
			bad("INFRA unknown verdict %q", c.Exp)
		}
	})
	return nil
}

func shortHint(h solver.Hint) string {
	n := solver.GetHintName(h)
	if i := strings.LastIndex(n, "/"); i >= 0 {
		n = n[i+1:]
	}
	return n
}

var _ = ecc.BN254
