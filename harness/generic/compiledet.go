package generic

import (
	"fmt"
	"strings"
	"sync"

	"verifharness/circuits"
	"verifharness/common"
)

// CompileDetRec is one compilation event of the C11 recorder.
type CompileDetRec struct {
	Event   string `json:"event"` // "compile"
	Circuit string `json:"circuit"`
	Builder string `json:"builder"`
	Field   string `json:"field"`
	Mode    string `json:"mode"` // seq | par | interleaved
	Run     int    `json:"run"`
	Digest  string `json:"digest"`
	Size    int    `json:"size"`
	NbCons  int    `json:"nb_constraints"`
	NbInt   int    `json:"nb_internal"`
	Err     string `json:"err,omitempty"`
}

func compileOnce(circuit, builder, field string) CompileDetRec {
	r := CompileDetRec{Event: "compile", Circuit: circuit, Builder: builder, Field: field}
	var cs AnyCS
	var err error
	pan, msg := common.Safely(func() { cs, err = CompileAny(field, builder, circuits.NewCorpus(circuit)) })
	if pan {
		r.Err = "panic: " + msg
		return r
	}
	if err != nil {
		r.Err = err.Error()
		return r
	}
	b, err := Serialize(cs)
	if err != nil {
		r.Err = err.Error()
		return r
	}
	r.Digest, r.Size, r.NbCons, r.NbInt = Digest(b), len(b), cs.GetNbConstraints(), cs.GetNbInternalVariables()
	return r
}

// CompileDet compiles every corpus circuit repeatedly: sequentially, in parallel goroutines and
// interleaved with compilations of the other circuits, and records the digest of the serialized system.
func CompileDet(args common.Args, out *common.Out) error {
	k := args.Int("k", 8)
	par := args.Int("par", 8)
	fields := strings.Split(args.Get("field", "bn254"), ",") // compiled in this order, in this one process
	kMany := args.Int("kmany", 200)
	only := args.Get("circuit", "")
	type job struct{ circuit, builder, field string }
	var jobs []job
	for _, f := range fields {
		for _, ci := range circuits.CorpusList {
			if ci.Gkr || (only != "" && ci.Name != only) {
				continue
			}
			if _, small := SmallFields[f]; small && !ci.Small {
				continue
			}
			for _, b := range []string{"r1cs", "scs"} {
				if (b == "r1cs" && ci.SCSOnly) || (b == "scs" && ci.R1CSOnly) {
					continue
				}
				jobs = append(jobs, job{ci.Name, b, f})
			}
		}
	}
	// sequential
	for _, j := range jobs {
		kk := k
		if circuits.CorpusByName(j.circuit).Many {
			kk = kMany
		}
		for run := 0; run < kk; run++ {
			r := compileOnce(j.circuit, j.builder, j.field)
			r.Mode, r.Run = "seq", run
			out.Emit(r)
		}
	}
	// parallel: same circuit from many goroutines at once
	for _, j := range jobs {
		var wg sync.WaitGroup
		pp := par
		if circuits.CorpusByName(j.circuit).Many {
			pp = kMany / 2
		}
		for run := 0; run < pp; run++ {
			wg.Add(1)
			go func(run int) {
				defer wg.Done()
				r := compileOnce(j.circuit, j.builder, j.field)
				r.Mode, r.Run = "par", run
				out.Emit(r)
			}(run)
		}
		wg.Wait()
	}
	// interleaved: all circuits at once, several rounds
	for round := 0; round < 2; round++ {
		var wg sync.WaitGroup
		for _, j := range jobs {
			wg.Add(1)
			go func(j job) {
				defer wg.Done()
				r := compileOnce(j.circuit, j.builder, j.field)
				r.Mode, r.Run = "interleaved", round
				out.Emit(r)
			}(j)
		}
		wg.Wait()
	}
	if len(jobs) == 0 {
		return fmt.Errorf("no job")
	}
	return nil
}
