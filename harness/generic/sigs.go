package generic

// Signature gadgets (C16): the edit classes of specs/ToySig.tla applied to genuine ECDSA / EdDSA signatures; each edited
// signature is judged by the native library and by the in-circuit verifier (test engine).

import (
	cryptoecdsa "crypto/ecdsa"
	"crypto/elliptic"
	"crypto/sha256"
	"fmt"
	"math/big"
	mrand "math/rand"

	"github.com/consensys/gnark-crypto/ecc"
	bn254fr "github.com/consensys/gnark-crypto/ecc/bn254/fr"
	bn254te "github.com/consensys/gnark-crypto/ecc/bn254/twistededwards"
	secpecdsa "github.com/consensys/gnark-crypto/ecc/secp256k1/ecdsa"
	secpfr "github.com/consensys/gnark-crypto/ecc/secp256k1/fr"
	tedwards "github.com/consensys/gnark-crypto/ecc/twistededwards"
	gchash "github.com/consensys/gnark-crypto/hash"
	gceddsa "github.com/consensys/gnark-crypto/signature/eddsa"
	"github.com/consensys/gnark/frontend"
	"github.com/consensys/gnark/std/algebra/emulated/sw_emulated"
	"github.com/consensys/gnark/std/algebra/native/twistededwards"
	"github.com/consensys/gnark/std/hash/mimc"
	"github.com/consensys/gnark/std/math/emulated"
	stdecdsa "github.com/consensys/gnark/std/signature/ecdsa"
	stdeddsa "github.com/consensys/gnark/std/signature/eddsa"
	"github.com/consensys/gnark/test"

	"verifharness/common"
)

type SigCase struct {
	ID     int    `json:"id"`
	Scheme string `json:"scheme"` // ecdsa | eddsa
	Family string `json:"family"` // secp256k1 | p256 | p384 | bn254 | bls12-381 | bls12-377 | bw6-761
	Class  string `json:"class"`
	Expect string `json:"expect"`
	Seed   int64  `json:"seed"`
}

type SigRes struct {
	ID      int    `json:"id"`
	Native  string `json:"native"`  // accept | reject | inexpressible
	Circuit string `json:"circuit"` // accept | reject | inexpressible
	Err     string `json:"err,omitempty"`
	Note    string `json:"note,omitempty"`
}

type ecdsaCircuit[T, S emulated.FieldParams] struct {
	Sig stdecdsa.Signature[S]
	Msg emulated.Element[S]
	Pub stdecdsa.PublicKey[T, S]
}

func (c *ecdsaCircuit[T, S]) Define(api frontend.API) error {
	c.Pub.Verify(api, sw_emulated.GetCurveParams[T](), &c.Msg, &c.Sig)
	return nil
}

type detRand struct{ r *mrand.Rand }

func (d detRand) Read(p []byte) (int, error) { return d.r.Read(p) }

// ecdsaValues: genuine (m, r, s, qx, qy) and a second key, for the family
type ecdsaVals struct {
	m, r, s, qx, qy, q2x, q2y, n *big.Int
	native                       func(m, r, s, qx, qy *big.Int) bool
}

func ecdsaGenuine(fam string, seed int64) (*ecdsaVals, error) {
	rnd := detRand{mrand.New(mrand.NewSource(seed))}
	msg := []byte(fmt.Sprintf("C16 signature replay %d", seed))
	h := sha256.Sum256(msg)
	v := &ecdsaVals{}
	switch fam {
	case "secp256k1":
		k1, err := secpecdsa.GenerateKey(rnd)
		if err != nil {
			return nil, err
		}
		k2, err := secpecdsa.GenerateKey(rnd)
		if err != nil {
			return nil, err
		}
		sigBin, err := k1.Sign(h[:], nil)
		if err != nil {
			return nil, err
		}
		var sig secpecdsa.Signature
		if _, err := sig.SetBytes(sigBin); err != nil {
			return nil, err
		}
		v.r, v.s = new(big.Int).SetBytes(sig.R[:32]), new(big.Int).SetBytes(sig.S[:32])
		v.m = secpecdsa.HashToInt(h[:])
		v.qx, v.qy = k1.PublicKey.A.X.BigInt(new(big.Int)), k1.PublicKey.A.Y.BigInt(new(big.Int))
		v.q2x, v.q2y = k2.PublicKey.A.X.BigInt(new(big.Int)), k2.PublicKey.A.Y.BigInt(new(big.Int))
		v.n = secpfr.Modulus()
		v.native = func(m, r, s, qx, qy *big.Int) bool {
			var pk secpecdsa.PublicKey
			pk.A.X.SetBigInt(qx)
			pk.A.Y.SetBigInt(qy)
			if r.BitLen() > 256 || s.BitLen() > 256 || m.BitLen() > 256 {
				return false
			}
			buf := make([]byte, 64)
			r.FillBytes(buf[:32])
			s.FillBytes(buf[32:])
			mb := make([]byte, 32)
			m.FillBytes(mb)
			ok, err := pk.Verify(buf, mb, nil)
			return ok && err == nil
		}
	case "p256", "p384":
		curve := elliptic.P256()
		if fam == "p384" {
			curve = elliptic.P384()
		}
		k1, err := cryptoecdsa.GenerateKey(curve, rnd)
		if err != nil {
			return nil, err
		}
		k2, err := cryptoecdsa.GenerateKey(curve, rnd)
		if err != nil {
			return nil, err
		}
		r, s, err := cryptoecdsa.Sign(rnd, k1, h[:])
		if err != nil {
			return nil, err
		}
		v.r, v.s, v.m = r, s, new(big.Int).SetBytes(h[:])
		v.qx, v.qy, v.q2x, v.q2y = k1.X, k1.Y, k2.X, k2.Y
		v.n = curve.Params().N
		v.native = func(m, r, s, qx, qy *big.Int) bool {
			if m.BitLen() > 256 {
				return false
			}
			mb := make([]byte, 32)
			m.FillBytes(mb)
			return cryptoecdsa.Verify(&cryptoecdsa.PublicKey{Curve: curve, X: qx, Y: qy}, mb, r, s)
		}
	default:
		return nil, fmt.Errorf("unknown ecdsa family %s", fam)
	}
	return v, nil
}

func ecdsaCircuitRun[T, S emulated.FieldParams](m, r, s, qx, qy *big.Int) error {
	circuit := ecdsaCircuit[T, S]{}
	w := ecdsaCircuit[T, S]{
		Sig: stdecdsa.Signature[S]{R: emulated.ValueOf[S](r), S: emulated.ValueOf[S](s)},
		Msg: emulated.ValueOf[S](m),
		Pub: stdecdsa.PublicKey[T, S]{X: emulated.ValueOf[T](qx), Y: emulated.ValueOf[T](qy)},
	}
	return test.IsSolved(&circuit, &w, ecc.BN254.ScalarField())
}

func ecdsaRun(c *SigCase, res *SigRes) {
	v, err := ecdsaGenuine(c.Family, c.Seed)
	if err != nil {
		res.Err = "INFRA " + err.Error()
		return
	}
	one := big.NewInt(1)
	m, r, s, qx, qy := new(big.Int).Set(v.m), new(big.Int).Set(v.r), new(big.Int).Set(v.s), v.qx, v.qy
	switch c.Class {
	case "genuine":
	case "sNeg":
		s.Sub(v.n, s)
	case "rZero":
		r.SetInt64(0)
	case "sZero":
		s.SetInt64(0)
	case "rInc":
		r.Add(r, one)
	case "sInc":
		s.Add(s, one)
	case "mInc":
		m.Add(m, one)
	case "otherKey":
		qx, qy = v.q2x, v.q2y
	case "swapRS":
		r, s = s, r
	case "rPlusN", "sPlusN", "mPlusN":
		// an emulated element given as a witness is reduced by ValueOf; 256-bit encodings cannot hold r + n
		res.Native, res.Circuit, res.Note = "inexpressible", "inexpressible", "non-canonical values are not expressible as witness of the gadget"
		return
	default:
		res.Err = "INFRA unknown class " + c.Class
		return
	}
	if r.Cmp(v.n) >= 0 || s.Cmp(v.n) >= 0 {
		res.Native, res.Circuit, res.Note = "inexpressible", "inexpressible", "edited value reached the group order"
		return
	}
	if v.native(m, r, s, qx, qy) {
		res.Native = "accept"
	} else {
		res.Native = "reject"
	}
	var cerr error
	pan, msg := common.Safely(func() {
		switch c.Family {
		case "secp256k1":
			cerr = ecdsaCircuitRun[emulated.Secp256k1Fp, emulated.Secp256k1Fr](m, r, s, qx, qy)
		case "p256":
			cerr = ecdsaCircuitRun[emulated.P256Fp, emulated.P256Fr](m, r, s, qx, qy)
		case "p384":
			cerr = ecdsaCircuitRun[emulated.P384Fp, emulated.P384Fr](m, r, s, qx, qy)
		}
	})
	switch {
	case pan:
		res.Circuit, res.Err = "reject", "panic: "+msg
	case cerr != nil:
		res.Circuit, res.Err = "reject", firstLineOf(cerr.Error())
	default:
		res.Circuit = "accept"
	}
}

func firstLineOf(s string) string {
	for i := range s {
		if s[i] == '\n' {
			return s[:i]
		}
	}
	if len(s) > 300 {
		return s[:300]
	}
	return s
}

type eddsaCircuit struct {
	curveID   tedwards.ID
	PublicKey stdeddsa.PublicKey
	Signature stdeddsa.Signature
	Message   frontend.Variable
}

func (c *eddsaCircuit) Define(api frontend.API) error {
	curve, err := twistededwards.NewEdCurve(api, c.curveID)
	if err != nil {
		return err
	}
	h, err := mimc.NewMiMC(api)
	if err != nil {
		return err
	}
	return stdeddsa.Verify(curve, c.Signature, c.Message, c.PublicKey, &h)
}

type eddsaFam struct {
	id    tedwards.ID
	hash  gchash.Hash
	field *big.Int
}

func eddsaFamily(name string) (*eddsaFam, error) {
	switch name {
	case "bn254":
		return &eddsaFam{tedwards.BN254, gchash.MIMC_BN254, ecc.BN254.ScalarField()}, nil
	case "bls12-381":
		return &eddsaFam{tedwards.BLS12_381, gchash.MIMC_BLS12_381, ecc.BLS12_381.ScalarField()}, nil
	case "bls12-377":
		return &eddsaFam{tedwards.BLS12_377, gchash.MIMC_BLS12_377, ecc.BLS12_377.ScalarField()}, nil
	case "bw6-761":
		return &eddsaFam{tedwards.BW6_761, gchash.MIMC_BW6_761, ecc.BW6_761.ScalarField()}, nil
	}
	return nil, fmt.Errorf("unknown eddsa family %s", name)
}

func eddsaRun(c *SigCase, res *SigRes) {
	f, err := eddsaFamily(c.Family)
	if err != nil {
		res.Err = "INFRA " + err.Error()
		return
	}
	rnd := mrand.New(mrand.NewSource(c.Seed))
	k1, err := gceddsa.New(f.id, rnd)
	if err != nil {
		res.Err = "INFRA " + err.Error()
		return
	}
	k2, _ := gceddsa.New(f.id, rnd)
	size := len(f.field.Bytes())
	pad := func(x *big.Int) []byte {
		b := make([]byte, size)
		x.FillBytes(b)
		return b
	}
	msg := new(big.Int).Rand(rnd, f.field)
	msg2 := new(big.Int).Add(msg, big.NewInt(1))
	msg2.Mod(msg2, f.field)
	sig, err := k1.Sign(pad(msg), f.hash.New())
	if err != nil {
		res.Err = "INFRA " + err.Error()
		return
	}
	sigOther, _ := k1.Sign(pad(msg2), f.hash.New())
	params, err := twistededwards.GetCurveParams(f.id)
	if err != nil {
		res.Err = "INFRA " + err.Error()
		return
	}
	order := params.Order
	half := len(sig) / 2
	S := new(big.Int).SetBytes(sig[half:])
	edited := append([]byte(nil), sig...)
	pub := k1.Public()
	m := msg
	setS := func(x *big.Int) bool {
		if x.BitLen() > 8*half {
			return false
		}
		x.FillBytes(edited[half:])
		return true
	}
	switch c.Class {
	case "genuine":
	case "sInc":
		setS(new(big.Int).Add(S, big.NewInt(1)))
	case "sPlusL":
		x := new(big.Int).Add(S, order)
		if x.Cmp(f.field) >= 0 || !setS(x) {
			res.Native, res.Circuit, res.Note = "inexpressible", "inexpressible", "S + order does not fit the field"
			return
		}
	case "sZero":
		setS(new(big.Int))
	case "rOther":
		copy(edited[:half], sigOther[:half])
	case "mInc":
		m = msg2
	case "otherKey":
		pub = k2.Public()
	case "rLowOrder":
		// the signer adds a point of order 8 to R and signs for the resulting hash: valid under cofactored verification
		if c.Family != "bn254" {
			res.Native, res.Circuit, res.Note = "inexpressible", "inexpressible", "low-order construction implemented for the BN254 companion curve"
			return
		}
		forged, err := lowOrderSignatureBN254(k1.Bytes(), pad(msg), c.Seed)
		if err != nil {
			res.Err = "INFRA " + err.Error()
			return
		}
		edited = forged
	default:
		res.Err = "INFRA unknown class " + c.Class
		return
	}
	ok, verr := pub.Verify(edited, pad(m), f.hash.New())
	if ok && verr == nil {
		res.Native = "accept"
	} else {
		res.Native = "reject"
		if verr != nil {
			res.Note = "native: " + verr.Error()
		}
	}
	var w eddsaCircuit
	var cerr error
	pan, pmsg := common.Safely(func() {
		w.Message = m
		w.PublicKey.Assign(f.id, pub.Bytes())
		w.Signature.Assign(f.id, edited)
		cerr = test.IsSolved(&eddsaCircuit{curveID: f.id}, &w, f.field)
	})
	switch {
	case pan:
		res.Circuit, res.Err = "reject", "panic: "+pmsg
	case cerr != nil:
		res.Circuit, res.Err = "reject", firstLineOf(cerr.Error())
	default:
		res.Circuit = "accept"
	}
}

// SigReplay judges every case natively and in-circuit.
func SigReplay(args common.Args, out *common.Out) error {
	cases, err := common.ReadNDJSON[SigCase](args.Get("in", ""))
	if err != nil {
		return err
	}
	common.ParallelFor(len(cases), args.Int("par", 16), func(i int) {
		c := &cases[i]
		res := SigRes{ID: c.ID}
		defer func() { out.Emit(res) }()
		switch c.Scheme {
		case "ecdsa":
			ecdsaRun(c, &res)
		case "eddsa":
			eddsaRun(c, &res)
		default:
			res.Err = "INFRA unknown scheme " + c.Scheme
		}
	})
	return nil
}

// lowOrderSignatureBN254 signs msg with the private key (publicKey||scalar||randSrc, 32 bytes each) using the commitment
// R = [n]B + T, T a point of order 8 of the BN254 companion curve.
func lowOrderSignatureBN254(priv []byte, msg []byte, seed int64) ([]byte, error) {
	params := bn254te.GetEdwardsCurve()
	var A bn254te.PointAffine
	if _, err := A.SetBytes(priv[:32]); err != nil {
		return nil, err
	}
	a := new(big.Int).SetBytes(priv[32:64])
	// a point outside the prime-order subgroup: smallest y >= 2 with a rational x, multiplied by the subgroup order
	var T bn254te.PointAffine
	found := false
	for y := int64(2); y < 200 && !found; y++ {
		var yy, num, den, x2, x, one bn254fr.Element
		one.SetOne()
		yy.SetInt64(y)
		yy.Square(&yy)
		num.Sub(&one, &yy)                        // 1 - y^2
		den.Mul(&params.D, &yy).Sub(&params.A, &den) // a - d y^2
		x2.Div(&num, &den)
		if x.Sqrt(&x2) == nil {
			continue
		}
		var cand bn254te.PointAffine
		cand.X.Set(&x)
		cand.Y.SetInt64(y)
		if !cand.IsOnCurve() {
			continue
		}
		T.ScalarMultiplication(&cand, &params.Order)
		var four bn254te.PointAffine
		four.ScalarMultiplication(&T, big.NewInt(4))
		if !four.IsZero() { // order exactly 8
			found = true
		}
	}
	if !found {
		return nil, fmt.Errorf("no point of order 8 found")
	}
	n := new(big.Int).Rand(mrand.New(mrand.NewSource(seed+77)), &params.Order)
	var R bn254te.PointAffine
	R.ScalarMultiplication(&params.Base, n)
	R.Add(&R, &T)
	h := gchash.MIMC_BN254.New()
	rx, ry, ax, ay := R.X.Bytes(), R.Y.Bytes(), A.X.Bytes(), A.Y.Bytes()
	for _, b := range [][]byte{rx[:], ry[:], ax[:], ay[:], msg} {
		h.Write(b)
	}
	c := new(big.Int).SetBytes(h.Sum(nil))
	S := new(big.Int).Mul(c, a)
	S.Add(S, n).Mod(S, &params.Order)
	out := make([]byte, 64)
	rb := R.Bytes()
	copy(out[:32], rb[:])
	S.FillBytes(out[32:])
	return out, nil
}
