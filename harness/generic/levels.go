package generic

import (
	"fmt"
	"reflect"
	"strings"

	"github.com/consensys/gnark/constraint"
)

// SystemOf returns the embedded constraint.System of a compiled system of any field.
func SystemOf(cs AnyCS) (*constraint.System, error) {
	v := reflect.ValueOf(cs)
	if v.Kind() != reflect.Ptr {
		return nil, fmt.Errorf("unexpected system %T", cs)
	}
	f := v.Elem().FieldByName("System")
	if !f.IsValid() || !f.CanAddr() {
		return nil, fmt.Errorf("system %T has no System field", cs)
	}
	s, ok := f.Addr().Interface().(*constraint.System)
	if !ok {
		return nil, fmt.Errorf("system %T: unexpected System field", cs)
	}
	return s, nil
}

// InstrRW is what one instruction reads and writes, observed through the blueprint's own
// UpdateInstructionTree callbacks (the public blueprint API).
type InstrRW struct {
	Reads  []int `json:"reads"`  // internal wires (produced by an instruction) the instruction depends on
	Writes []int `json:"writes"` // wires the instruction produces
	Level  int   `json:"level"`  // level the system schedules it in
}

type LevelRec struct {
	Name     string    `json:"name"`
	NbInputs int       `json:"nbInputs"` // wires below this id are inputs (incl. ONE)
	NbWires  int       `json:"nbWires"`
	Instrs   []InstrRW `json:"instrs"`
	Levels   [][]int   `json:"levels"`
	Problems []string  `json:"problems"`
	Small    bool      `json:"small"`
}

type recTree struct {
	nbInputs    int
	writerLevel map[uint32]int
	reads       map[uint32]bool
	writes      []uint32
	claimed     map[uint32]int
}

func (t *recTree) InsertWire(wire uint32, level constraint.Level) {
	t.writes = append(t.writes, wire)
	t.claimed[wire] = int(level)
}

// HasWire: the wire is produced by an instruction (it is neither an input nor a constant).
func (t *recTree) HasWire(wire uint32) bool { return int(wire) >= t.nbInputs }

// GetWireLevel: level at which the wire is produced, LevelUnset while no instruction produced it yet.
func (t *recTree) GetWireLevel(wire uint32) constraint.Level {
	l, ok := t.writerLevel[wire]
	if !ok {
		return constraint.LevelUnset
	}
	t.reads[wire] = true
	return constraint.Level(l)
}

// LevelReport replays every instruction's UpdateInstructionTree against the levels the system really
// uses and checks the scheduling invariants (specs/LevelBuilder.tla LevelsSound).
func LevelReport(name string, cs AnyCS) LevelRec {
	rec := LevelRec{Name: name}
	bad := func(f string, a ...any) {
		if len(rec.Problems) < 8 {
			rec.Problems = append(rec.Problems, fmt.Sprintf(f, a...))
		}
	}
	sys, err := SystemOf(cs)
	if err != nil {
		bad("INFRA %v", err)
		return rec
	}
	rec.NbInputs = cs.GetNbPublicVariables() + cs.GetNbSecretVariables()
	rec.NbWires = rec.NbInputs + cs.GetNbInternalVariables()
	n := len(sys.Instructions)
	realLevel := make([]int, n)
	for i := range realLevel {
		realLevel[i] = -1
	}
	for l, lv := range sys.Levels {
		row := make([]int, 0, len(lv))
		for _, i := range lv {
			if int(i) >= n {
				bad("level %d lists instruction %d, the system has %d", l, i, n)
				continue
			}
			if realLevel[i] != -1 {
				bad("instruction %d is scheduled twice (levels %d and %d)", i, realLevel[i], l)
			}
			realLevel[i] = l
			row = append(row, int(i))
		}
		rec.Levels = append(rec.Levels, row)
	}
	tree := &recTree{nbInputs: rec.NbInputs, writerLevel: map[uint32]int{}, claimed: map[uint32]int{}}
	written := map[uint32]int{}
	for i := 0; i < n; i++ {
		if realLevel[i] == -1 {
			bad("instruction %d is in no level", i)
			rec.Instrs = append(rec.Instrs, InstrRW{Level: -1})
			continue
		}
		tree.reads = map[uint32]bool{}
		tree.writes = nil
		pi := sys.Instructions[i]
		bp := sys.Blueprints[pi.BlueprintID]
		inst := pi.Unpack(sys)
		got := int(bp.UpdateInstructionTree(inst, tree))
		stateful := strings.Contains(fmt.Sprintf("%T", bp), "Lookup")
		if got != realLevel[i] && !stateful {
			bad("instruction %d (%T): blueprint computes level %d, system schedules it at level %d", i, bp, got, realLevel[i])
		}
		rw := InstrRW{Level: realLevel[i], Reads: []int{}, Writes: []int{}}
		for w := range tree.reads {
			rw.Reads = append(rw.Reads, int(w))
			if tree.writerLevel[w] >= realLevel[i] {
				bad("instruction %d at level %d reads wire %d which is produced at level %d", i, realLevel[i], w, tree.writerLevel[w])
			}
		}
		for _, w := range tree.writes {
			rw.Writes = append(rw.Writes, int(w))
			if j, dup := written[w]; dup {
				bad("wire %d is produced by instructions %d and %d", w, j, i)
			}
			written[w] = i
			if int(w) < rec.NbInputs {
				bad("instruction %d produces input wire %d", i, w)
			}
			tree.writerLevel[w] = realLevel[i]
		}
		rec.Instrs = append(rec.Instrs, rw)
	}
	for w := rec.NbInputs; w < rec.NbWires; w++ {
		if _, ok := written[uint32(w)]; !ok {
			bad("internal wire %d is produced by no instruction", w)
			break
		}
	}
	rec.Small = n <= 40 && rec.NbWires <= 80
	if !rec.Small {
		rec.Instrs, rec.Levels = nil, nil
	}
	return rec
}
