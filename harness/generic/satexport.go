package generic

import (
	"fmt"
	"math/big"
	"sort"

	"github.com/consensys/gnark/frontend"

	"verifharness/common"
)

// SatCircuit runs one program and ties every result to a secret "output" input by equality, so that
// the relation operands -> results can be read off input wires of the compiled system.
type SatCircuit struct {
	P    [2]frontend.Variable `gnark:",public"`
	S    [1]frontend.Variable
	O    []frontend.Variable
	Prog []Instr `gnark:"-"`
	Bits int     `gnark:"-"`
}

func (c *SatCircuit) Define(api frontend.API) error {
	inner := &ProgCircuit{Prog: c.Prog, NoCapture: true, FieldBits: c.Bits}
	inner.P, inner.S = c.P, c.S
	temps, err := inner.run(api)
	if err != nil {
		return err
	}
	if len(temps) != len(c.O) {
		return fmt.Errorf("program yields %d results, circuit has %d outputs", len(temps), len(c.O))
	}
	for i := range temps {
		api.AssertIsEqual(temps[i], c.O[i])
	}
	return nil
}

// SatCase is one case of specs/ConstraintSat.tla.
type SatCase struct {
	ID      int     `json:"id"`
	Name    string  `json:"name"`
	Kind    string  `json:"kind"`
	NbWires int     `json:"nbWires"`
	Rows    []any   `json:"rows"`
	Order   []int   `json:"order"`
	Nin     int     `json:"nin"`
	Op      string  `json:"op"`
	N       int     `json:"n"`
	Args    [][]any `json:"args"`
	Outs    []int   `json:"outs"`
	Skip    string  `json:"skip,omitempty"`
	PosOf   []int   `json:"posOf"`
	CheckAt [][]int `json:"checkAt"`
	Dom     []string `json:"dom"`
}

func nOut(ins Instr, bits int) int {
	if ins.Op == "ToBinary" {
		if ins.N >= 6 {
			return bits + (ins.N - 6)
		}
		return ins.N
	}
	if isAssert(ins.Op) {
		return 0
	}
	if ins.Op == "GDecoder3" {
		return 3
	}
	if ins.Op == "GPartition" {
		return 2
	}
	return 1
}

func satExportOne(b *ProgBeh, field, builder string) SatCase {
	mod, _ := FieldByName(field)
	bits := bitLen(mod)
	ins := b.Prog[0]
	if builder == "r1cs" && usesPlonkAPI(b.Prog) {
		return SatCase{ID: b.ID, Name: builder + " " + progString(b.Prog), Kind: builder, Skip: "compile: PLONK-specific call, sparse builder only"}
	}
	sc := SatCase{ID: b.ID, Name: builder + " " + progString(b.Prog), Kind: builder, Op: ins.Op, N: ins.N}
	if ins.Op == "ToBinary" && ins.N >= 6 {
		sc.N = bits + (ins.N - 6)
	}
	if ins.Op == "GRangePlain" && ins.N >= 5 {
		sc.N = bits + (ins.N - 6)
	}
	m := 0
	for _, in := range b.Prog {
		m += nOut(in, bits)
	}
	circuit := &SatCircuit{O: make([]frontend.Variable, m), Prog: b.Prog, Bits: bits}
	var cs AnyCS
	var err error
	pan, msg := common.Safely(func() { cs, err = CompileAny(field, builder, circuit) })
	if pan || err != nil {
		sc.Skip = "compile: " + msg
		if err != nil {
			sc.Skip = "compile: " + firstLine(err.Error())
		}
		return sc
	}
	rows, err := ExportRows(cs, builder)
	if err != nil {
		sc.Skip = "export: " + err.Error()
		return sc
	}
	sc.NbWires = rows.NbWires
	base := 0
	if builder == "r1cs" {
		base = 1 // wire 0 is ONE
	}
	wireOf := func(r Ref) int {
		switch r.K {
		case "p":
			return base + r.I
		case "s":
			return base + 2
		}
		panic("no wire")
	}
	for j := 0; j < m; j++ {
		sc.Outs = append(sc.Outs, base+3+j)
	}
	inputs := map[int]bool{}
	for _, r := range ins.A {
		if r.K == "c" {
			v := new(big.Int).Mod(big.NewInt(int64(r.I)), mod)
			sc.Args = append(sc.Args, []any{"c", int(v.Int64())})
		} else if r.K != "t" {
			w := wireOf(r)
			sc.Args = append(sc.Args, []any{"w", w})
			inputs[w] = true
		}
	}
	if len(b.Prog) > 1 {
		// several calls: the relation is that of the whole program (checked by the Go enumerator through the
		// port of ApiSemantics); TLC's single-operation Sound does not apply
		sc.Op, sc.Args = "", nil
		for _, in := range b.Prog {
			for _, r := range in.A {
				if r.K == "p" || r.K == "s" {
					inputs[wireOf(r)] = true
				}
			}
		}
	}
	// rows in the spec's shape, and the wires each row mentions
	var rowWires [][]int
	small := func(x *big.Int) int { return int(x.Int64()) }
	if builder == "r1cs" {
		for _, r := range rows.R1C {
			var row [3][][2]int
			ws := map[int]bool{}
			for k := 0; k < 3; k++ {
				row[k] = [][2]int{}
				for _, t := range r[k] {
					row[k] = append(row[k], [2]int{small(t.C), t.W})
					if t.W != 0 {
						ws[t.W] = true
					}
				}
			}
			sc.Rows = append(sc.Rows, row)
			rowWires = append(rowWires, keys(ws))
		}
	} else {
		for _, g := range rows.Sparse {
			sc.Rows = append(sc.Rows, map[string]int{"xa": g.XA, "xb": g.XB, "xc": g.XC, "ql": small(g.QL), "qr": small(g.QR),
				"qo": small(g.QO), "qm": small(g.QM), "qc": small(g.QC)})
			ws := map[int]bool{}
			if g.QL.Sign() != 0 || g.QM.Sign() != 0 {
				ws[g.XA] = true
			}
			if g.QR.Sign() != 0 || g.QM.Sign() != 0 {
				ws[g.XB] = true
			}
			if g.QO.Sign() != 0 {
				ws[g.XC] = true
			}
			rowWires = append(rowWires, keys(ws))
		}
	}
	// wire order: operand wires first, then greedily the wire that completes most rows
	inRows := map[int]bool{}
	for _, ws := range rowWires {
		for _, w := range ws {
			inRows[w] = true
		}
	}
	assigned := map[int]bool{}
	for _, w := range keys(inputs) {
		sc.Order = append(sc.Order, w)
		assigned[w] = true
	}
	sc.Nin = len(sc.Order)
	for _, o := range sc.Outs {
		inRows[o] = true // outputs are always part of the relation
	}
	remaining := []int{}
	for w := range inRows {
		if !assigned[w] {
			remaining = append(remaining, w)
		}
	}
	sort.Ints(remaining)
	for len(remaining) > 0 {
		// 1. a wire that completes a row now (it is determined / pruned immediately);
		// 2. otherwise the free wire whose assignment turns the most rows into rows with a single unknown
		//    (so that everything it unlocks is determined at once), then the one closest to completing a row
		best, bestScore, bestUnlock, bestNeed := -1, -1, -1, 1<<30
		for _, w := range remaining {
			score, unlock, need := 0, 0, 1<<30
			for _, ws := range rowWires {
				missing := 0
				has := false
				for _, x := range ws {
					if x == w {
						has = true
					} else if !assigned[x] {
						missing++
					}
				}
				if !has {
					continue
				}
				if missing == 0 {
					score++
				}
				if missing == 1 {
					unlock++
				}
				if missing < need {
					need = missing
				}
			}
			better := false
			switch {
			case score != bestScore:
				better = score > bestScore
			case score > 0:
				better = false
			case unlock != bestUnlock:
				better = unlock > bestUnlock
			default:
				better = need < bestNeed
			}
			if best == -1 || better {
				best, bestScore, bestUnlock, bestNeed = w, score, unlock, need
			}
		}
		sc.Order = append(sc.Order, best)
		assigned[best] = true
		for i, w := range remaining {
			if w == best {
				remaining = append(remaining[:i], remaining[i+1:]...)
				break
			}
		}
	}
	// derived tables (speed only)
	sc.PosOf = make([]int, sc.NbWires+1)
	for k, w := range sc.Order {
		sc.PosOf[w] = k + 1
	}
	sc.CheckAt = make([][]int, len(sc.Order))
	for k := range sc.CheckAt {
		sc.CheckAt[k] = []int{}
	}
	for ri, ws := range rowWires {
		last := 0
		ok := true
		for _, w := range ws {
			if sc.PosOf[w] == 0 {
				ok = false
			}
			if sc.PosOf[w] > last {
				last = sc.PosOf[w]
			}
		}
		if !ok {
			sc.Skip = "row mentions a wire that is never assigned"
			return sc
		}
		if last == 0 {
			// a row over constants only: must hold as is; attach it to the first position
			last = 1
			if len(sc.Order) == 0 {
				continue
			}
		}
		sc.CheckAt[last-1] = append(sc.CheckAt[last-1], ri+1)
	}
	sc.Dom = make([]string, len(sc.Order))
	for k := range sc.Dom {
		sc.Dom[k] = "F"
		if k == 2 && sc.Nin >= 3 {
			sc.Dom[k] = "probe"
		}
	}
	return sc
}

func keys(m map[int]bool) []int {
	var r []int
	for k := range m {
		r = append(r, k)
	}
	sort.Ints(r)
	return r
}

// SatExport compiles single-operation programs over tinyfield and exports ConstraintSat cases.
func SatExport(args common.Args, out *common.Out) error {
	behs, err := common.ReadNDJSON[ProgBeh](args.Get("in", ""))
	if err != nil {
		return err
	}
	field := args.Get("field", "tinyfield")
	for i := range behs {
		for _, b := range []string{"r1cs", "scs"} {
			out.Emit(satExportOne(&behs[i], field, b))
		}
	}
	return nil
}

// ---- exhaustive enumeration of the satisfying assignments (the Go twin of ConstraintSat.tla) ----

// SatEnumRes is the result of enumerating every satisfying assignment of one case.
type SatEnumRes struct {
	ID         int      `json:"id"`
	Name       string   `json:"name"`
	Kind       string   `json:"kind"`
	Skip       string   `json:"skip,omitempty"`
	Tree       float64  `json:"tree"`      // number of consistent partial assignments (= TLC's distinct states for this case, root included)
	Terminals  float64  `json:"terminals"` // satisfying full assignments
	Explored   int      `json:"explored"`  // partial assignments actually visited (dead wires are explored once and accounted for)
	NbRows     int      `json:"nb_rows"`
	Violations []string `json:"violations,omitempty"`
	NbViol     int      `json:"nb_violations"`
	Restricted bool     `json:"restricted"` // second/third operand restricted to the probe values
	Case       *SatCase `json:"case,omitempty"` // only when requested (for the TLC subset)
}

type satRow struct {
	r1c   [3][][2]int
	gate  [8]int // xa xb xc ql qr qo qm qc
	isR1C bool
}

func satEnumerate(sc *SatCase, prog []Instr, mod int, fullF bool, probe []int, budget int) (tree, terminals float64, explored int, viol []string, nviol int) {
	rows := make([]satRow, len(sc.Rows))
	for i, r := range sc.Rows {
		switch t := r.(type) {
		case [3][][2]int:
			rows[i] = satRow{r1c: t, isR1C: true}
		case map[string]int:
			rows[i] = satRow{gate: [8]int{t["xa"], t["xb"], t["xc"], t["ql"], t["qr"], t["qo"], t["qm"], t["qc"]}}
		}
	}
	val := make([]int, sc.NbWires+1)
	if sc.Kind == "r1cs" {
		val[0] = 1
	}
	holds := func(r *satRow) bool {
		if r.isR1C {
			var e [3]int
			for k := 0; k < 3; k++ {
				acc := 0
				for _, t := range r.r1c[k] {
					acc += t[0] * val[t[1]]
				}
				e[k] = acc % mod
			}
			return (e[0]*e[1])%mod == e[2]
		}
		g := r.gate
		l, rr, o := 0, 0, 0
		if g[3] != 0 || g[6] != 0 {
			l = val[g[0]]
		}
		if g[4] != 0 || g[6] != 0 {
			rr = val[g[1]]
		}
		if g[5] != 0 {
			o = val[g[2]]
		}
		return (g[3]*l+g[4]*rr+g[5]*o+g[6]*((l*rr)%mod)+g[7])%mod == 0
	}
	// dead[k]: the wire assigned at position k is read by no row completing after k, and is no operand / result
	dead := make([]bool, len(sc.Order))
	special := map[int]bool{}
	for _, o := range sc.Outs {
		special[o] = true
	}
	for _, a := range sc.Args {
		if a[0].(string) == "w" {
			special[a[1].(int)] = true
		}
	}
	for k, w := range sc.Order {
		if special[w] || k < sc.Nin {
			continue
		}
		later := false
		for kk := k + 1; kk < len(sc.Order) && !later; kk++ {
			for _, ri := range sc.CheckAt[kk] {
				r := &rows[ri-1]
				if r.isR1C {
					for c := 0; c < 3; c++ {
						for _, t := range r.r1c[c] {
							if t[1] == w {
								later = true
							}
						}
					}
				} else {
					g := r.gate
					if ((g[3] != 0 || g[6] != 0) && g[0] == w) || ((g[4] != 0 || g[6] != 0) && g[1] == w) || (g[5] != 0 && g[2] == w) {
						later = true
					}
				}
			}
		}
		dead[k] = !later
	}
	bm := big.NewInt(int64(mod))
	base := 0
	if sc.Kind == "r1cs" {
		base = 1
	}
	var rec func(k int)
	rec = func(k int) {
		tree++
		explored++
		if budget > 0 && explored > budget {
			return
		}
		if k == len(sc.Order) {
			terminals++
			asg := []*big.Int{big.NewInt(int64(val[base])), big.NewInt(int64(val[base+1])), big.NewInt(int64(val[base+2]))}
			o := EvalProg(prog, asg, bm)
			bad := ""
			if !o.Ok {
				bad = "assertion of the documented relation violated"
			} else if !o.Unspec {
				for j, w := range sc.Outs {
					if j < len(o.Temps) && !o.Any[j] && int(o.Temps[j].Int64()) != val[w] {
						bad = fmt.Sprintf("result %d = %d, documented value %s", j, val[w], o.Temps[j])
						break
					}
				}
			}
			if bad != "" {
				nviol++
				if len(viol) < 3 {
					m := map[int]int{}
					for _, w := range sc.Order {
						m[w] = val[w]
					}
					viol = append(viol, fmt.Sprintf("%s; assignment wire->value %v", bad, m))
				}
			}
			return
		}
		w := sc.Order[k]
		dom := mod
		usep := !fullF && sc.Dom[k] == "probe"
		try := func(v int) {
			val[w] = v
			for _, ri := range sc.CheckAt[k] {
				if !holds(&rows[ri-1]) {
					return
				}
			}
			rec(k + 1)
		}
		if dead[k] {
			// w is read by no row that completes later and is neither operand nor result: all surviving
			// values lead to identical subtrees - explore one, account for all
			surv, first := 0, -1
			for v := 0; v < dom; v++ {
				val[w] = v
				ok := true
				for _, ri := range sc.CheckAt[k] {
					if !holds(&rows[ri-1]) {
						ok = false
						break
					}
				}
				if ok {
					surv++
					if first < 0 {
						first = v
					}
				}
			}
			if first >= 0 {
				val[w] = first
				t0, n0 := terminals, tree
				rec(k + 1)
				terminals = t0 + (terminals-t0)*float64(surv)
				tree = n0 + (tree-n0)*float64(surv)
			}
			val[w] = 0
			return
		}
		if usep {
			for _, v := range probe {
				try(v)
			}
		} else {
			for v := 0; v < dom; v++ {
				try(v)
			}
		}
		val[w] = 0
	}
	rec(0)
	return
}

// SatEnum exports and exhaustively enumerates single-operation programs.
func SatEnum(args common.Args, out *common.Out) error {
	behs, err := common.ReadNDJSON[ProgBeh](args.Get("in", ""))
	if err != nil {
		return err
	}
	field := args.Get("field", "tinyfield")
	mod, _ := FieldByName(field)
	withCase := args.Int("cases", 0) == 1
	probe := []int{0, 1, 2, 23, 45, 46}
	budget := args.Int("budget", 20000000)
	type job struct {
		i int
		b string
	}
	var jobs []job
	for i := range behs {
		jobs = append(jobs, job{i, "r1cs"}, job{i, "scs"})
	}
	common.ParallelFor(len(jobs), args.Int("par", 16), func(k int) {
		j := jobs[k]
		sc := satExportOne(&behs[j.i], field, j.b)
		res := SatEnumRes{ID: sc.ID, Name: sc.Name, Kind: sc.Kind, Skip: sc.Skip, NbRows: len(sc.Rows)}
		if sc.Skip == "" {
			// typed rows for the enumerator
			typed := sc
			for i, r := range typed.Rows {
				if rr, ok := r.([3][][2]int); ok {
					typed.Rows[i] = rr
				}
			}
			res.Tree, res.Terminals, res.Explored, res.Violations, res.NbViol = satEnumerate(&typed, behs[j.i].Prog, int(mod.Int64()), false, probe, budget)
			if budget > 0 && res.Explored > budget && typed.Nin >= 2 {
				// too many satisfying assignments to enumerate for all 47^2 operand pairs: restrict the second
				// operand (and third) to the probe values - recorded in the result, never silently
				for k := 1; k < typed.Nin; k++ {
					typed.Dom[k] = "probe"
				}
				sc.Dom = typed.Dom
				res.Restricted = true
				res.Tree, res.Terminals, res.Explored, res.Violations, res.NbViol = satEnumerate(&typed, behs[j.i].Prog, int(mod.Int64()), false, probe, budget)
			}
			if budget > 0 && res.Explored > budget {
				res.Skip = fmt.Sprintf("budget of %d partial assignments exceeded", budget)
			}
			if withCase {
				c := sc
				res.Case = &c
			}
		}
		out.Emit(res)
	})
	return nil
}
