package generic

import (
	"bytes"
	"crypto/sha256"
	"fmt"
	stdhash "hash"
	"math/big"
	"math/rand"
	"strings"

	"github.com/consensys/gnark-crypto/accumulator/merkletree"
	"github.com/consensys/gnark-crypto/ecc"
	fiatshamir "github.com/consensys/gnark-crypto/fiat-shamir"
	gchash "github.com/consensys/gnark-crypto/hash"
	"github.com/consensys/gnark/backend/groth16"
	"github.com/consensys/gnark/backend/plonk"
	"github.com/consensys/gnark/frontend"
	"github.com/consensys/gnark/frontend/cs/r1cs"
	"github.com/consensys/gnark/frontend/cs/scs"
	"github.com/consensys/gnark/std/accumulator/merkle"
	fscircuit "github.com/consensys/gnark/std/fiat-shamir"
	"github.com/consensys/gnark/std/hash"
	"github.com/consensys/gnark/std/hash/mimc"
	"github.com/consensys/gnark/std/hash/poseidon2"
	"github.com/consensys/gnark/std/hash/ripemd160"
	"github.com/consensys/gnark/std/hash/sha2"
	"github.com/consensys/gnark/std/hash/sha3"
	"github.com/consensys/gnark/std/math/uints"
	"github.com/consensys/gnark/test"
	"github.com/consensys/gnark/test/unsafekzg"
	xripemd "golang.org/x/crypto/ripemd160" //nolint
	xsha3 "golang.org/x/crypto/sha3"

	"verifharness/common"
)

// HashCase is one case of specs/HashFraming.tla.
type HashCase struct {
	ID         int    `json:"id"`
	Kind       string `json:"kind"`
	Family     string `json:"family"`
	Len        int    `json:"len"`
	Chunking   string `json:"chunking"`
	Max        int    `json:"max"`
	MinLen     int    `json:"minlen"`
	Blocks     int    `json:"blocks"`
	Export     int    `json:"export"`
	Leaves     int    `json:"leaves"`
	Index      int    `json:"index"`
	Challenges int    `json:"challenges"`
	Bindings   int    `json:"bindings"`
	Dirty      bool   `json:"dirty"`
}

type HashRes struct {
	ID       int      `json:"id"`
	Runs     int      `json:"runs"`
	Problems []string `json:"problems"`
}

func hashBlock(family string) int {
	switch family {
	case "sha256", "ripemd160":
		return 64
	case "sha3-256", "keccak256":
		return 136
	case "sha3-384":
		return 104
	}
	return 72
}

func nativeBinary(family string) stdhash.Hash {
	switch family {
	case "sha256":
		return sha256.New()
	case "ripemd160":
		return ripemd160_native()
	case "sha3-256":
		return xsha3.New256()
	case "sha3-384":
		return xsha3.New384()
	case "sha3-512":
		return xsha3.New512()
	case "keccak256":
		return xsha3.NewLegacyKeccak256()
	case "keccak512":
		return xsha3.NewLegacyKeccak512()
	}
	panic("unknown family " + family)
}

func ripemd160_native() stdhash.Hash { return xripemd.New() }

// chunkPoints returns the byte offsets at which the message is cut into Write calls.
func chunkPoints(chunking string, n, B int) (cuts []int, empties bool) {
	add := func(k int) {
		if k > 0 && k < n {
			cuts = append(cuts, k)
		}
	}
	switch chunking {
	case "one":
	case "bytes":
		for k := 1; k < n; k++ {
			cuts = append(cuts, k)
		}
	case "split1":
		add(1)
	case "splitB-1":
		add(B - 1)
	case "splitB":
		add(B)
	case "splitB+1":
		add(B + 1)
	case "empties":
		add(n / 2)
		empties = true
	}
	return
}

func newBinHasher(api frontend.API, family string) (hash.BinaryHasher, error) {
	switch family {
	case "sha256":
		return sha2.New(api)
	case "ripemd160":
		return ripemd160.New(api)
	case "sha3-256":
		return sha3.New256(api)
	case "sha3-384":
		return sha3.New384(api)
	case "sha3-512":
		return sha3.New512(api)
	case "keccak256":
		return sha3.NewLegacyKeccak256(api)
	case "keccak512":
		return sha3.NewLegacyKeccak512(api)
	}
	return nil, fmt.Errorf("unknown family %q", family)
}

type BinHashCircuit struct {
	Prefix   []uints.U8 // digest of the first half (chunking "reuse")
	In       []uints.U8
	Len      frontend.Variable
	Expected []uints.U8 `gnark:",public"`
	Case     HashCase   `gnark:"-"`
}

func (c *BinHashCircuit) Define(api frontend.API) error {
	k := &c.Case
	var h hash.BinaryHasher
	var hv hash.BinaryFixedLengthHasher
	var err error
	var opts []hash.Option
	if k.Kind == "varlen" && k.MinLen > 0 {
		opts = append(opts, hash.WithMinimalLength(k.MinLen))
	}
	switch k.Family {
	case "sha256":
		hv, err = sha2.New(api, opts...)
	case "ripemd160":
		h, err = ripemd160circuit(api)
	case "sha3-256":
		hv, err = sha3.New256(api, opts...)
	case "sha3-384":
		hv, err = sha3.New384(api, opts...)
	case "sha3-512":
		hv, err = sha3.New512(api, opts...)
	case "keccak256":
		hv, err = sha3.NewLegacyKeccak256(api, opts...)
	case "keccak512":
		hv, err = sha3.NewLegacyKeccak512(api, opts...)
	default:
		return fmt.Errorf("unknown family %q", k.Family)
	}
	if err != nil {
		return err
	}
	if hv != nil {
		h = hv
	}
	uapi, err := uints.New[uints.U32](api)
	if err != nil {
		return err
	}
	chunking := k.Chunking
	if k.Kind == "varlen" {
		chunking = []string{"one", "split1", "splitB", "empties"}[k.ID%4]
	}
	if chunking == "reuse" && len(c.In) > 1 {
		// a first hasher digests a proper prefix taken as a sub-slice of the input (spare capacity behind it)
		h1, err := newBinHasher(api, k.Family)
		if err != nil {
			return err
		}
		h1.Write(c.In[:len(c.In)/2])
		d1 := h1.Sum()
		for i := range d1 {
			uapi.ByteAssertEq(d1[i], c.Prefix[i])
		}
	}
	cuts, empties := chunkPoints(chunking, len(c.In), hashBlock(k.Family))
	prev := 0
	for _, cut := range append(cuts, len(c.In)) {
		if empties {
			h.Write(nil)
		}
		h.Write(c.In[prev:cut])
		prev = cut
	}
	if empties {
		h.Write([]uints.U8{})
	}
	var res []uints.U8
	if k.Kind == "varlen" {
		res = hv.FixedLengthSum(c.Len)
	} else {
		res = h.Sum()
	}
	if len(res) != len(c.Expected) || len(res) != h.Size() {
		return fmt.Errorf("digest has %d bytes, Size() = %d, native %d", len(res), h.Size(), len(c.Expected))
	}
	for i := range res {
		uapi.ByteAssertEq(res[i], c.Expected[i])
	}
	api.AssertIsDifferent(c.Len, -1)
	return nil
}

func ripemd160circuit(api frontend.API) (hash.BinaryHasher, error) { return ripemd160.New(api) }

// ---- field hashers ----

type FieldHashCircuit struct {
	In       []frontend.Variable
	Expected frontend.Variable `gnark:",public"`
	Case     HashCase          `gnark:"-"`
}

func (c *FieldHashCircuit) Define(api frontend.API) error {
	k := &c.Case
	newH := func() (hash.FieldHasher, error) {
		if k.Family == "poseidon2" {
			return poseidon2.NewMerkleDamgardHasher(api)
		}
		m, err := mimc.NewMiMC(api)
		return &m, err
	}
	h, err := newH()
	if err != nil {
		return err
	}
	write := func(h hash.FieldHasher, data []frontend.Variable) {
		switch k.Chunking {
		case "one":
			h.Write(data...)
		case "each":
			for _, d := range data {
				h.Write(d)
			}
		case "split1":
			if len(data) > 0 {
				h.Write(data[0])
				h.Write(data[1:]...)
			}
		}
	}
	if k.Export >= 0 {
		// hash the first Export elements, export the state, import it into a fresh hasher, continue there
		write(h, c.In[:k.Export])
		ss, ok := h.(hash.StateStorer)
		if !ok {
			return fmt.Errorf("%s is not a StateStorer", k.Family)
		}
		st := ss.State()
		h2, err := newH()
		if err != nil {
			return err
		}
		if err := h2.(hash.StateStorer).SetState(st); err != nil {
			return err
		}
		write(h2, c.In[k.Export:])
		api.AssertIsEqual(h2.Sum(), c.Expected)
		// the exporting hasher is still usable
		write(h, c.In[k.Export:])
		api.AssertIsEqual(h.Sum(), c.Expected)
		return nil
	}
	write(h, c.In)
	api.AssertIsEqual(h.Sum(), c.Expected)
	return nil
}

type MerkleCircuit struct {
	M    merkle.MerkleProof
	Leaf frontend.Variable
}

func (c *MerkleCircuit) Define(api frontend.API) error {
	h, err := mimc.NewMiMC(api)
	if err != nil {
		return err
	}
	c.M.VerifyProof(api, &h, c.Leaf)
	return nil
}

type TranscriptCircuit struct {
	Bind       [][]frontend.Variable
	Challenges []frontend.Variable `gnark:",public"`
	Dirty      bool                `gnark:"-"`
}

func (c *TranscriptCircuit) Define(api frontend.API) error {
	h, err := mimc.NewMiMC(api)
	if err != nil {
		return err
	}
	ids := make([]string, len(c.Challenges))
	for i := range ids {
		ids[i] = fmt.Sprintf("ch%d", i)
	}
	ts := fscircuit.NewTranscript(api, &h, ids)
	if c.Dirty {
		// the circuit's own use of the shared hasher must not leak into the challenges
		h.Write(c.Challenges[0], 7)
		api.AssertIsDifferent(h.Sum(), 0)
	}
	for i := range ids {
		if err := ts.Bind(ids[i], c.Bind[i]); err != nil {
			return err
		}
	}
	for i := range ids {
		ch, err := ts.ComputeChallenge(ids[i])
		if err != nil {
			return err
		}
		api.AssertIsEqual(ch, c.Challenges[i])
	}
	return nil
}

var mimcByCurve = map[ecc.ID]gchash.Hash{
	ecc.BN254: gchash.MIMC_BN254, ecc.BLS12_377: gchash.MIMC_BLS12_377, ecc.BLS12_381: gchash.MIMC_BLS12_381,
	ecc.BLS24_315: gchash.MIMC_BLS24_315, ecc.BLS24_317: gchash.MIMC_BLS24_317, ecc.BW6_761: gchash.MIMC_BW6_761, ecc.BW6_633: gchash.MIMC_BW6_633,
}

// HashReplay replays HashFraming.tla cases on the real gadgets and compares with the native implementations.
func HashReplay(args common.Args, out *common.Out) error {
	cases, err := common.ReadNDJSON[HashCase](args.Get("in", ""))
	if err != nil {
		return err
	}
	curve := CurveIDs[args.Get("curve", "bn254")]
	mod := curve.ScalarField()
	compileEvery := args.Int("compileevery", 0)
	frSize := (mod.BitLen() + 7) / 8
	common.ParallelFor(len(cases), args.Int("par", 16), func(i int) {
		c := &cases[i]
		res := HashRes{ID: c.ID}
		bad := func(f string, a ...any) {
			if len(res.Problems) < 4 {
				res.Problems = append(res.Problems, fmt.Sprintf(f, a...))
			}
		}
		defer func() { out.Emit(res) }()
		rng := rand.New(rand.NewSource(int64(c.ID)*7919 + 17))
		run := func(mk func() frontend.Circuit, good, wrong frontend.Circuit) {
			var e1, e2 error
			pan, msg := common.Safely(func() { e1 = test.IsSolved(mk(), good, mod) })
			res.Runs++
			if pan {
				bad("gadget panics: %s", msg)
				return
			}
			if e1 != nil {
				bad("in-circuit result differs from the native implementation: %s", firstLine(e1.Error()))
			}
			if wrong != nil {
				pan, msg = common.Safely(func() { e2 = test.IsSolved(mk(), wrong, mod) })
				res.Runs++
				if pan {
					bad("gadget panics: %s", msg)
				} else if e2 == nil {
					bad("a wrong digest is accepted")
				}
			}
			if compileEvery > 0 && c.ID%compileEvery == 0 && e1 == nil {
				// the same through the real builders and solvers
				for _, b := range []string{"r1cs", "scs"} {
					var ce error
					pan, msg := common.Safely(func() {
						var nb frontend.NewBuilder = r1cs.NewBuilder
						if b == "scs" {
							nb = scs.NewBuilder
						}
						sys, err := frontend.Compile(mod, nb, mk())
						if err != nil {
							ce = fmt.Errorf("compile: %w", err)
							return
						}
						w, err := frontend.NewWitness(good, mod)
						if err != nil {
							ce = fmt.Errorf("INFRA witness: %w", err)
							return
						}
						// the range-check / lookup arguments of the byte gadgets need the prover's commitment: real provers
						pub, _ := w.Public()
						if b == "r1cs" {
							pk, vk, err := groth16.Setup(sys)
							if err != nil {
								ce = fmt.Errorf("INFRA setup: %w", err)
								return
							}
							proof, err := groth16.Prove(sys, pk, w)
							if err != nil {
								ce = err
								return
							}
							ce = groth16.Verify(proof, vk, pub)
						} else {
							srs, srsL, err := unsafekzg.NewSRS(sys, unsafekzg.WithToxicValue(big.NewInt(1515)))
							if err != nil {
								ce = fmt.Errorf("INFRA srs: %w", err)
								return
							}
							pk, vk, err := plonk.Setup(sys, srs, srsL)
							if err != nil {
								ce = fmt.Errorf("INFRA setup: %w", err)
								return
							}
							proof, err := plonk.Prove(sys, pk, w)
							if err != nil {
								ce = err
								return
							}
							ce = plonk.Verify(proof, vk, pub)
						}
					})
					res.Runs++
					if pan {
						bad("%s: panic: %s", b, msg)
					} else if ce != nil {
						if strings.HasPrefix(ce.Error(), "INFRA") {
							bad("%v", ce)
						} else {
							bad("in-circuit result differs from the native implementation (%s builder and prover): %s", b, firstLine(ce.Error()))
						}
					}
				}
			}
		}
		switch c.Kind {
		case "fixed", "varlen":
			total := c.Len
			if c.Kind == "varlen" {
				total = c.Max
			}
			msg := make([]byte, total)
			rng.Read(msg)
			for j := c.Len; j < total; j++ {
				msg[j] |= 1 // junk after the actual length is never zero
			}
			nh := nativeBinary(c.Family)
			nh.Write(msg[:c.Len])
			digest := nh.Sum(nil)
			mk := func() frontend.Circuit {
				return &BinHashCircuit{In: make([]uints.U8, total), Expected: make([]uints.U8, len(digest)), Prefix: make([]uints.U8, len(digest)), Case: *c}
			}
			ph := nativeBinary(c.Family)
			ph.Write(msg[:total/2])
			prefixDigest := ph.Sum(nil)
			assign := func(d []byte) *BinHashCircuit {
				return &BinHashCircuit{In: uints.NewU8Array(msg), Len: c.Len, Expected: uints.NewU8Array(d), Prefix: uints.NewU8Array(prefixDigest)}
			}
			wrong := append([]byte(nil), digest...)
			wrong[c.ID%len(wrong)] ^= 1 << uint(c.ID%8)
			run(mk, assign(digest), assign(wrong))
			if c.Kind == "varlen" && c.Len > 0 && c.MinLen == 0 {
				// the digest of a different prefix length must not be accepted for this length
				nh.Reset()
				nh.Write(msg[:c.Len-1])
				other := assign(nh.Sum(nil))
				var e error
				pan, m := common.Safely(func() { e = test.IsSolved(mk(), other, mod) })
				res.Runs++
				if pan {
					bad("gadget panics: %s", m)
				} else if e == nil {
					bad("the digest of a shorter prefix is accepted for the declared length")
				}
			}
		case "field":
			if c.Family == "poseidon2" && curve != ecc.BLS12_377 {
				return // the Merkle-Damgard Poseidon2 hasher is offered on BLS12-377 only
			}
			var nh stdhash.Hash
			if c.Family == "poseidon2" {
				nh = gchash.POSEIDON2_BLS12_377.New()
			} else {
				nh = mimcByCurve[curve].New()
			}
			in := make([]frontend.Variable, c.Len)
			buf := make([]byte, frSize)
			for j := range in {
				v := new(big.Int).Rand(rng, mod)
				if j%3 == 1 {
					v.SetInt64(int64(j))
				}
				in[j] = v
				nh.Write(v.FillBytes(buf))
			}
			exp := new(big.Int).SetBytes(nh.Sum(nil))
			mk := func() frontend.Circuit { return &FieldHashCircuit{In: make([]frontend.Variable, c.Len), Case: *c} }
			wrong := new(big.Int).Add(exp, big.NewInt(1))
			run(mk, &FieldHashCircuit{In: in, Expected: exp}, &FieldHashCircuit{In: in, Expected: wrong.Mod(wrong, mod)})
		case "merkle":
			var buf bytes.Buffer
			leaves := make([]*big.Int, c.Leaves)
			for j := range leaves {
				leaves[j] = new(big.Int).Rand(rng, mod)
				buf.Write(leaves[j].FillBytes(make([]byte, frSize)))
			}
			hGo := mimcByCurve[curve].New()
			root, path, n, err := merkletree.BuildReaderProof(&buf, hGo, frSize, uint64(c.Index))
			if err != nil {
				bad("INFRA native merkle proof: %v", err)
				return
			}
			if !merkletree.VerifyProof(hGo, root, path, uint64(c.Index), n) {
				bad("INFRA native merkle proof does not verify")
				return
			}
			mk := func() frontend.Circuit {
				return &MerkleCircuit{M: merkle.MerkleProof{Path: make([]frontend.Variable, len(path))}}
			}
			assign := func(root []byte, p [][]byte, idx int) *MerkleCircuit {
				a := &MerkleCircuit{Leaf: idx}
				a.M.RootHash = root
				a.M.Path = make([]frontend.Variable, len(p))
				for j := range p {
					a.M.Path[j] = p[j]
				}
				return a
			}
			// wrong: another leaf index with the same path
			run(mk, assign(root, path, c.Index), assign(root, path, c.Index^1))
			// wrong: a sibling altered
			if len(path) > 1 {
				p2 := make([][]byte, len(path))
				copy(p2, path)
				alt := new(big.Int).SetBytes(path[len(path)-1])
				alt.Add(alt, big.NewInt(1)).Mod(alt, mod)
				p2[len(p2)-1] = alt.FillBytes(make([]byte, frSize))
				var e error
				pan, m := common.Safely(func() { e = test.IsSolved(mk(), assign(root, p2, c.Index), mod) })
				res.Runs++
				if pan {
					bad("gadget panics: %s", m)
				} else if e == nil {
					bad("a Merkle proof with an altered sibling is accepted")
				}
			}
		case "transcript":
			ids := make([]string, c.Challenges)
			for j := range ids {
				ids[j] = fmt.Sprintf("ch%d", j)
			}
			ts := fiatshamir.NewTranscript(mimcByCurve[curve].New(), ids...)
			bind := make([][]frontend.Variable, c.Challenges)
			for j := range ids {
				bind[j] = make([]frontend.Variable, c.Bindings)
				for l := 0; l < c.Bindings; l++ {
					v := new(big.Int).Rand(rng, mod)
					bind[j][l] = v
					if err := ts.Bind(ids[j], v.FillBytes(make([]byte, frSize))); err != nil {
						bad("INFRA native transcript: %v", err)
						return
					}
				}
			}
			chs := make([]frontend.Variable, c.Challenges)
			wrong := make([]frontend.Variable, c.Challenges)
			for j := range ids {
				b, err := ts.ComputeChallenge(ids[j])
				if err != nil {
					bad("INFRA native transcript: %v", err)
					return
				}
				chs[j] = new(big.Int).SetBytes(b)
				wrong[j] = chs[j]
			}
			w := new(big.Int).Add(chs[len(chs)-1].(*big.Int), big.NewInt(1))
			wrong[len(wrong)-1] = w.Mod(w, mod)
			mk := func() frontend.Circuit {
				t := &TranscriptCircuit{Bind: make([][]frontend.Variable, c.Challenges), Challenges: make([]frontend.Variable, c.Challenges), Dirty: c.Dirty}
				for j := range t.Bind {
					t.Bind[j] = make([]frontend.Variable, c.Bindings)
				}
				return t
			}
			run(mk, &TranscriptCircuit{Bind: bind, Challenges: chs}, &TranscriptCircuit{Bind: bind, Challenges: wrong})
		default:
			bad("INFRA unknown case kind %q", c.Kind)
		}
	})
	return nil
}
