// Package common holds I/O helpers and the per-curve registry of the verification harness.
package common

import (
	"bufio"
	"encoding/json"
	"fmt"
	"os"
	"runtime/debug"
	"sort"
	"strings"
	"sync"
)

// Args is a tiny flag parser: --key value pairs after the subcommand.
type Args map[string]string

func ParseArgs(a []string) Args {
	r := Args{}
	for i := 0; i < len(a); i++ {
		if strings.HasPrefix(a[i], "--") {
			k := a[i][2:]
			if i+1 < len(a) && !strings.HasPrefix(a[i+1], "--") {
				r[k] = a[i+1]
				i++
			} else {
				r[k] = "true"
			}
		}
	}
	return r
}

func (a Args) Get(k, def string) string {
	if v, ok := a[k]; ok {
		return v
	}
	return def
}

func (a Args) Int(k string, def int) int {
	if v, ok := a[k]; ok {
		var n int
		if _, err := fmt.Sscanf(v, "%d", &n); err == nil {
			return n
		}
	}
	return def
}

// ReadNDJSON decodes every line of path into a fresh T.
func ReadNDJSON[T any](path string) ([]T, error) {
	f, err := os.Open(path)
	if err != nil {
		return nil, err
	}
	defer f.Close()
	var out []T
	sc := bufio.NewScanner(f)
	sc.Buffer(make([]byte, 1<<20), 1<<28)
	for sc.Scan() {
		line := strings.TrimSpace(sc.Text())
		if line == "" {
			continue
		}
		var v T
		if err := json.Unmarshal([]byte(line), &v); err != nil {
			return nil, fmt.Errorf("decode %q: %w", line, err)
		}
		out = append(out, v)
	}
	return out, sc.Err()
}

// Out is a concurrency-safe ndjson writer.
type Out struct {
	mu sync.Mutex
	f  *os.File
	w  *bufio.Writer
}

func NewOut(path string) (*Out, error) {
	f, err := os.Create(path)
	if err != nil {
		return nil, err
	}
	return &Out{f: f, w: bufio.NewWriterSize(f, 1<<20)}, nil
}

func (o *Out) Emit(v any) {
	b, err := json.Marshal(v)
	if err != nil {
		panic(err)
	}
	o.mu.Lock()
	o.w.Write(b)
	o.w.WriteByte('\n')
	o.mu.Unlock()
}

func (o *Out) Close() {
	o.mu.Lock()
	o.w.Flush()
	o.f.Close()
	o.mu.Unlock()
}

// Safely runs f and converts a panic into (true, message).
func Safely(f func()) (panicked bool, msg string) {
	defer func() {
		if r := recover(); r != nil {
			panicked = true
			msg = fmt.Sprint(r)
			st := string(debug.Stack())
			// keep the first gnark frame for the signature
			for _, l := range strings.Split(st, "\n") {
				if strings.Contains(l, "consensys/gnark") && strings.Contains(l, ".go:") {
					msg += " @ " + strings.TrimSpace(l)
					break
				}
			}
		}
	}()
	f()
	return
}

// CurveOps is what each generated per-curve package registers.
type CurveOps struct {
	Name string
	Cmds map[string]func(args Args, out *Out) error
}

var (
	regMu  sync.Mutex
	curves = map[string]*CurveOps{}
)

func Register(c *CurveOps) {
	regMu.Lock()
	defer regMu.Unlock()
	curves[c.Name] = c
}

func Curve(name string) *CurveOps { return curves[name] }

func CurveNames() []string {
	var r []string
	for k := range curves {
		r = append(r, k)
	}
	sort.Strings(r)
	return r
}

// ParallelFor runs f(i) for i in [0,n) on w workers.
func ParallelFor(n, w int, f func(i int)) {
	if w < 1 {
		w = 1
	}
	var wg sync.WaitGroup
	ch := make(chan int, n)
	for i := 0; i < n; i++ {
		ch <- i
	}
	close(ch)
	for k := 0; k < w; k++ {
		wg.Add(1)
		go func() {
			defer wg.Done()
			for i := range ch {
				f(i)
			}
		}()
	}
	wg.Wait()
}
