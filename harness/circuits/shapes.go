// Package circuits defines the circuit corpus the harness compiles through the public frontend API.
package circuits

import (
	"fmt"

	"github.com/consensys/gnark/frontend"
)

// ShapeCircuit is a family of small circuits indexed by Kind (see Define).
// X are public inputs, Y secret inputs.
type ShapeCircuit struct {
	X    []frontend.Variable `gnark:",public"`
	Y    []frontend.Variable
	Kind string `gnark:"-"`
}

// ShapeInfo is the abstract description the TLA+ protocol specs use.
type ShapeInfo struct {
	Name     string
	NbPub    int
	NbSec    int
	NbCommit int
	// BoundG16[i]: public input i is used by a constraint or committed (Groth16 binds only those).
	BoundG16 []bool
}

var Shapes = map[string]ShapeInfo{
	"p1":   {"p1", 1, 2, 0, []bool{true}},
	"p2u":  {"p2u", 2, 2, 0, []bool{true, false}},
	"c1s":  {"c1s", 1, 2, 1, []bool{true}},
	"c1p":  {"c1p", 2, 2, 1, []bool{true, true}},
	"c1po": {"c1po", 2, 2, 1, []bool{true, true}},
	"c2":   {"c2", 2, 2, 2, []bool{true, true}},
	"c2i":  {"c2i", 1, 2, 2, []bool{true}},
	"c3":   {"c3", 2, 2, 3, []bool{true, true}},
	// c3r re-commits an internal variable that an earlier commitment already holds (the builder
	// must commit to that commitment instead) after another commitment wire precedes it
	"c3r": {"c3r", 2, 2, 3, []bool{true, true}},
	// c4b: four commitments where later ones refer back to earlier commitments out of order
	"c4b": {"c4b", 2, 2, 4, []bool{true, true}},
	// p1z / p3z: public inputs equal to zero (p3z: three public inputs, the last one zero) - exceptional scalars for
	// the public-input multi-scalar multiplication of the in-circuit verifiers (C17)
	"p1z": {"p1z", 1, 2, 0, []bool{true}},
	"p3z": {"p3z", 3, 2, 0, []bool{true, true, true}},
	// pub2 has no secret input at all: X0*X0 == X1
	"pub2": {"pub2", 2, 0, 0, []bool{true, true}},
}

func init() {
	// p1x<k>: p1 with k extra multiplication constraints, so that nbPublic+nbConstraints sweeps over
	// sizes below, at and above a power of two (domain-size / padding edge cases)
	for k := 0; k < 8; k++ {
		n := fmt.Sprintf("p1x%d", k)
		Shapes[n] = ShapeInfo{n, 1, 2, 0, []bool{true}}
	}
}

func ShapeNames() []string {
	return []string{"p1", "p2u", "c1s", "c1p", "c1po", "c2", "c2i", "c3", "c3r", "c4b"}
}

func NewShape(kind string) *ShapeCircuit {
	base := kind
	if len(kind) > 4 && kind[len(kind)-4:] == "_alt" {
		base = kind[:len(kind)-4]
	}
	s, ok := Shapes[base]
	if !ok {
		panic("unknown shape " + kind)
	}
	return &ShapeCircuit{X: make([]frontend.Variable, s.NbPub), Y: make([]frontend.Variable, s.NbSec), Kind: kind}
}

// AssignShape returns a satisfying assignment (variant selects the values).
// The "_alt" circuits have a different relation and are not satisfied by these.
func AssignShape(kind string, variant int) *ShapeCircuit {
	c := NewShape(kind)
	y0 := 3 + variant
	base := kind
	if len(kind) > 4 && kind[len(kind)-4:] == "_alt" {
		base = kind[:len(kind)-4]
	}
	if base == "p1z" {
		c.Y[0], c.Y[1], c.X[0] = 0, 5+2*variant, 0
		return c
	}
	if base == "p3z" {
		c.Y[0], c.Y[1] = y0, 5+2*variant
		c.X[0], c.X[1], c.X[2] = y0*y0, 12+7*variant, 0
		return c
	}
	if len(c.Y) == 0 {
		c.X[0] = y0
		c.X[1] = y0 * y0
		return c
	}
	c.Y[0] = y0
	c.Y[1] = 5 + 2*variant
	c.X[0] = y0 * y0
	for i := 1; i < len(c.X); i++ {
		c.X[i] = 11 + i + 7*variant
	}
	return c
}

func (c *ShapeCircuit) Define(api frontend.API) error {
	kind := c.Kind
	alt := false
	if len(kind) > 4 && kind[len(kind)-4:] == "_alt" {
		alt = true
		kind = kind[:len(kind)-4]
	}
	if kind == "pub2" {
		api.AssertIsEqual(api.Mul(c.X[0], c.X[0]), c.X[1])
		return nil
	}
	sq := api.Mul(c.Y[0], c.Y[0])
	if alt {
		// different relation, same public/commitment layout: X0 + 1 == Y0*Y0 + 1*Y1 - Y1 ... use X0 == Y0*Y0*Y0
		sq = api.Mul(sq, c.Y[0])
	}
	api.AssertIsEqual(sq, c.X[0])
	api.AssertIsDifferent(c.Y[1], 0)
	commit := func(vs ...frontend.Variable) (frontend.Variable, error) {
		cm, ok := api.(frontend.Committer)
		if !ok {
			return nil, fmt.Errorf("builder does not support commitments")
		}
		v, err := cm.Commit(vs...)
		if err != nil {
			return nil, err
		}
		api.AssertIsDifferent(v, 0)
		return v, nil
	}
	if len(kind) == 4 && kind[:3] == "p1x" {
		acc := c.Y[1]
		for k := 0; k < int(kind[3]-'0'); k++ {
			acc = api.Mul(acc, c.Y[1])
		}
		api.AssertIsDifferent(acc, 0)
		return nil
	}
	switch kind {
	case "p1", "p2u", "p1z":
	case "p3z":
		api.AssertIsEqual(api.Mul(c.X[1], c.X[2]), c.X[2])
	case "c1s":
		if _, err := commit(c.Y[0]); err != nil {
			return err
		}
	case "c1p":
		if _, err := commit(c.X[1], c.Y[0], c.Y[1]); err != nil {
			return err
		}
	case "c1po":
		if _, err := commit(c.X[1]); err != nil {
			return err
		}
	case "c2":
		c1, err := commit(c.Y[0])
		if err != nil {
			return err
		}
		if _, err := commit(c.X[1], c1, c.Y[1]); err != nil {
			return err
		}
	case "c2i":
		if _, err := commit(c.Y[0]); err != nil {
			return err
		}
		if _, err := commit(c.Y[1]); err != nil {
			return err
		}
	case "c3":
		c1, err := commit(c.Y[0], c.X[1])
		if err != nil {
			return err
		}
		c2, err := commit(c.Y[1])
		if err != nil {
			return err
		}
		t := api.Mul(c1, c2)
		if _, err := commit(t, c.X[0]); err != nil {
			return err
		}
	case "c4b":
		c0, err := commit(c.Y[0])
		if err != nil {
			return err
		}
		c1, err := commit(c.Y[1])
		if err != nil {
			return err
		}
		if _, err := commit(c.X[1], c1); err != nil {
			return err
		}
		if _, err := commit(api.Mul(c.Y[0], c.Y[1]), c0); err != nil {
			return err
		}
	case "c3r":
		if _, err := commit(c.Y[0]); err != nil {
			return err
		}
		t := api.Mul(c.Y[0], c.Y[1])
		if _, err := commit(t); err != nil {
			return err
		}
		if _, err := commit(t, c.X[1]); err != nil {
			return err
		}
	default:
		return fmt.Errorf("unknown kind %q", kind)
	}
	return nil
}
