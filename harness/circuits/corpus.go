package circuits

import (
	"fmt"
	"math/big"

	"github.com/consensys/gnark/constraint/solver"
	"github.com/consensys/gnark/frontend"
	"github.com/consensys/gnark/std/gkr"
	"github.com/consensys/gnark/std/hash/mimc"
	"github.com/consensys/gnark/std/lookup/logderivlookup"
	"github.com/consensys/gnark/std/math/bits"
	"github.com/consensys/gnark/std/math/cmp"
	"github.com/consensys/gnark/std/math/emulated"
	"github.com/consensys/gnark/std/multicommit"
	"github.com/consensys/gnark/std/rangecheck"
	"github.com/consensys/gnark/std/selector"
)

// Corpus circuits exercise one feature family each through the public API. Every circuit has
// public inputs P, secret inputs S and a Kind; Assign(kind, variant) yields a satisfying assignment.
type Corpus struct {
	P    []frontend.Variable `gnark:",public"`
	S    []frontend.Variable
	Kind string `gnark:"-"`
	// N scales the "wide" circuits
	N int `gnark:"-"`
}

type CorpusInfo struct {
	Name     string
	NbPub    int
	NbSec    int
	Commits  bool // uses commitments (needs a backend-aware solver for placeholder hints)
	SCSOnly  bool
	R1CSOnly bool
	Small    bool // compiles over the small fields (no curve-specific hash / commitment needed)
	Gkr      bool // delegates a computation to GKR: needs the hash GkrHashName registered for the curve (only some commands do)
	Many     bool // cheap circuit whose compilation involves a cost tie: compiled many more times by the determinism recorder
}

var CorpusList = []CorpusInfo{
	{Name: "arith", Small: true, NbPub: 2, NbSec: 3},
	{Name: "hint", Small: true, NbPub: 1, NbSec: 2},
	{Name: "lookup", NbPub: 1, NbSec: 4},
	{Name: "lookup2", NbPub: 1, NbSec: 4},
	{Name: "range", NbPub: 1, NbSec: 3},
	{Name: "commit", NbPub: 2, NbSec: 2, Commits: true},
	{Name: "emul", NbPub: 1, NbSec: 2},
	{Name: "defer", NbPub: 1, NbSec: 3, Commits: true},
	{Name: "mimc", NbPub: 1, NbSec: 2},
	{Name: "logs", Small: true, NbPub: 1, NbSec: 2},
	{Name: "wide", Small: true, NbPub: 1, NbSec: 1},
	{Name: "wirequery", Small: true, NbPub: 2, NbSec: 5, SCSOnly: true},
	{Name: "selector", Small: true, NbPub: 1, NbSec: 4},
	{Name: "wide2", NbPub: 2, NbSec: 1},
	{Name: "wirequery2", Small: true, NbPub: 2, NbSec: 5, SCSOnly: true},
	{Name: "rangetie3", NbPub: 1, NbSec: 4, Commits: true, Many: true},
	{Name: "rangetie4", NbPub: 1, NbSec: 4, Commits: true, Many: true},
	{Name: "hintdyn", Small: true, NbPub: 2, NbSec: 1},
	{Name: "hintlazy", Small: true, NbPub: 1, NbSec: 1},
	{Name: "gkr", NbPub: 1, NbSec: 4, Commits: true, Gkr: true},
}

// GkrHashName is the Fiat-Shamir hash the "gkr" corpus circuit asks for; the curve packages register it (c19Register).
const GkrHashName = "verif-mimc"

func CorpusByName(name string) CorpusInfo {
	for _, c := range CorpusList {
		if c.Name == name {
			return c
		}
	}
	panic("unknown corpus circuit " + name)
}

func NewCorpus(kind string) *Corpus {
	ci := CorpusByName(kind)
	return &Corpus{P: make([]frontend.Variable, ci.NbPub), S: make([]frontend.Variable, ci.NbSec), Kind: kind, N: 600}
}

func init() {
	solver.RegisterHint(VerifInvHint, VerifSqrtishHint, LazyInvHint)
}

// DynHint returns a hint closure computing in[0]+k. All closures share one hint id (it is derived from
// the function name), so a solve must use exactly the closure handed to it through solver.WithHints.
//
//go:noinline
func DynHint(k int64) solver.Hint {
	return func(m *big.Int, in, out []*big.Int) error {
		out[0].Add(in[0], big.NewInt(k)).Mod(out[0], m)
		return nil
	}
}

// LazyInvHint writes the inverse of a non-zero input and leaves the (initialised) output untouched for 0.
func LazyInvHint(m *big.Int, in, out []*big.Int) error {
	if in[0].Sign() != 0 {
		out[0].ModInverse(in[0], m)
	}
	return nil
}

// VerifInvHint returns the modular inverse of its input (0 for 0).
func VerifInvHint(m *big.Int, in, out []*big.Int) error {
	if in[0].Sign() == 0 {
		out[0].SetUint64(0)
		return nil
	}
	out[0].ModInverse(in[0], m)
	return nil
}

// VerifSqrtishHint returns in[0]+in[1] and in[0]*in[1] mod m.
func VerifSqrtishHint(m *big.Int, in, out []*big.Int) error {
	out[0].Add(in[0], in[1]).Mod(out[0], m)
	out[1].Mul(in[0], in[1]).Mod(out[1], m)
	return nil
}

// small deterministic value source
func val(kind string, variant, i int) int64 {
	return int64(3 + 7*variant + 5*i + len(kind))
}

// AssignCorpus returns a satisfying assignment. The public outputs are computed here with big.Int
// over the given modulus, mirroring what Define constrains.
func AssignCorpus(kind string, variant int, mod *big.Int) *Corpus {
	return AssignCorpusN(kind, variant, mod, 0)
}

// AssignCorpusN is AssignCorpus for a circuit scaled to n (only "wide" uses it; 0 = default).
func AssignCorpusN(kind string, variant int, mod *big.Int, n int) *Corpus {
	c := NewCorpus(kind)
	if n > 0 {
		c.N = n
	}
	s := make([]*big.Int, len(c.S))
	for i := range c.S {
		s[i] = big.NewInt(val(kind, variant, i))
		c.S[i] = new(big.Int).Set(s[i])
	}
	red := func(x *big.Int) *big.Int { return x.Mod(x, mod) }
	mul := func(a, b *big.Int) *big.Int { return red(new(big.Int).Mul(a, b)) }
	add := func(a, b *big.Int) *big.Int { return red(new(big.Int).Add(a, b)) }
	switch kind {
	case "arith":
		// P0 = (S0*S1 + S2) * S0 ; P1 = S0 < S1 ? 1 : 0 (+ bits of S2)
		c.P[0] = mul(add(mul(s[0], s[1]), s[2]), s[0])
		if s[0].Cmp(s[1]) < 0 {
			c.P[1] = 1
		} else {
			c.P[1] = 0
		}
	case "hint":
		// P0 = S0 + S1 + S0*S1
		c.P[0] = add(add(s[0], s[1]), mul(s[0], s[1]))
	case "lookup", "lookup2":
		// table: t[i] = S[i] (i<3) plus t[3] = S0+S1, t[4] = S1*S2 ; idx = S3 mod 5 ; P0 = t[idx] + t[(idx+1)%5]
		idx := int64(variant % 5)
		c.S[3] = idx
		t := []*big.Int{s[0], s[1], s[2], add(s[0], s[1]), mul(s[1], s[2])}
		c.P[0] = add(t[idx], t[(idx+1)%5])
	case "range":
		// S0 < 2^7, S1 < 2^13, S2 < 2^3 ; P0 = S0+S1+S2
		c.S[0] = int64(100 + variant%20)
		c.S[1] = int64(8000 + variant)
		c.S[2] = int64(variant % 8)
		c.P[0] = int64(100+variant%20) + int64(8000+variant) + int64(variant%8)
	case "commit":
		c.P[0] = mul(s[0], s[0])
		c.P[1] = big.NewInt(val(kind, variant, 9))
	case "emul":
		// P0 = low limb check of (S0*S1 mod q) is done in-circuit against recomputation; P0 = S0+S1
		c.P[0] = add(s[0], s[1])
	case "defer":
		c.S[0] = int64(50 + variant%50)
		c.S[1] = int64(variant % 4)
		c.S[2] = int64(7 + variant)
		c.P[0] = int64(50+variant%50) + int64(variant%4)
	case "mimc":
		c.P[0] = 0 // filled by caller through the test engine? no: constrain P0 = S0+S1, digest only asserted non-zero
		c.P[0] = add(s[0], s[1])
	case "gkr":
		c.P[0] = add(mul(s[0], s[2]), mul(s[1], s[3]))
	case "logs":
		c.P[0] = mul(s[0], s[1])
	case "wide":
		// P0 = sum_i (S0+i)^2
		acc := big.NewInt(0)
		for i := 0; i < c.N; i++ {
			t := add(s[0], big.NewInt(int64(i)))
			acc = add(acc, mul(t, t))
		}
		c.P[0] = acc
	case "wirequery":
		c.P[0] = mul(s[0], s[1])
		c.P[1] = big.NewInt(val(kind, variant, 11))
	case "wide2":
		// N inverses in one level: S0+i must differ from P1 for all i; P0 = S0
		c.P[0] = new(big.Int).Set(s[0])
		c.P[1] = red(new(big.Int).Sub(s[0], big.NewInt(5)))
	case "hintdyn":
		// P1 = k (the closure parameter the solve has to use), P0 = S0 + k
		c.P[1] = int64(variant + 1)
		c.P[0] = add(s[0], big.NewInt(int64(variant+1)))
	case "hintlazy":
		// odd variants: S0 = 0 (P0 = 1: "is zero"); even variants: S0 != 0 (P0 = 0)
		if variant%2 == 1 {
			c.S[0] = 0
			c.P[0] = 1
		} else {
			c.P[0] = 0
		}
	case "wirequery2":
		c.P[0] = mul(s[0], s[1])
		c.P[1] = big.NewInt(val(kind, variant, 11))
	case "rangetie3", "rangetie4":
		for i := range c.S {
			c.S[i] = int64((variant*7 + i*5) % 64)
		}
		c.P[0] = int64((variant*7)%64 + (variant*7+5)%64)
	case "selector":
		// S3 = index in 0..2 ; P0 = S[S3]
		idx := int64(variant % 3)
		c.S[3] = idx
		c.P[0] = new(big.Int).Set(s[idx])
	default:
		panic("unknown corpus kind " + kind)
	}
	return c
}

func (c *Corpus) Define(api frontend.API) error {
	P, S := c.P, c.S
	switch c.Kind {
	case "arith":
		t := api.Mul(api.Add(api.Mul(S[0], S[1]), S[2]), S[0])
		api.AssertIsEqual(t, P[0])
		lt := cmp.IsLess(api, S[0], S[1])
		api.AssertIsEqual(lt, P[1])
		bs := bits.ToBinary(api, S[2], bits.WithNbDigits(16))
		api.AssertIsEqual(bits.FromBinary(api, bs), S[2])
		q := api.Div(t, S[0])
		api.AssertIsEqual(q, api.Add(api.Mul(S[0], S[1]), S[2]))
		api.AssertIsEqual(api.Select(lt, S[0], S[1]), api.Select(api.Sub(1, lt), S[1], S[0]))
	case "hint":
		inv, err := api.Compiler().NewHint(VerifInvHint, 1, S[0])
		if err != nil {
			return err
		}
		api.AssertIsEqual(api.Mul(inv[0], S[0]), 1)
		sp, err := api.Compiler().NewHint(VerifSqrtishHint, 2, S[0], S[1])
		if err != nil {
			return err
		}
		api.AssertIsEqual(sp[0], api.Add(S[0], S[1]))
		api.AssertIsEqual(sp[1], api.Mul(S[0], S[1]))
		api.AssertIsEqual(api.Add(sp[0], sp[1]), P[0])
	case "lookup", "lookup2":
		t := logderivlookup.New(api)
		t.Insert(S[0])
		t.Insert(S[1])
		t.Insert(S[2])
		if c.Kind == "lookup2" {
			// query while the table is still growing
			r0 := t.Lookup(0)
			api.AssertIsEqual(r0[0], S[0])
		}
		t.Insert(api.Add(S[0], S[1]))
		t.Insert(api.Mul(S[1], S[2]))
		idx := S[3]
		next := api.Select(api.IsZero(api.Sub(idx, 4)), 0, api.Add(idx, 1))
		r := t.Lookup(idx, next)
		api.AssertIsEqual(api.Add(r[0], r[1]), P[0])
	case "range":
		rc := rangecheck.New(api)
		rc.Check(S[0], 7)
		rc.Check(S[1], 13)
		rc.Check(S[2], 3)
		api.AssertIsEqual(api.Add(S[0], S[1], S[2]), P[0])
	case "commit":
		api.AssertIsEqual(api.Mul(S[0], S[0]), P[0])
		cm, ok := api.(frontend.Committer)
		if !ok {
			return fmt.Errorf("no committer")
		}
		c1, err := cm.Commit(S[0], P[1])
		if err != nil {
			return err
		}
		c2, err := cm.Commit(S[1], c1)
		if err != nil {
			return err
		}
		api.AssertIsDifferent(c1, c2)
	case "emul":
		f, err := emulated.NewField[emulated.Secp256k1Fp](api)
		if err != nil {
			return err
		}
		a := f.NewElement([]frontend.Variable{S[0], 0, 0, 0})
		b := f.NewElement([]frontend.Variable{S[1], 0, 0, 0})
		ab := f.Mul(a, b)
		ba := f.Mul(b, a)
		f.AssertIsEqual(ab, ba)
		s := f.Add(a, b)
		d := f.Sub(s, b)
		f.AssertIsEqual(d, a)
		// a long addition chain: the overflow bookkeeping has to insert reductions, at a point that
		// depends on the native field's size
		acc := a
		for i := 0; i < 340; i++ {
			acc = f.Add(acc, b)
		}
		f.AssertIsEqual(acc, f.Add(a, f.MulConst(b, big.NewInt(340))))
		api.AssertIsEqual(api.Add(S[0], S[1]), P[0])
	case "defer":
		rc := rangecheck.New(api)
		rc.Check(S[0], 8)
		t := logderivlookup.New(api)
		for i := 0; i < 4; i++ {
			t.Insert(api.Add(S[2], i))
		}
		r := t.Lookup(S[1])
		api.AssertIsEqual(r[0], api.Add(S[2], S[1]))
		multicommit.WithCommitment(api, func(api frontend.API, commitment frontend.Variable) error {
			api.AssertIsDifferent(commitment, 0)
			return nil
		}, S[0], S[2])
		api.AssertIsEqual(api.Add(S[0], S[1]), P[0])
	case "mimc":
		h, err := mimc.NewMiMC(api)
		if err != nil {
			return err
		}
		h.Write(S[0], S[1])
		d := h.Sum()
		api.AssertIsDifferent(d, 0)
		api.AssertIsEqual(api.Add(S[0], S[1]), P[0])
	case "gkr":
		// two instances of x*y delegated to GKR; the sum of the exported products is public
		g := gkr.NewApi()
		x, err := g.Import([]frontend.Variable{S[0], S[1]})
		if err != nil {
			return err
		}
		y, err := g.Import([]frontend.Variable{S[2], S[3]})
		if err != nil {
			return err
		}
		z := g.Mul(x, y)
		sol, err := g.Solve(api)
		if err != nil {
			return err
		}
		vals := sol.Export(z)
		api.AssertIsEqual(api.Add(vals[0], vals[1]), P[0])
		return sol.Verify(GkrHashName)
	case "logs":
		m := api.Mul(S[0], S[1])
		api.Println("product", m, "of", S[0], S[1])
		api.AssertIsEqual(m, P[0])
	case "wide":
		var acc frontend.Variable = 0
		terms := make([]frontend.Variable, c.N)
		for i := 0; i < c.N; i++ {
			t := api.Add(S[0], i)
			terms[i] = api.Mul(t, t)
		}
		for i := range terms {
			acc = api.Add(acc, terms[i])
		}
		api.AssertIsEqual(acc, P[0])
	case "wirequery":
		api.AssertIsEqual(api.Mul(S[0], S[1]), P[0])
		type wq interface {
			GetWireConstraints(wires []frontend.Variable, addMissing bool) ([][2]int, error)
		}
		q, ok := api.Compiler().(wq)
		if !ok {
			return fmt.Errorf("builder has no wire query interface")
		}
		// S[2], S[3], S[4], P[1] are used by no constraint: addMissing has to create placeholders
		if _, err := q.GetWireConstraints([]frontend.Variable{S[4], S[2], P[1], S[3], S[0]}, true); err != nil {
			return err
		}
	case "wide2":
		api.AssertIsEqual(S[0], P[0])
		for i := 0; i < c.N; i++ {
			api.AssertIsDifferent(api.Add(S[0], i), P[1])
		}
	case "hintdyn":
		out, err := api.Compiler().NewHint(DynHint(0), 1, S[0])
		if err != nil {
			return err
		}
		api.AssertIsEqual(out[0], api.Add(S[0], P[1]))
		api.AssertIsEqual(out[0], P[0])
	case "hintlazy":
		out, err := api.Compiler().NewHint(LazyInvHint, 1, S[0])
		if err != nil {
			return err
		}
		api.AssertIsEqual(api.Mul(out[0], S[0]), api.Sub(1, P[0]))
		api.AssertIsEqual(api.Mul(out[0], P[0]), 0)
	case "wirequery2":
		api.AssertIsEqual(api.Mul(S[0], S[1]), P[0])
		type wqe interface {
			GetWiresConstraintExact(wires []frontend.Variable, addMissing bool) ([][2]int, error)
		}
		q, ok := api.Compiler().(wqe)
		if !ok {
			return fmt.Errorf("builder has no exact wire query interface")
		}
		// repeated wires, unconstrained wires and several distinct constants
		if _, err := q.GetWiresConstraintExact([]frontend.Variable{S[4], 7, S[2], 3, P[1], 11, S[3], 7, S[0], 5, S[2]}, true); err != nil {
			return err
		}
	case "rangetie3", "rangetie4":
		// several checks of one small width: candidate limb widths tie in cost
		rc := rangecheck.New(api)
		n := 3
		if c.Kind == "rangetie4" {
			n = 4
		}
		for i := 0; i < n; i++ {
			rc.Check(S[i], 6)
		}
		api.AssertIsEqual(api.Add(S[0], S[1]), P[0])
	case "selector":
		v := selector.Mux(api, S[3], S[0], S[1], S[2])
		api.AssertIsEqual(v, P[0])
	default:
		return fmt.Errorf("unknown corpus kind %q", c.Kind)
	}
	return nil
}
