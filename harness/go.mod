module verifharness

go 1.23.0

require (
	github.com/consensys/gnark v0.0.0
	github.com/consensys/gnark-crypto v0.17.1-0.20250415081852-c838dcdfa844
	golang.org/x/crypto v0.35.0
	golang.org/x/tools v0.29.0
)

require (
	github.com/bits-and-blooms/bitset v1.20.0 // indirect
	github.com/blang/semver/v4 v4.0.0 // indirect
	github.com/consensys/bavard v0.1.31-0.20250406004941-2db259e4b582 // indirect
	github.com/davecgh/go-spew v1.1.1 // indirect
	github.com/fxamacker/cbor/v2 v2.7.0 // indirect
	github.com/google/pprof v0.0.0-20240727154555-813a5fbdbec8 // indirect
	github.com/mattn/go-colorable v0.1.13 // indirect
	github.com/mattn/go-isatty v0.0.20 // indirect
	github.com/mmcloughlin/addchain v0.4.0 // indirect
	github.com/pmezard/go-difflib v1.0.0 // indirect
	github.com/ronanh/intcomp v1.1.0 // indirect
	github.com/rs/zerolog v1.33.0 // indirect
	github.com/stretchr/testify v1.10.0 // indirect
	github.com/x448/float16 v0.8.4 // indirect
	golang.org/x/exp v0.0.0-20240823005443-9b4947da3948 // indirect
	golang.org/x/mod v0.22.0 // indirect
	golang.org/x/sync v0.11.0 // indirect
	golang.org/x/sys v0.30.0 // indirect
	gopkg.in/yaml.v3 v3.0.1 // indirect
	rsc.io/tmplfunc v0.0.3 // indirect
)

replace github.com/consensys/gnark => /repo
