// Package rec replays edited (proof, verifying key, public witness) triples - behaviours of specs/Groth16Protocol.tla and
// specs/PlonkProtocol.tla produced by the BLS12-377 curve package - on the in-circuit verifiers of std/recursion/groth16 and
// std/recursion/plonk over BW6-761, in the configurations enumerated by specs/Recursion.tla (C17).
package rec

import (
	"fmt"
	"sync"

	"github.com/consensys/gnark-crypto/ecc"
	"github.com/consensys/gnark/backend/groth16"
	"github.com/consensys/gnark/backend/plonk"
	"github.com/consensys/gnark/backend/witness"
	"github.com/consensys/gnark/constraint"
	"github.com/consensys/gnark/frontend"
	"github.com/consensys/gnark/std/algebra/native/sw_bls12377"
	stdgroth16 "github.com/consensys/gnark/std/recursion/groth16"
	stdplonk "github.com/consensys/gnark/std/recursion/plonk"
	"github.com/consensys/gnark/test"

	"verifharness/common"
	c377 "verifharness/curves/bls12-377"
)

type (
	g1 = sw_bls12377.G1Affine
	g2 = sw_bls12377.G2Affine
	gt = sw_bls12377.GT
	fr = sw_bls12377.ScalarField
)

// RecBeh is an inner behaviour together with a configuration of specs/Recursion.tla.
type RecBeh struct {
	c377.Behaviour
	Backend string `json:"backend"` // groth16 | plonk
	Mode    string `json:"mode"`    // witness | fixed | switch | same
	Pos     int    `json:"pos"`     // switch: position of the behaviour's key among the candidate keys
	Idx     int    `json:"idx"`     // switch: selector given to the circuit
	NKeys   int    `json:"nkeys"`   // switch: number of candidate keys (1 or 2)
	Arith   string `json:"arith"`   // complete | incomplete
}

// ---------------------------------------------------------------- Groth16 outer circuits

type g16Outer struct {
	Proof        stdgroth16.Proof[g1, g2]
	VerifyingKey stdgroth16.VerifyingKey[g1, g2, gt]
	InnerWitness stdgroth16.Witness[fr]
	complete     bool `gnark:"-"`
}

func g16Opts(complete bool) []stdgroth16.VerifierOption {
	// the native verifier checks subgroup membership and handles the point at infinity: matching options
	if complete {
		return []stdgroth16.VerifierOption{stdgroth16.WithCompleteArithmetic(), stdgroth16.WithSubgroupCheck()}
	}
	return []stdgroth16.VerifierOption{stdgroth16.WithSubgroupCheck()}
}

func (c *g16Outer) Define(api frontend.API) error {
	v, err := stdgroth16.NewVerifier[fr, g1, g2, gt](api)
	if err != nil {
		return err
	}
	return v.AssertProof(c.VerifyingKey, c.Proof, c.InnerWitness, g16Opts(c.complete)...)
}

// the verifying key is a constant of the circuit
type g16OuterFixed struct {
	Proof        stdgroth16.Proof[g1, g2]
	vk           stdgroth16.VerifyingKey[g1, g2, gt] `gnark:"-"`
	InnerWitness stdgroth16.Witness[fr]
	complete     bool `gnark:"-"`
}

func (c *g16OuterFixed) Define(api frontend.API) error {
	v, err := stdgroth16.NewVerifier[fr, g1, g2, gt](api)
	if err != nil {
		return err
	}
	return v.AssertProof(c.vk, c.Proof, c.InnerWitness, g16Opts(c.complete)...)
}

// the verifying key is selected among candidates by a circuit variable
type g16OuterSwitch struct {
	Proof        stdgroth16.Proof[g1, g2]
	Keys         []stdgroth16.VerifyingKey[g1, g2, gt]
	Idx          frontend.Variable
	InnerWitness stdgroth16.Witness[fr]
	complete     bool `gnark:"-"`
}

func (c *g16OuterSwitch) Define(api frontend.API) error {
	v, err := stdgroth16.NewVerifier[fr, g1, g2, gt](api)
	if err != nil {
		return err
	}
	vk, err := v.SwitchVerificationKey(c.Idx, c.Keys)
	if err != nil {
		return err
	}
	return v.AssertProof(vk, c.Proof, c.InnerWitness, g16Opts(c.complete)...)
}

// ---------------------------------------------------------------- PLONK outer circuits

type plOuter struct {
	Proof        stdplonk.Proof[fr, g1, g2]
	VerifyingKey stdplonk.VerifyingKey[fr, g1, g2]
	InnerWitness stdplonk.Witness[fr]
	complete     bool `gnark:"-"`
}

func plOpts(complete bool) []stdplonk.VerifierOption {
	if complete {
		return []stdplonk.VerifierOption{stdplonk.WithCompleteArithmetic()}
	}
	return nil
}

func (c *plOuter) Define(api frontend.API) error {
	v, err := stdplonk.NewVerifier[fr, g1, g2, gt](api)
	if err != nil {
		return err
	}
	return v.AssertProof(c.VerifyingKey, c.Proof, c.InnerWitness, plOpts(c.complete)...)
}

type plOuterFixed struct {
	Proof        stdplonk.Proof[fr, g1, g2]
	vk           stdplonk.VerifyingKey[fr, g1, g2] `gnark:"-"`
	InnerWitness stdplonk.Witness[fr]
	complete     bool `gnark:"-"`
}

func (c *plOuterFixed) Define(api frontend.API) error {
	v, err := stdplonk.NewVerifier[fr, g1, g2, gt](api)
	if err != nil {
		return err
	}
	return v.AssertProof(c.vk, c.Proof, c.InnerWitness, plOpts(c.complete)...)
}

type plOuterSwitch struct {
	Proof        stdplonk.Proof[fr, g1, g2]
	Base         stdplonk.BaseVerifyingKey[fr, g1, g2]
	Keys         []stdplonk.CircuitVerifyingKey[fr, g1]
	Idx          frontend.Variable
	InnerWitness stdplonk.Witness[fr]
	complete     bool `gnark:"-"`
}

func (c *plOuterSwitch) Define(api frontend.API) error {
	v, err := stdplonk.NewVerifier[fr, g1, g2, gt](api)
	if err != nil {
		return err
	}
	return v.AssertDifferentProofs(c.Base, c.Keys, []frontend.Variable{c.Idx},
		[]stdplonk.Proof[fr, g1, g2]{c.Proof}, []stdplonk.Witness[fr]{c.InnerWitness}, plOpts(c.complete)...)
}

// two proofs against one key, batched (AssertSameProofs): the edited triple and a genuine one
type plOuterSame struct {
	Proofs       []stdplonk.Proof[fr, g1, g2]
	VerifyingKey stdplonk.VerifyingKey[fr, g1, g2]
	Witnesses    []stdplonk.Witness[fr]
	complete     bool `gnark:"-"`
}

func (c *plOuterSame) Define(api frontend.API) error {
	v, err := stdplonk.NewVerifier[fr, g1, g2, gt](api)
	if err != nil {
		return err
	}
	return v.AssertSameProofs(c.VerifyingKey, c.Proofs, c.Witnesses, plOpts(c.complete)...)
}

// ----------------------------------------------------------------

type Res struct {
	ID       int    `json:"id"`
	Native   string `json:"native"`  // verdict of the native verifier on the triple the circuit is asked to verify
	Circuit  string `json:"circuit"` // accept | reject | unassignable | unsupported | skip
	Err      string `json:"err,omitempty"`
	NativeSt string `json:"native_stage,omitempty"`
}

type seen struct {
	ccs    constraint.ConstraintSystem
	g16p   groth16.Proof
	g16vk  groth16.VerifyingKey
	plp    plonk.Proof
	plvk   plonk.VerifyingKey
	pw     witness.Witness
	native string
}

var outerField = ecc.BW6_761.ScalarField()

func verdictOf(err error) string {
	if err == nil {
		return "accept"
	}
	return "reject"
}

// Replay runs every behaviour natively (curve package) and in-circuit.
func Replay(args common.Args, out *common.Out) error {
	behs, err := common.ReadNDJSON[RecBeh](args.Get("in", ""))
	if err != nil {
		return err
	}
	inner := ecc.BLS12_377.ScalarField()
	// native options matching the in-circuit verifiers (hash to field of commitments, Fiat-Shamir and KZG folding hashes)
	c377.G16ProverOpts = append(c377.G16ProverOpts[:0:0], stdgroth16.GetNativeProverOptions(outerField, inner))
	c377.G16VerifierOpts = append(c377.G16VerifierOpts[:0:0], stdgroth16.GetNativeVerifierOptions(outerField, inner))
	c377.PlonkProverOpts = append(c377.PlonkProverOpts[:0:0], stdplonk.GetNativeProverOptions(outerField, inner))
	c377.PlonkVerifierOpts = append(c377.PlonkVerifierOpts[:0:0], stdplonk.GetNativeVerifierOptions(outerField, inner))
	var mu sync.Mutex
	obs := map[int]*seen{}
	c377.G16Observer = func(b *c377.Behaviour, ccs constraint.ConstraintSystem, p groth16.Proof, vk groth16.VerifyingKey, pw witness.Witness, verdict string) {
		mu.Lock()
		obs[b.ID] = &seen{ccs: ccs, g16p: p, g16vk: vk, pw: pw, native: verdict}
		mu.Unlock()
	}
	c377.PlonkObserver = func(b *c377.Behaviour, ccs constraint.ConstraintSystem, p plonk.Proof, vk plonk.VerifyingKey, pw witness.Witness, verdict string) {
		mu.Lock()
		obs[b.ID] = &seen{ccs: ccs, plp: p, plvk: vk, pw: pw, native: verdict}
		mu.Unlock()
	}
	defer func() { c377.G16Observer, c377.PlonkObserver = nil, nil }()
	lookupSeen = func(id int) *seen {
		mu.Lock()
		defer mu.Unlock()
		return obs[id]
	}
	common.ParallelFor(len(behs), args.Int("par", 8), func(i int) {
		b := &behs[i]
		var r c377.Result
		if b.Backend == "plonk" {
			r = c377.PlonkRun(&b.Behaviour)
		} else {
			r = c377.G16Run(&b.Behaviour)
		}
		res := Res{ID: b.ID, Native: r.Verdict, NativeSt: r.Stage}
		defer func() { out.Emit(res) }()
		mu.Lock()
		s := obs[b.ID]
		mu.Unlock()
		if s == nil {
			res.Circuit = "skip" // the edit never reached the verifier (encoding round trips, verifier options, fresh proofs)
			return
		}
		res.Native = s.native
		if b.Backend == "plonk" {
			plonkCircuit(b, s, &res)
		} else {
			g16Circuit(b, s, &res)
		}
	})
	return nil
}

func solve(circuit, assign frontend.Circuit, res *Res) {
	var terr error
	pan, msg := common.Safely(func() { terr = test.IsSolved(circuit, assign, outerField) })
	switch {
	case pan:
		res.Circuit, res.Err = "reject", "panic: "+msg
	case terr != nil:
		res.Circuit, res.Err = "reject", firstLine(terr.Error())
	default:
		res.Circuit = "accept"
	}
}

func g16Circuit(b *RecBeh, s *seen, res *Res) {
	complete := b.Arith != "incomplete"
	if n := len(s.ccs.GetCommitments().(constraint.Groth16Commitments)); n > 1 {
		res.Circuit, res.Err = "unsupported", "more than one commitment"
		return
	}
	if !complete && c377.G16KeyHasInfinity(s.g16vk) {
		res.Circuit, res.Err = "skip", "a public-input base of the key is the point at infinity: outside the domain of incomplete arithmetic"
		return
	}
	var proof stdgroth16.Proof[g1, g2]
	var wit stdgroth16.Witness[fr]
	var e1, e3 error
	pan, msg := common.Safely(func() {
		proof, e1 = stdgroth16.ValueOfProof[g1, g2](s.g16p)
		wit, e3 = stdgroth16.ValueOfWitness[fr](s.pw)
	})
	if pan || e1 != nil || e3 != nil {
		res.Circuit, res.Err = "unassignable", fmt.Sprint(msg, e1, e3)
		return
	}
	switch b.Mode {
	case "", "witness":
		var vk stdgroth16.VerifyingKey[g1, g2, gt]
		var e2 error
		if pan, msg = common.Safely(func() { vk, e2 = stdgroth16.ValueOfVerifyingKey[g1, g2, gt](s.g16vk) }); pan || e2 != nil {
			res.Circuit, res.Err = "unassignable", fmt.Sprint(msg, e2)
			return
		}
		circuit := &g16Outer{
			Proof:        stdgroth16.PlaceholderProof[g1, g2](s.ccs),
			VerifyingKey: stdgroth16.PlaceholderVerifyingKey[g1, g2, gt](s.ccs),
			InnerWitness: stdgroth16.PlaceholderWitness[fr](s.ccs),
			complete:     complete,
		}
		solve(circuit, &g16Outer{Proof: proof, VerifyingKey: vk, InnerWitness: wit}, res)
	case "fixed":
		var vk stdgroth16.VerifyingKey[g1, g2, gt]
		var e2 error
		if pan, msg = common.Safely(func() { vk, e2 = stdgroth16.ValueOfVerifyingKeyFixed[g1, g2, gt](s.g16vk) }); pan || e2 != nil {
			res.Circuit, res.Err = "unassignable", fmt.Sprint(msg, e2)
			return
		}
		circuit := &g16OuterFixed{
			Proof:        stdgroth16.PlaceholderProof[g1, g2](s.ccs),
			vk:           vk,
			InnerWitness: stdgroth16.PlaceholderWitness[fr](s.ccs),
			complete:     complete,
		}
		solve(circuit, &g16OuterFixed{Proof: proof, InnerWitness: wit}, res)
	case "switch":
		keys := []groth16.VerifyingKey{s.g16vk}
		if b.NKeys == 2 {
			alt := c377.G16Alt(b.Shape)
			if alt == nil || alt == s.g16vk {
				res.Circuit = "skip"
				return
			}
			keys = []groth16.VerifyingKey{alt, alt}
			keys[b.Pos] = s.g16vk
		}
		if b.Idx < len(keys) {
			// the oracle: the native verifier on the key the selector designates
			var verr error
			if pan, msg = common.Safely(func() { verr = groth16.Verify(s.g16p, keys[b.Idx], s.pw, c377.G16VerifierOpts...) }); pan {
				res.Native, res.NativeSt = "panic", msg
			} else {
				res.Native = verdictOf(verr)
			}
		} else {
			res.Native = "reject" // a selector outside the candidate keys designates no key
		}
		ph := make([]stdgroth16.VerifyingKey[g1, g2, gt], len(keys))
		vals := make([]stdgroth16.VerifyingKey[g1, g2, gt], len(keys))
		for k := range keys {
			ph[k] = stdgroth16.PlaceholderVerifyingKey[g1, g2, gt](s.ccs)
			var e2 error
			if pan, msg = common.Safely(func() { vals[k], e2 = stdgroth16.ValueOfVerifyingKey[g1, g2, gt](keys[k]) }); pan || e2 != nil {
				res.Circuit, res.Err = "unassignable", fmt.Sprint(msg, e2)
				return
			}
		}
		circuit := &g16OuterSwitch{
			Proof:        stdgroth16.PlaceholderProof[g1, g2](s.ccs),
			Keys:         ph,
			InnerWitness: stdgroth16.PlaceholderWitness[fr](s.ccs),
			complete:     complete,
		}
		solve(circuit, &g16OuterSwitch{Proof: proof, Keys: vals, Idx: b.Idx, InnerWitness: wit}, res)
	default:
		res.Circuit, res.Err = "skip", "mode "+b.Mode
	}
}

func plonkCircuit(b *RecBeh, s *seen, res *Res) {
	complete := b.Arith != "incomplete"
	var proof stdplonk.Proof[fr, g1, g2]
	var wit stdplonk.Witness[fr]
	var e1, e3 error
	pan, msg := common.Safely(func() {
		proof, e1 = stdplonk.ValueOfProof[fr, g1, g2](s.plp)
		wit, e3 = stdplonk.ValueOfWitness[fr](s.pw)
	})
	if pan || e1 != nil || e3 != nil {
		res.Circuit, res.Err = "unassignable", fmt.Sprint(msg, e1, e3)
		return
	}
	switch b.Mode {
	case "", "witness", "fixed":
		var vk stdplonk.VerifyingKey[fr, g1, g2]
		var e2 error
		if pan, msg = common.Safely(func() { vk, e2 = stdplonk.ValueOfVerifyingKey[fr, g1, g2](s.plvk) }); pan || e2 != nil {
			res.Circuit, res.Err = "unassignable", fmt.Sprint(msg, e2)
			return
		}
		if b.Mode == "fixed" {
			circuit := &plOuterFixed{
				Proof:        stdplonk.PlaceholderProof[fr, g1, g2](s.ccs),
				vk:           vk,
				InnerWitness: stdplonk.PlaceholderWitness[fr](s.ccs),
				complete:     complete,
			}
			solve(circuit, &plOuterFixed{Proof: proof, InnerWitness: wit}, res)
			return
		}
		circuit := &plOuter{
			Proof:        stdplonk.PlaceholderProof[fr, g1, g2](s.ccs),
			VerifyingKey: stdplonk.PlaceholderVerifyingKey[fr, g1, g2](s.ccs),
			InnerWitness: stdplonk.PlaceholderWitness[fr](s.ccs),
			complete:     complete,
		}
		solve(circuit, &plOuter{Proof: proof, VerifyingKey: vk, InnerWitness: wit}, res)
	case "switch":
		keys := []plonk.VerifyingKey{s.plvk}
		if b.NKeys == 2 {
			alt := c377.PlonkAlt(b.Shape)
			if alt == nil || alt == s.plvk {
				res.Circuit = "skip"
				return
			}
			keys = []plonk.VerifyingKey{alt, alt}
			keys[b.Pos] = s.plvk
		}
		if b.Idx < len(keys) {
			var verr error
			if pan, msg = common.Safely(func() { verr = plonk.Verify(s.plp, keys[b.Idx], s.pw, c377.PlonkVerifierOpts...) }); pan {
				res.Native, res.NativeSt = "panic", msg
			} else {
				res.Native = verdictOf(verr)
			}
		} else {
			res.Native = "reject"
		}
		var base stdplonk.BaseVerifyingKey[fr, g1, g2]
		var e2 error
		if pan, msg = common.Safely(func() { base, e2 = stdplonk.ValueOfBaseVerifyingKey[fr, g1, g2](s.plvk) }); pan || e2 != nil {
			res.Circuit, res.Err = "unassignable", fmt.Sprint(msg, e2)
			return
		}
		ph := make([]stdplonk.CircuitVerifyingKey[fr, g1], len(keys))
		vals := make([]stdplonk.CircuitVerifyingKey[fr, g1], len(keys))
		for k := range keys {
			ph[k] = stdplonk.PlaceholderCircuitVerifyingKey[fr, g1](s.ccs)
			if pan, msg = common.Safely(func() { vals[k], e2 = stdplonk.ValueOfCircuitVerifyingKey[fr, g1](keys[k]) }); pan || e2 != nil {
				res.Circuit, res.Err = "unassignable", fmt.Sprint(msg, e2)
				return
			}
		}
		circuit := &plOuterSwitch{
			Proof:        stdplonk.PlaceholderProof[fr, g1, g2](s.ccs),
			Base:         stdplonk.PlaceholderBaseVerifyingKey[fr, g1, g2](s.ccs),
			Keys:         ph,
			InnerWitness: stdplonk.PlaceholderWitness[fr](s.ccs),
			complete:     complete,
		}
		solve(circuit, &plOuterSwitch{Proof: proof, Base: base, Keys: vals, Idx: b.Idx, InnerWitness: wit}, res)
	case "same":
		// the edited triple batched with a genuine one: accepted iff both are
		gen := c377.Behaviour{ID: -1 - b.ID, Shape: b.Shape}
		var gs *seen
		func() {
			// the genuine triple of the same key: replay the empty behaviour (the observer is keyed by id)
			r := c377.PlonkRun(&gen)
			_ = r
		}()
		gs = lookupSeen(gen.ID)
		if gs == nil || gs.native != "accept" || gs.plvk != s.plvk {
			res.Circuit = "skip"
			return
		}
		var vk stdplonk.VerifyingKey[fr, g1, g2]
		var gproof stdplonk.Proof[fr, g1, g2]
		var gwit stdplonk.Witness[fr]
		var e2, e4, e5 error
		if pan, msg = common.Safely(func() {
			vk, e2 = stdplonk.ValueOfVerifyingKey[fr, g1, g2](s.plvk)
			gproof, e4 = stdplonk.ValueOfProof[fr, g1, g2](gs.plp)
			gwit, e5 = stdplonk.ValueOfWitness[fr](gs.pw)
		}); pan || e2 != nil || e4 != nil || e5 != nil {
			res.Circuit, res.Err = "unassignable", fmt.Sprint(msg, e2, e4, e5)
			return
		}
		order := func(a, b stdplonk.Proof[fr, g1, g2]) []stdplonk.Proof[fr, g1, g2] {
			return []stdplonk.Proof[fr, g1, g2]{a, b}
		}
		proofs, wits := order(proof, gproof), []stdplonk.Witness[fr]{wit, gwit}
		if b.Pos == 1 {
			proofs, wits = order(gproof, proof), []stdplonk.Witness[fr]{gwit, wit}
		}
		circuit := &plOuterSame{
			Proofs: []stdplonk.Proof[fr, g1, g2]{stdplonk.PlaceholderProof[fr, g1, g2](s.ccs), stdplonk.PlaceholderProof[fr, g1, g2](s.ccs)},
			VerifyingKey: stdplonk.PlaceholderVerifyingKey[fr, g1, g2](s.ccs),
			Witnesses:    []stdplonk.Witness[fr]{stdplonk.PlaceholderWitness[fr](s.ccs), stdplonk.PlaceholderWitness[fr](s.ccs)},
			complete:     complete,
		}
		solve(circuit, &plOuterSame{Proofs: proofs, VerifyingKey: vk, Witnesses: wits}, res)
	default:
		res.Circuit, res.Err = "skip", "mode "+b.Mode
	}
}

var lookupSeen func(id int) *seen

func firstLine(s string) string {
	for i := range s {
		if s[i] == '\n' {
			return s[:i]
		}
	}
	return s
}
