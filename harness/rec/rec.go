// Package rec replays edited Groth16 triples (specs/Groth16Protocol.tla behaviours, produced by the BLS12-377 curve
// package) on the in-circuit verifier of std/recursion/groth16 over BW6-761 (C17).
package rec

import (
	"fmt"
	"sync"

	"github.com/consensys/gnark-crypto/ecc"
	"github.com/consensys/gnark/backend/groth16"
	"github.com/consensys/gnark/backend/witness"
	"github.com/consensys/gnark/constraint"
	"github.com/consensys/gnark/frontend"
	"github.com/consensys/gnark/std/algebra/native/sw_bls12377"
	stdgroth16 "github.com/consensys/gnark/std/recursion/groth16"
	"github.com/consensys/gnark/test"

	"verifharness/common"
	c377 "verifharness/curves/bls12-377"
)

type (
	g1 = sw_bls12377.G1Affine
	g2 = sw_bls12377.G2Affine
	gt = sw_bls12377.GT
	fr = sw_bls12377.ScalarField
)

type Outer struct {
	Proof        stdgroth16.Proof[g1, g2]
	VerifyingKey stdgroth16.VerifyingKey[g1, g2, gt]
	InnerWitness stdgroth16.Witness[fr]
	Fixed        bool `gnark:"-"` // the verifying key is a constant of the circuit
}

func (c *Outer) Define(api frontend.API) error {
	v, err := stdgroth16.NewVerifier[fr, g1, g2, gt](api)
	if err != nil {
		return err
	}
	// the native verifier checks subgroup membership and handles the point at infinity: matching options
	return v.AssertProof(c.VerifyingKey, c.Proof, c.InnerWitness, stdgroth16.WithCompleteArithmetic(), stdgroth16.WithSubgroupCheck())
}

type Res struct {
	ID       int    `json:"id"`
	Native   string `json:"native"`   // verdict of the native verifier on the edited triple
	Circuit  string `json:"circuit"`  // accept | reject | unassignable | skip
	Err      string `json:"err,omitempty"`
	NativeSt string `json:"native_stage,omitempty"`
}

type seen struct {
	ccs    constraint.ConstraintSystem
	proof  groth16.Proof
	vk     groth16.VerifyingKey
	pw     witness.Witness
	native string
	ok     bool
}

// Replay runs every behaviour natively (curve package) and in-circuit.
func Replay(args common.Args, out *common.Out) error {
	behs, err := common.ReadNDJSON[c377.Behaviour](args.Get("in", ""))
	if err != nil {
		return err
	}
	var mu sync.Mutex
	obs := map[int]*seen{}
	c377.G16Observer = func(b *c377.Behaviour, ccs constraint.ConstraintSystem, p groth16.Proof, vk groth16.VerifyingKey, pw witness.Witness, verdict string) {
		mu.Lock()
		obs[b.ID] = &seen{ccs: ccs, proof: p, vk: vk, pw: pw, native: verdict, ok: true}
		mu.Unlock()
	}
	defer func() { c377.G16Observer = nil }()
	outer := ecc.BW6_761.ScalarField()
	common.ParallelFor(len(behs), args.Int("par", 8), func(i int) {
		b := &behs[i]
		r := c377.G16Run(b)
		res := Res{ID: b.ID, Native: r.Verdict, NativeSt: r.Stage}
		defer func() { out.Emit(res) }()
		mu.Lock()
		s := obs[b.ID]
		mu.Unlock()
		if s == nil || !s.ok {
			res.Circuit = "skip" // the edit never reached the verifier (encoding round trips, verifier options, fresh proofs)
			return
		}
		res.Native = s.native
		var assign Outer
		var e1, e2, e3 error
		pan, msg := common.Safely(func() {
			assign.Proof, e1 = stdgroth16.ValueOfProof[g1, g2](s.proof)
			assign.VerifyingKey, e2 = stdgroth16.ValueOfVerifyingKey[g1, g2, gt](s.vk)
			assign.InnerWitness, e3 = stdgroth16.ValueOfWitness[fr](s.pw)
		})
		if pan || e1 != nil || e2 != nil || e3 != nil {
			res.Circuit, res.Err = "unassignable", fmt.Sprint(msg, e1, e2, e3)
			return
		}
		circuit := &Outer{
			Proof:        stdgroth16.PlaceholderProof[g1, g2](s.ccs),
			VerifyingKey: stdgroth16.PlaceholderVerifyingKey[g1, g2, gt](s.ccs),
			InnerWitness: stdgroth16.PlaceholderWitness[fr](s.ccs),
		}
		var terr error
		pan, msg = common.Safely(func() { terr = test.IsSolved(circuit, &assign, outer) })
		switch {
		case pan:
			res.Circuit, res.Err = "reject", "panic: "+msg
		case terr != nil:
			res.Circuit, res.Err = "reject", firstLine(terr.Error())
		default:
			res.Circuit = "accept"
		}
	})
	return nil
}

func firstLine(s string) string {
	for i := range s {
		if s[i] == '\n' {
			return s[:i]
		}
	}
	return s
}
