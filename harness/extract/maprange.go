// Package extract derives model constants from /repo's current sources.
package extract

import (
	"bytes"
	"crypto/sha1"
	"encoding/hex"
	"fmt"
	"go/ast"
	"go/printer"
	"go/token"
	"go/types"
	"os"
	"path/filepath"
	"sort"
	"strings"

	"golang.org/x/tools/go/packages"

	"verifharness/common"
)

// MapRangeSite is one `for ... range <map>` statement on the compile path.
type MapRangeSite struct {
	Pkg      string `json:"pkg"`
	File     string `json:"file"`
	Func     string `json:"func"`
	Line     int    `json:"line"`
	Hash     string `json:"hash"`     // sha1 of the normalised loop source (position independent)
	Heur     string `json:"heur"`     // heuristic class: insensitive | sorted | sensitive
	Body     string `json:"body"`     // loop source, for the reviewer
	MapExpr  string `json:"map_expr"` // the ranged expression
	KeysOnly bool   `json:"keys_only"`
}

var compilePathPatterns = []string{
	"./frontend/...", "./constraint", "./constraint/solver/...", "./internal/kvstore/...", "./internal/circuitdefer/...",
	"./internal/frontendtype/...", "./internal/utils/...", "./internal/tinyfield/...",
	"./std/multicommit/...", "./std/rangecheck/...", "./std/math/emulated/...", "./std/lookup/...",
	"./std/internal/logderivarg/...", "./std/internal/logderivprecomp/...", "./std/math/bits/...", "./std/math/cmp/...",
	"./std/selector/...", "./std/math/bitslice/...", "./std/math/uints/...", "./std/internal/limbcomposition/...",
}

// MapRange lists every range-over-map statement in the compile-path packages.
func MapRange(args common.Args, out *common.Out) error {
	repo := args.Get("repo", "/repo")
	cfg := &packages.Config{
		Mode: packages.NeedName | packages.NeedFiles | packages.NeedSyntax | packages.NeedTypes | packages.NeedTypesInfo | packages.NeedImports | packages.NeedDeps,
		Dir:  repo,
		Env:  append(os.Environ(), "GOFLAGS=-mod=mod", "GOPROXY=off", "GOSUMDB=off", "GOTOOLCHAIN=local"),
	}
	var pats []string
	for _, p := range compilePathPatterns {
		dir := strings.TrimSuffix(strings.TrimPrefix(p, "./"), "/...")
		if _, err := os.Stat(filepath.Join(repo, dir)); err == nil {
			pats = append(pats, p)
		}
	}
	pkgs, err := packages.Load(cfg, pats...)
	if err != nil {
		return err
	}
	var sites []MapRangeSite
	for _, pkg := range pkgs {
		if len(pkg.Errors) > 0 {
			return fmt.Errorf("package %s does not type-check: %v", pkg.PkgPath, pkg.Errors[0])
		}
		for _, f := range pkg.Syntax {
			fname := pkg.Fset.Position(f.Pos()).Filename
			if strings.HasSuffix(fname, "_test.go") {
				continue
			}
			rel, _ := filepath.Rel(repo, fname)
			ast.Inspect(f, func(n ast.Node) bool {
				fd, ok := n.(*ast.FuncDecl)
				if !ok || fd.Body == nil {
					return true
				}
				fn := fd.Name.Name
				if fd.Recv != nil && len(fd.Recv.List) > 0 {
					fn = exprString(pkg.Fset, fd.Recv.List[0].Type) + "." + fn
				}
				ast.Inspect(fd.Body, func(m ast.Node) bool {
					rs, ok := m.(*ast.RangeStmt)
					if !ok {
						return true
					}
					t := pkg.TypesInfo.TypeOf(rs.X)
					if t == nil {
						return true
					}
					if _, isMap := t.Underlying().(*types.Map); !isMap {
						return true
					}
					src := nodeString(pkg.Fset, rs)
					h := sha1.Sum([]byte(normalise(src)))
					sites = append(sites, MapRangeSite{
						Pkg: pkg.PkgPath, File: rel, Func: fn, Line: pkg.Fset.Position(rs.Pos()).Line,
						Hash: hex.EncodeToString(h[:6]), Heur: classify(pkg.Fset, fd, rs), Body: src,
						MapExpr: exprString(pkg.Fset, rs.X), KeysOnly: rs.Value == nil,
					})
					return true
				})
				return false
			})
		}
	}
	sort.Slice(sites, func(i, j int) bool {
		if sites[i].File != sites[j].File {
			return sites[i].File < sites[j].File
		}
		return sites[i].Line < sites[j].Line
	})
	for _, s := range sites {
		out.Emit(s)
	}
	return nil
}

func nodeString(fset *token.FileSet, n ast.Node) string {
	var b bytes.Buffer
	printer.Fprint(&b, fset, n)
	return b.String()
}

func exprString(fset *token.FileSet, e ast.Expr) string { return nodeString(fset, e) }

func normalise(s string) string {
	var lines []string
	for _, l := range strings.Split(s, "\n") {
		l = strings.TrimSpace(l)
		if i := strings.Index(l, "//"); i >= 0 {
			l = strings.TrimSpace(l[:i])
		}
		if l != "" {
			lines = append(lines, l)
		}
	}
	return strings.Join(lines, "\n")
}

// classify is a conservative syntactic heuristic:
//   - sorted: the loop only appends the keys / values to one slice and the enclosing function sorts afterwards
//   - insensitive: the body only writes maps, deletes, accumulates commutatively, sets flags or returns/continues
//   - sensitive: anything else (calls, appends to slices that are not sorted afterwards, channel sends, ...)
func classify(fset *token.FileSet, fd *ast.FuncDecl, rs *ast.RangeStmt) string {
	onlyAppend := true
	insensitive := true
	var appended []string
	ast.Inspect(rs.Body, func(n ast.Node) bool {
		switch st := n.(type) {
		case *ast.AssignStmt:
			for i, rhs := range st.Rhs {
				if call, ok := rhs.(*ast.CallExpr); ok {
					if id, ok := call.Fun.(*ast.Ident); ok && id.Name == "append" && i < len(st.Lhs) {
						appended = append(appended, exprString(fset, st.Lhs[i]))
						insensitive = false
						continue
					}
					if id, ok := call.Fun.(*ast.Ident); ok && (id.Name == "len" || id.Name == "max" || id.Name == "min") {
						continue
					}
					onlyAppend = false
					insensitive = false
					continue
				}
			}
			for _, lhs := range st.Lhs {
				if _, ok := lhs.(*ast.IndexExpr); ok {
					onlyAppend = false // map / slice element write: order-insensitive for maps
				}
			}
		case *ast.ExprStmt:
			if call, ok := st.X.(*ast.CallExpr); ok {
				if id, ok := call.Fun.(*ast.Ident); ok && id.Name == "delete" {
					onlyAppend = false
					return true
				}
			}
			onlyAppend = false
			insensitive = false
		case *ast.SendStmt, *ast.GoStmt, *ast.DeferStmt:
			onlyAppend = false
			insensitive = false
		}
		return true
	})
	if len(appended) > 0 && onlyAppend {
		// is one of the appended slices sorted later in the function?
		after := false
		sorted := false
		ast.Inspect(fd.Body, func(n ast.Node) bool {
			if n == rs {
				after = true
			}
			if call, ok := n.(*ast.CallExpr); ok && after {
				fn := exprString(fset, call.Fun)
				if strings.HasPrefix(fn, "sort.") || strings.HasPrefix(fn, "slices.Sort") {
					sorted = true
				}
			}
			return true
		})
		if sorted {
			return "sorted"
		}
		return "sensitive"
	}
	if insensitive {
		return "insensitive"
	}
	return "sensitive"
}
