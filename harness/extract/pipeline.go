package extract

import (
	"fmt"
	"go/ast"
	"go/parser"
	"go/token"
	"path/filepath"
	"strings"

	"verifharness/common"
)

// PipeOp is one synchronisation-relevant step of a prover goroutine.
type PipeOp struct {
	Op   string `json:"op"` // wait | close | fail
	Ch   string `json:"ch,omitempty"`
	Ctx  bool   `json:"ctx"`  // a wait with a ctx.Done() alternative
	Line int    `json:"line"` // source line
}

// PipeProc is a goroutine started with g.Go(instance.<method>) in Prove.
type PipeProc struct {
	File    string   `json:"file"`
	Name    string   `json:"name"`
	Ops     []PipeOp `json:"ops"`
	Spawned bool     `json:"spawned"` // started by a `go func(){...}()` statement of another process (op "spawn")
}

// Pipeline extracts, from backend/plonk/<curve>/prove.go, the goroutines of the prover's errgroup and the order
// in which each one waits on channels (with or without a ctx.Done() alternative), closes channels and may fail.
func Pipeline(args common.Args, out *common.Out) error {
	repo := args.Get("repo", "/repo")
	curve := args.Get("curve", "bn254")
	file := filepath.Join(repo, "backend", "plonk", curve, "prove.go")
	fset := token.NewFileSet()
	f, err := parser.ParseFile(fset, file, nil, 0)
	if err != nil {
		return err
	}
	methods := map[string]*ast.FuncDecl{}
	var prove *ast.FuncDecl
	for _, d := range f.Decls {
		fd, ok := d.(*ast.FuncDecl)
		if !ok || fd.Body == nil {
			continue
		}
		if fd.Recv != nil {
			methods[fd.Name.Name] = fd
		} else if fd.Name.Name == "Prove" {
			prove = fd
		}
	}
	if prove == nil {
		return fmt.Errorf("MODEL-OUT-OF-DATE: no Prove function in %s", file)
	}
	var started []string
	ast.Inspect(prove.Body, func(n ast.Node) bool {
		call, ok := n.(*ast.CallExpr)
		if !ok {
			return true
		}
		sel, ok := call.Fun.(*ast.SelectorExpr)
		if !ok || sel.Sel.Name != "Go" || len(call.Args) != 1 {
			return true
		}
		if m, ok := call.Args[0].(*ast.SelectorExpr); ok {
			started = append(started, m.Sel.Name)
		}
		return true
	})
	if len(started) == 0 {
		return fmt.Errorf("MODEL-OUT-OF-DATE: Prove starts no goroutine through g.Go(instance.method)")
	}
	chanOf := func(e ast.Expr) (string, bool) { // <-s.chX  /  <-s.ctx.Done()
		u, ok := e.(*ast.UnaryExpr)
		if !ok || u.Op != token.ARROW {
			return "", false
		}
		switch x := u.X.(type) {
		case *ast.SelectorExpr:
			return x.Sel.Name, true
		case *ast.CallExpr:
			if s, ok := x.Fun.(*ast.SelectorExpr); ok && s.Sel.Name == "Done" {
				return "ctx", true
			}
		case *ast.Ident:
			return x.Name, true
		}
		return "", false
	}
	var children []PipeProc
	var walk func(name string, depth int) []PipeOp
	var walkBody func(name string, body ast.Node, depth int) []PipeOp
	walk = func(name string, depth int) []PipeOp {
		fd := methods[name]
		if fd == nil || depth > 3 {
			return nil
		}
		return walkBody(name, fd.Body, depth)
	}
	walkBody = func(name string, body ast.Node, depth int) []PipeOp {
		var ops []PipeOp
		var visit func(n ast.Node) bool
		visit = func(n ast.Node) bool {
			switch t := n.(type) {
			case *ast.GoStmt:
				// go func() { ... }(): a child goroutine, modelled only when it synchronises through channels
				if fl, ok := t.Call.Fun.(*ast.FuncLit); ok {
					cname := fmt.Sprintf("%s.go%d", name, fset.Position(t.Pos()).Line)
					cops := walkBody(cname, fl.Body, depth+1)
					keep := false
					for _, o := range cops {
						if o.Op == "close" || o.Op == "wait" {
							keep = true
						}
					}
					if keep {
						children = append(children, PipeProc{Name: cname, Ops: cops, Spawned: true})
						ops = append(ops, PipeOp{Op: "spawn", Ch: cname, Line: fset.Position(t.Pos()).Line})
					}
				}
				return false
			case *ast.FuncLit:
				return false // other closures (errgroup bodies, callbacks) are not part of this process' control flow
			case *ast.SelectStmt:
				var chs []string
				ctx := false
				for _, c := range t.Body.List {
					cc := c.(*ast.CommClause)
					if cc.Comm == nil {
						continue
					}
					var e ast.Expr
					switch s := cc.Comm.(type) {
					case *ast.ExprStmt:
						e = s.X
					case *ast.AssignStmt:
						if len(s.Rhs) == 1 {
							e = s.Rhs[0]
						}
					}
					if ch, ok := chanOf(e); ok {
						if ch == "ctx" {
							ctx = true
						} else {
							chs = append(chs, ch)
						}
					}
				}
				for _, ch := range chs {
					ops = append(ops, PipeOp{Op: "wait", Ch: ch, Ctx: ctx, Line: fset.Position(t.Pos()).Line})
				}
				return false
			case *ast.ExprStmt:
				if ch, ok := chanOf(t.X); ok && ch != "ctx" {
					ops = append(ops, PipeOp{Op: "wait", Ch: ch, Ctx: false, Line: fset.Position(t.Pos()).Line})
					return false
				}
				if call, ok := t.X.(*ast.CallExpr); ok {
					if id, ok := call.Fun.(*ast.Ident); ok && id.Name == "close" && len(call.Args) == 1 {
						if s, ok := call.Args[0].(*ast.SelectorExpr); ok {
							ops = append(ops, PipeOp{Op: "close", Ch: s.Sel.Name, Line: fset.Position(t.Pos()).Line})
						} else if id2, ok := call.Args[0].(*ast.Ident); ok {
							ops = append(ops, PipeOp{Op: "close", Ch: id2.Name, Line: fset.Position(t.Pos()).Line})
						}
						return false
					}
				}
			case *ast.CallExpr:
				// a call to another method of the instance: inline its steps
				if s, ok := t.Fun.(*ast.SelectorExpr); ok {
					if recv, ok := s.X.(*ast.Ident); ok && recv.Name == "s" {
						if _, ok := methods[s.Sel.Name]; ok && s.Sel.Name != name {
							ops = append(ops, walk(s.Sel.Name, depth+1)...)
						}
					}
				}
			case *ast.ReturnStmt:
				// `return err` / `return fmt.Errorf(...)`: the process may fail here (the error cancels the group)
				for _, r := range t.Results {
					if id, ok := r.(*ast.Ident); ok && (id.Name == "nil") {
						continue
					}
					if id, ok := r.(*ast.Ident); ok && id.Name == "errContextDone" {
						continue
					}
					ops = append(ops, PipeOp{Op: "fail", Line: fset.Position(t.Pos()).Line})
					break
				}
			}
			return true
		}
		ast.Inspect(body, visit)
		return ops
	}
	for _, name := range started {
		if methods[name] == nil {
			return fmt.Errorf("MODEL-OUT-OF-DATE: goroutine body %s not found", name)
		}
		out.Emit(PipeProc{File: strings.TrimPrefix(file, repo+"/"), Name: name, Ops: walk(name, 0)})
	}
	for _, c := range children {
		c.File = strings.TrimPrefix(file, repo+"/")
		out.Emit(c)
	}
	return nil
}
