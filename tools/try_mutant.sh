#!/bin/bash
# usage: try_mutant.sh <patch dir> <check id> [more check ids...] : applies the patch to /repo, runs the quick checks, reverts
D=$1; shift
cd /repo && git apply --check $D/patch.diff || { echo "$D: PATCH DOES NOT APPLY"; exit 0; }
git apply $D/patch.diff
for P in "$@"; do
  cd /verif && ./check $P quick > $D/check_$P.txt 2>&1; E=$?
  echo "$D $P exit=$E violations=$(grep -c '^VIOLATION' $D/check_$P.txt)"
  grep signature $D/check_$P.txt | sed 's/^ *signature: //' | cut -c1-170 | sort | uniq -c | sort -rn | head -3
  [ $E -eq 2 ] && grep INFRA $D/check_$P.txt | head -3
done
cd /repo && git checkout -- . && git status --short | head -3
