#!/usr/bin/env python3
"""One-off helper that inserted the verif hooks into /repo (kept for the record; add-only edits)."""
import re, sys, glob, os
R = '/repo'
fields = ['bn254','bls12-377','bls12-381','bls24-315','bls24-317','bw6-633','bw6-761','babybear','koalabear','tinyfield']
IMPORT = '\t"github.com/consensys/gnark/verifhook"\n'

def ins_after(src, anchor, add, count=1, all_=False):
    n = src.count(anchor)
    if n == 0 or (not all_ and n != count):
        raise SystemExit(f'anchor {anchor!r} found {n} times')
    return src.replace(anchor, anchor + add)

def ins_before(src, anchor, add, all_=False):
    n = src.count(anchor)
    if n == 0 or (not all_ and n != 1):
        raise SystemExit(f'anchor {anchor!r} found {n} times')
    return src.replace(anchor, add + anchor)

def patch_solver(path):
    s = open(path).read()
    if 'verifhook' in s: return
    s = ins_after(s, '\tcsolver "github.com/consensys/gnark/constraint/solver"\n', IMPORT)
    s = ins_after(s, '\tatomic.AddUint64(&s.nbSolved, 1)\n', '\tverifhook.SolverEvent(s, 1, id, 0)\n')
    s = ins_after(s, '\t\t\t\tfor _, i := range t {\n', '\t\t\t\t\tverifhook.SolverEvent(solver, 5, int(i), 1)\n')
    s = ins_after(s, '\tfor _, level := range solver.Levels {\n', '\t\tverifhook.SolverEvent(solver, 2, len(level), 0)\n')
    s = ins_after(s, '\t\t\tfor _, i := range level {\n', '\t\t\t\tverifhook.SolverEvent(solver, 5, int(i), 0)\n')
    s = ins_before(s, '\t\t\tchTasks <- level[_start:_end]\n', '\t\t\tverifhook.SolverEvent(solver, 3, _start, _end)\n')
    s = ins_after(s, '\t\twg.Wait()\n', '\t\tverifhook.SolverEvent(solver, 4, 0, 0)\n')
    open(path,'w').write(s)

def patch_system(path):
    s = open(path).read()
    if 'verifhook' in s: return
    s = ins_after(s, '\t"github.com/consensys/gnark/logger"\n', IMPORT)
    s = ins_before(s, '\t\treturn &res, nil\n', '\t\tverifhook.PostSolve(cs, &res)\n', all_=True)
    assert s.count('verifhook.PostSolve') == 2
    open(path,'w').write(s)

for f in fields:
    patch_solver(f'{R}/constraint/{f}/solver.go')
    patch_system(f'{R}/constraint/{f}/system.go')
patch_solver(f'{R}/internal/generator/backend/template/representations/solver.go.tmpl')
patch_system(f'{R}/internal/generator/backend/template/representations/system.go.tmpl')

p = f'{R}/constraint/blueprint_logderivlookup.go'
s = open(p).read()
if 'verifhook' not in s:
    s = ins_after(s, '\t"sync"\n', '\n'+IMPORT)
    s = ins_before(s, '\t// check if we already cached the entries\n\tb.lock.Lock()\n', '\tverifhook.Gate("lookup.enter", b, len(b.cachedEntries), nbEntries)\n')
    s = ins_after(s, '\t// check if we already cached the entries\n\tb.lock.Lock()\n', '\tverifhook.Gate("lookup.locked", b, len(b.cachedEntries), nbEntries)\n')
    s = ins_before(s, '\tb.lock.Unlock()\n', '\tverifhook.Gate("lookup.extended", b, len(b.cachedEntries), nbEntries)\n')
    s = ins_after(s, '\tb.lock.Unlock()\n', '\tverifhook.Gate("lookup.unlocked", b, len(b.cachedEntries), nbEntries)\n')
    s = ins_after(s, '\tentries := b.cachedEntries[:nbEntries]\n', '\tverifhook.Gate("lookup.read", b, len(entries), nbEntries)\n')
    s = ins_after(s, 'func (b *BlueprintLookupHint[E]) Reset() {\n', '\tverifhook.Gate("lookup.reset.enter", b, len(b.cachedEntries), 0)\n')
    s = ins_after(s, '\tb.cachedOffset = 0\n', '\tverifhook.Gate("lookup.reset.done", b, 0, 0)\n')
    open(p,'w').write(s)
print('ok')
