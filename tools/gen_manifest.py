#!/usr/bin/env python3
"""Writes MANIFEST.json from the table below (single source of truth for the registered checks)."""
import json, os, subprocess
V = os.path.dirname(os.path.dirname(os.path.abspath(__file__)))
MC = 'model_checking'
CHECKS = {
 'C01': dict(tech='TLA+ ideal-crypto decision model (Groth16Protocol.tla) checked by TLC; every behaviour replayed on real Setup/Prove/Verify of 7 curves',
             text='TLC enumerates all circuit-shape x edit-sequence behaviours (<=2 edits) and checks the transcribed verifier step list against the property; each behaviour is replayed on the real Groth16 code of every curve and the real verdict compared with the specified one.',
             note='Ideal-cryptography rule for pairings/PoK; adversaries outside the edit alphabet and numeric correctness of pairings are outside the model (observed only via accept/reject).', ref='6 C01'),
 'C03': dict(tech='TLA+ configuration-space spec (Completeness.tla) enumerated by TLC and replayed on the real provers/verifiers under a watchdog; TLA+ model of the prover goroutine pipeline (ProverPipeline.tla) extracted from prove.go and model-checked for deadlock',
             text='TLC enumerates every configuration (backend, 30 circuits, valid/invalid witness classes, prover/verifier hash options, statistical ZK) with its required outcome; each is replayed on real Setup/Prove/Verify of the curves with a hang watchdog and a check for prover goroutines left blocked. The channel/goroutine structure of the PLONK prover is extracted from the sources and TLC explores all interleavings and failure sets for deadlock and double close.',
             note='Circuits are the shape/corpus families, not arbitrary circuits; a deadlock of the extracted model is a lead that becomes a verdict through the invalid-witness replay (a real hang).', ref='6 C03'),
 'C04': dict(tech='TLA+ reference semantics (ApiSemantics.tla) + program generator (ProgGen.tla) in TLC; every program compiled by both real builders and solved for every assignment over F_47, compared with the TLC-cross-checked oracle',
             text='TLC enumerates all single-call programs and seeded random programs of 2-4 calls over frontend.API with their documented meaning on probe assignments; each is compiled by the real R1CS and SCS builders over the 47-element field and solved for all 47^k assignments of the inputs it uses, under compression-threshold variants and over the other supported fields on corner assignments; success/failure and every intermediate value must match the reference semantics.',
             note='The Go port of ApiSemantics used beyond the probe assignments is checked against TLC on 64 probes of every program each run; programs longer than 4 calls and hints/PLONK-specific gates are outside this generator.', ref='6 C04'),
 'C05': dict(tech='TLA+ exhaustive constraint solver (ConstraintSat.tla) on constraint rows exported from the real compiler over F_47, relation from ApiSemantics.tla; Go twin enumerator validated against TLC by exact state counts',
             text='Every single API operation x operand-kind pattern x builder is compiled by the real builders over F_47, its rows exported with concrete coefficients, and every satisfying assignment of every wire (every dishonest hint output) is enumerated for all operand values; each must satisfy the documented relation. TLC enumerates a seeded subset itself and must explore exactly the number of partial assignments the Go enumerator reports.',
             note='Exhaustive over F_47 only; TLC is ~10^3x slower than the Go twin, so TLC covers a state-bounded subset per run (all cases in the thorough tier budget) and validates the twin by state counts and a removed-row self-test.', ref='6 C05'),
 'C06': dict(tech='TLA+ level-assignment and schedule specs (LevelBuilder.tla, SolverTrace.tla, SolverSplit.tla) in TLC; recorded levels, solutions and hook traces of real solves validated; every solution re-evaluated on independently exported rows',
             text='The level assignment is transcribed and model-checked; for TLC-generated programs over F_47 (every assignment) and corpus circuits with hints, lookups and commitments on several curves, the solution the real solver hands to the backend (captured at a build-tag hook) is re-evaluated on the exported rows, instruction reads/writes/levels observed through the blueprints are checked for soundness, and scheduling traces (level, instruction, wire-set events) are validated by TLC.',
             note='Failure direction (fails only when a constraint is violated) is judged through ApiSemantics on generated programs; interleavings are those the Go runtime produces plus the task-split boundary sweep of C10.', ref='6 C06'),
 'C07': dict(tech='TLA+ specification of the documented leaf order and visibility (Schema.tla) generating circuit struct types; each generated Go type replayed through NewWitness, encodings, Compile and Solve',
             text='Schema.tla defines declaratively which leaves a circuit struct has, in which order and with which visibility, and generates ~380 type trees (all tag forms, arrays, slices, nested / pointer / embedded structs, arrays of structs, and an exhaustive family of named slice / struct types that size themselves in a GnarkInitHook); a Go circuit type is generated per tree and the real NewWitness (full, Public, PublicOnly), binary and JSON round trips, and Compile+Solve with both builders are compared with the specification (every variable carries the value assigned to its field; exchanging two values breaks the circuit), on every field; 16 assignment value kinds are checked to reduce modulo the field.',
             note='The type corpus is a fixed seeded sample of the tree grammar (regenerated when the spec changes); tags on embedded fields and inherit without explicit enclosing visibility are outside the documented domain.', ref='6 C07'),
 'C08': dict(tech='TLA+ step-machine model of both verifiers over input shapes (VerifierRobust.tla) + framing alphabet (Framing.tla), exhaustive in TLC; every shape and mutation replayed on real decoders/verifiers',
             text='TLC explores every combination of variable-length-part lengths (0..4 / 0..10) against the key on the transcribed step lists (no out-of-range access, inconsistent shapes end in an error) and enumerates every framing mutation of the encodings; all are applied to real proofs/witnesses (direct, compressed and raw encodings) and the real decode/verify outcome must be error or acceptance, never a panic or crash.',
             note='Content-level corruption inside a point encoding is sampled by bit flips; arbitrary byte strings are covered structurally, not by coverage-guided fuzzing. Allocation-bomb prefixes run under ulimit -v 8GB.', ref='6 C08'),
 'C09': dict(tech='TLA+ pipeline spec (Artifacts.tla) enumerated by TLC; every pipeline with encode/decode round trips replayed on the real encoders/decoders, provers and verifiers',
             text='TLC enumerates every Compile-Setup-Prove-Verify pipeline in which up to two of constraint system, proving key, verifying key, proof and witness go through a round trip in any offered encoding (compressed, raw, dump, unsafe read, JSON); each is replayed on the real code: reported byte counts, byte-identical re-encoding, identical solution of the decoded system, proofs made with decoded artifacts verify and the original proof verifies under decoded keys.',
             note='15 circuits covering the instruction kinds (incl. a circuit delegating to GKR); a process crash inside gnark code during a pipeline is attributed and reported; cross-version compatibility is out of scope.', ref='6 C09'),
 'C10': dict(tech='TLA+ concurrency model of the shared lookup-blueprint cache and option slice (SharedCS.tla), exhaustive in TLC; every schedule replayed deterministically on the real solver through build-tag gates; stress/history differential (and -race in thorough)',
             text='TLC explores all interleavings of 2 concurrent Solve calls on one lookup-table system at statement and at gate granularity and the option-slice append design; all 224 gate-level schedules are replayed on the real code with a blocking-hook scheduler and the entries each caller really reads are compared with the model and with its own table; nbTasks sweep, call histories and concurrent Solve/Prove/Verify sharing cs, pk, vk, proofs and an option slice with spare capacity are compared with sequential results.',
             note='Known open finding F5 (shared lookup cache) is reproduced deterministically and reported as KNOWN-FINDING; shared state outside the modelled objects is only seen by the stress differential / race detector.', ref='6 C10'),
 'C11': dict(tech='TLA+ self-composition model of the compile pipeline (CompileDet.tla) over range-over-map sites extracted from the sources; recorded compilation histories validated by TLC (CompileDetTrace.tla)',
             text='Every range-over-map site on the compile path is extracted from the current sources and model-checked for order sensitivity; every corpus circuit (13 feature families, both builders, large and small fields) is compiled repeatedly - sequentially, in parallel goroutines, interleaved with other circuits, in separate processes - and TLC validates that the recorded digest history is a behaviour of a deterministic compiler.',
             note='Determinism is judged on the serialized bytes; a nondeterministic site not reached by the corpus is only seen by the extractor (reported as unreviewed).', ref='6 C11'),
 'C02': dict(tech='TLA+ ideal-crypto decision model (PlonkProtocol.tla) checked by TLC; every behaviour replayed on real Setup/Prove/Verify of 7 curves',
             text='As C01 for PLONK: TLC enumerates shape x edit sequences over every proof component, claimed value, option and public input; each behaviour is replayed on the real PLONK code of every curve.',
             note='Fiat-Shamir/KZG binding are ideal rules; soundness outside the edit alphabet is a cryptographic assumption.', ref='6 C02'),
 'C12': dict(tech='TLA+ reference semantics and program generator for emulated arithmetic (EmulatedOps.tla) evaluated by TLC over a toy modulus; generated programs replayed on the real emulated.Field through the test engine and the real provers, with hint outputs perturbed',
             text='TLC generates every one-instruction program and simulated 2-3 instruction programs over witness elements, minimal-limb constants and temporaries (Add, Sub, Neg, Mul, Sqr, Div, Inverse, Reduce, MulConst, Select, Mux, Lookup2, Sum, 340-term addition chain, IsZero) and evaluates them modulo 13 on 32 probes; each program runs on the real emulated.Field for a 13-modulus with 3-bit limbs and for 256-384 bit moduli: result equal to integer arithmetic mod q (test engine and Groth16/PLONK provers), off-by-one result rejected, division by zero unsatisfiable, every emulated hint output perturbed => prover fails.',
             note='Hint tampering perturbs outputs by one (first and last output of each hint), not all hint outputs; the Schwartz-Zippel step of the deferred multiplication check is an ideal rule.', ref='6 C12'),
 'C13': dict(tech='TLA+ transcription of the range checker (RangeCheck.tla: optimalWidth, limb decomposition, accept predicate) checked exhaustively over a toy field by TLC; adversarial hint classes replayed on the real gadget through the real provers',
             text='TLC checks over F_47 (recomposition wraps) that the decomposition constraints accept v iff v < 2^bits for all widths/bases/values and emits width mixes x hint classes (out-of-range value, overflowing limb, shifted limbs, wrong multiplicity); each is run through the real Groth16/PLONK provers with the DecomposeHint and the multiplicity hint substituted and must fail (honest in-range must pass); the limb width and count used by the real gadget must equal the transcription; lookup tables are queried at every index, repeatedly, out of range and against wrong entries.',
             note='Schwartz-Zippel soundness of the log-derivative identity is an ideal rule; lookup results cannot be substituted (they come from a blueprint, not a hint), so wrong-entry cases assert a wrong expected value instead.', ref='6 C13'),
 'C14': dict(tech='TLA+ gadget relations (ApiSemantics.tla) + generator (ProgGen.tla) + exhaustive constraint solving (ConstraintSat.tla) on rows exported from the real gadgets over F_47',
             text='Every call of cmp.IsLess/IsLessOrEqual, selector.Mux (2-5 inputs), Map, Decoder and bitslice.Partition with every operand-kind pattern is compiled by both builders over F_47; the honest solve must give the exact result inside the domain and fail outside it for every assignment, and every satisfying assignment of every wire (all hinted indicators / bits) must obey the documented relation; TLC enumerates a seeded subset itself with matching state counts.',
             note='The bounded comparator and the 8/32/64-bit word gadgets (wider than the toy field, built on the log-derivative argument) are not covered by this generator.', ref='6 C14'),
 'C15': dict(tech='TLA+ transcription of the padding / block-count rules of the hash gadgets (HashFraming.tla) with TLC checking that the replayed length classes cover every framing boundary; enumerated framing cases replayed on the real gadgets against the native implementations',
             text='TLC checks BoundaryCover and BlocksMinimal for SHA-256, RIPEMD-160, SHA3-256/384/512, Keccak-256/512 and enumerates family x boundary length x 7 write chunkings, variable-length sums (length x declared maximum - with the padding boundaries of the maximum itself - x minimal-length option), MiMC / Poseidon2 by element count, chunking and state export/import point, Merkle proofs by tree size and leaf, Fiat-Shamir transcripts; each case must reproduce the native digest on the real gadget (test engine; a sample through both builders and solvers) and reject a wrong digest, the digest of a shorter prefix, a wrong leaf index or an altered sibling.',
             note='Message contents are seeded pseudo-random bytes; lengths up to two blocks + 1.', ref='6 C15 / 11.2'),
 'C16': dict(tech='TLA+ models checked / enumerated by TLC - CurveOps.tla (group law on point names with each method\'s documented domain), ToySig.tla (ECDSA and EdDSA written out over toy groups, every key x nonce x message, deciding per edit class which signatures must verify), FakeGLV.tla (what the checks of a hinted scalar multiplication bind when the prover chooses the hints) - with every case / class / winning strategy replayed on the real gadgets against the native libraries and through the real Groth16 prover',
             text='Points are named by discrete logarithm (infinity, P=Q, P=-Q arise as names), scalars by 0..3, r-1, r, r+1; TLC checks the domain rules of Add / AddUnified / Double / Neg / ScalarMul / ScalarMulBase / JointScalarMulBase / MultiScalarMul with and without complete arithmetic for consistency and enumerates 444 cases; every in-domain case runs on sw_emulated (secp256k1, BN254, BLS12-381, BW6-761, P-256, P-384) and on the native twisted Edwards curve and must equal the native [k]G, [k+1]G must be rejected; hang-prone cases run one per process under a timeout. ToySig.tla: 19 edit classes of a genuine signature (s -> n-s, zero / incremented / swapped / non-canonical components, other message, other key) with TLC-proved verdicts, replayed on std/signature/ecdsa (secp256k1, P-256, P-384) and std/signature/eddsa (four companion curves) and on gnark-crypto / crypto/ecdsa. FakeGLV.tla: three designs of the decomposition check, TLC finds the winning prover strategies of the unsound ones; they are run against ScalarMul of the native twisted Edwards gadget and of sw_emulated with complete arithmetic by overriding the hints in a real Groth16 Prove / Verify.',
             note='Pairing gadgets and the EVM precompile wrappers are not covered; F19, F19b, F20, F24, F25 open, F23 fixed.', ref='6 C16 / 11.2'),
 'C17': dict(tech='TLA+ decision models of the inner verifiers (Groth16Protocol.tla, PlonkProtocol.tla: the C01 / C02 behaviours) composed with a TLA+ model of the outer configurations (Recursion.tla: key as witness / constant / selected among candidates, batches, arithmetic option) checked by TLC; every (behaviour, configuration) judged by the native verifier with the recursion options and replayed on the in-circuit verifiers of std/recursion/groth16 and std/recursion/plonk',
             text='TLC enumerates inner circuit shape x edit sequences (element replacement classes incl. other-proof, negation, infinity, torsion, off-subgroup; claimed values; public inputs; other keys; tampered assignments; padding) for Groth16 (0-1 commitment) and PLONK (0-2 commitments), and Recursion.tla enumerates 42 outer configurations (witness-supplied key, constant key, SwitchVerificationKey / AssertDifferentProofs with 1-2 candidate keys and a selector that designates the own key, another key or no key, AssertSameProofs batches, complete / incomplete arithmetic) with the invariant "accept only against the selected key". Each pair is verified natively over BLS12-377 with the recursion options and assigned to the in-circuit verifier over BW6-761; the outer circuit must be satisfiable (test engine) exactly when the native verifier accepts the triple against the selected key.',
             note='Two-chain BLS12-377 in BW6-761 only; emulated pairings not covered; the outer circuit is evaluated by the test engine, not proven; F22 (PLONK gadget has no subgroup check) open.', ref='6 C17 / 11.2'),
 'C18': dict(tech='TLA+ model of contribution chains (MpcSetup.tla) enumerated by TLC; every transcript replayed on the real mpcsetup package through serialization, verdicts and extracted keys compared',
             text='TLC enumerates, for both phases, circuits with 0, 1 or 2 commitments (and a phase-1 domain larger than needed) and 1-3 contributions, the transcripts a verifier may be handed: honest, one serialized element altered (every component x first/mid/last x double/negation/infinity, challenge bit flip), contributions swapped, dropped, duplicated, spliced from a second honest chain, a dishonest contributor binding its update proofs to a challenge of its own choosing, phase 2 checked against another phase-1 output or another circuit; the verdict is "every contribution unaltered and extending its predecessor". Each transcript goes through WriteTo / byte edit / ReadFrom / VerifyPhase1|2 of the real package on the curves; accepted phase-2 transcripts must give keys that prove, verify and reject other public inputs.',
             note='Knowledge soundness of the update proofs is an ideal rule; replacements are other valid group elements, not arbitrary bytes; small domains only.', ref='6 C18 / 11.2'),
 'C19': dict(tech='TLA+ generator and reference evaluation of GKR circuit topologies (GkrTopo.tla) run by TLC; topologies replayed through std/gkr on the real fields with the solving and proving hints perturbed',
             text='Every one-gate topology and simulated 2-4 gate topologies (add, sub, mul, neg, identity; fan-out; 1, 2, 4, 8 instances; series dependencies between instances, including patterns that force a solving order other than the declaration order: reverse chain and a 3-cycle) are evaluated directly over F_47 by TLC and replayed through std/gkr: exported values equal the direct evaluation in the test engine and in the compiled circuit proven with Groth16, a wrong exported value is rejected, and each output of the GKR solving hint and proving hint perturbed by one makes the proof fail.',
             note='Natively registered gates only (custom gates need an internal package); Fiat-Shamir hash MiMC; soundness of sum-check beyond single-output perturbations is a cryptographic assumption.', ref='6 C19 / 11.2'),
 'C20': dict(tech='TLA+ entropy-as-resource model of prover randomness (Blinding.tla) checked by TLC; every history replayed on the real provers with deterministic parts recomputed from the solved wires and keys',
             text='TLC checks on all histories of 2-3 proofs that every blinded element depends on a fresh symbol; each history (backend x circuits with 0-3 commitments x statistical ZK) is replayed on the real provers of the curves: Groth16 Ar/Bs and PLONK L/R/O are compared with the deterministic commitments recomputed from the captured wire values and the proving key, and all blinded elements (Ar, Bs, Krs, Pedersen commitments; L, R, O, Z, H shards, BSB22 commitments) pairwise across proofs of one witness.',
             note='Presence, freshness and non-degeneracy of blinding are decided, not statistical zero-knowledge; Z and the quotient shards are only compared across proofs.', ref='6 C20'),
}
NOT_APPLICABLE = []


def main():
    hooks_commits = []
    try:
        out = subprocess.run(['git', '-C', '/repo', 'log', '--format=%H %s'], stdout=subprocess.PIPE, text=True).stdout
        hooks_commits = [l.split()[0] for l in out.splitlines() if 'verif hook' in l]
    except Exception:
        pass
    m = {
        'version': 1,
        'setup_cmd': './tools/setup.sh',
        'hooks': {
            'guard': 'verif (Go build tag)',
            'enable': 'go build/test -tags verif (the harness in /verif/harness is always built with it)',
            'baseline_off_cmd': '/verif/tools/baseline_off.sh',
            'source_commits': hooks_commits,
            'add_only': True,
        },
        'engines': [
            {'name': 'tlc', 'path': 'specs/', 'serves_properties': sorted(CHECKS), 'kind_free_text': 'TLA+ specifications checked with TLC 1.8.0; behaviours exported as JSON'},
            {'name': 'verifh', 'path': 'harness/', 'serves_properties': sorted(CHECKS), 'kind_free_text': 'Go conformance harness: replays TLC behaviours on real gnark, records traces for TLC validation'},
        ],
        'checks': [],
        'notes': 'Every check: ./check <ID> quick|thorough. Exit 0 held / 1 VIOLATION / 2 infrastructure error (never a violation). See DESIGN.md.',
        'not_applicable': NOT_APPLICABLE,
    }
    for pid in sorted(CHECKS):
        c = CHECKS[pid]
        m['checks'].append({
            'property_id': pid,
            'quick_cmd': './check %s quick' % pid,
            'thorough_cmd': './check %s thorough' % pid,
            'evidence_file': '/verif/evidence/%s.json' % pid,
            'replay_cmd_template': './check %s quick --replay {path}' % pid,
            'engine': 'tlc+verifh',
            'level_claimed': {'category': c.get('cat', MC), 'text': c['text'], 'design_ref': c['ref']},
            'level_note': c['note'],
            'technique': c['tech'],
        })
    claimed = set(CHECKS)
    allp = [json.loads(l)['id'] for l in open(os.path.join(V, 'properties.jsonl'))]
    na = {n['property_id'] for n in NOT_APPLICABLE}
    for p in allp:
        if p not in claimed and p not in na:
            m['not_applicable'].append({'property_id': p, 'reason': 'check not built yet in this revision of /verif (planned, see DESIGN.md section 6)'})
    json.dump(m, open(os.path.join(V, 'MANIFEST.json'), 'w'), indent=1)
    print('MANIFEST.json written:', len(m['checks']), 'checks,', len(m['not_applicable']), 'not applicable')


if __name__ == '__main__':
    main()
