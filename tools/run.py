#!/usr/bin/env python3
"""Entry point: run.py <PROPERTY> <quick|thorough> [--replay file]"""
import importlib, os, sys, traceback
sys.path.insert(0, os.path.dirname(os.path.abspath(__file__)))
sys.path.insert(0, os.path.join(os.path.dirname(os.path.abspath(__file__)), '..', 'checks'))
import vlib


def main():
    if len(sys.argv) < 3:
        print('usage: check <ID> quick|thorough', file=sys.stderr)
        return 2
    pid, tier = sys.argv[1].upper(), sys.argv[2]
    tier = os.environ.get('VERIF_TIER', tier) if tier not in ('quick', 'thorough') else tier
    try:
        seed = int(os.environ.get('VERIF_SEED', '1'))
    except ValueError:
        seed = 1
    ctx = vlib.Ctx(pid, tier, seed)
    try:
        mod = importlib.import_module(pid.lower())
        mod.run(ctx)
        return ctx.finish()
    except vlib.Infra as e:
        print('INFRA-ERROR property=%s: %s' % (pid, e), file=sys.stderr)
        return 2
    except Exception:
        traceback.print_exc()
        print('INFRA-ERROR property=%s: unexpected exception in the checker' % pid, file=sys.stderr)
        return 2


if __name__ == '__main__':
    sys.exit(main())
