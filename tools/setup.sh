#!/bin/bash
# Builds the verification framework from files on disk only (offline).
set -e
cd "$(dirname "$0")/.."
export GOFLAGS=-mod=mod GOPROXY=off GOSUMDB=off GOTOOLCHAIN=local CGO_ENABLED=0
mkdir -p .build .scratch evidence replays
cp /repo/go.sum harness/go.sum
(cd harness && go build -tags verif -o ../.build/verifh ./cmd/verifh)
# syntax-check every specification
for f in specs/*.tla; do
  (cd specs && tla-sany "$(basename "$f")" > /dev/null) || { echo "SANY failed on $f"; exit 1; }
done
rm -rf specs/states specs/*.old 2>/dev/null || true
echo "setup ok"
