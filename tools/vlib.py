#!/usr/bin/env python3
"""Common machinery for the /verif checks: TLC runner, Go harness runner,
verdict discipline (VIOLATION / KNOWN-FINDING / infrastructure error) and evidence."""
import json, os, re, shutil, subprocess, sys, time, hashlib, random

VERIF = os.path.dirname(os.path.dirname(os.path.abspath(__file__)))
REPO = os.environ.get('VERIF_REPO', '/repo')
SPECS = os.path.join(VERIF, 'specs')
HARNESS = os.path.join(VERIF, 'harness')
BUILD = os.path.join(VERIF, '.build')
SCRATCH_ROOT = os.path.join(VERIF, '.scratch')

GOENV = dict(os.environ, GOFLAGS='-mod=mod', GOPROXY='off', GOSUMDB='off', GOTOOLCHAIN='local',
             CGO_ENABLED='0')


class Infra(Exception):
    """Infrastructure problem (build failure, TLC crash, timeout, model out of date):
    exit code 2, never a violation."""


def log(*a):
    print('[verif]', *a, file=sys.stderr, flush=True)


def sh(cmd, cwd=None, env=None, timeout=None, input=None, check=True):
    p = subprocess.run(cmd, cwd=cwd, env=env, timeout=timeout, input=input,
                       stdout=subprocess.PIPE, stderr=subprocess.PIPE, text=True)
    if check and p.returncode != 0:
        raise Infra('command failed (%d): %s\n%s\n%s' % (p.returncode, ' '.join(cmd), p.stdout[-4000:], p.stderr[-4000:]))
    return p


class TlcResult:
    def __init__(self):
        self.generated = 0
        self.distinct = 0
        self.output = ''
        self.beh = []            # decoded JSON behaviours printed by the spec
        self.status = 'unknown'  # ok | invariant | deadlock | error | postcondition | temporal
        self.violated = None
        self.coverage = {}
        self.wall = 0.0
        self.depth = 0


_BEH_RE = re.compile(r'^"BEH(.*)"$')


def _unescape_tla_string(s):
    out = []
    i = 0
    while i < len(s):
        c = s[i]
        if c == '\\' and i + 1 < len(s):
            n = s[i + 1]
            out.append({'n': '\n', 't': '\t', 'r': '\r', 'f': '\f'}.get(n, n))
            i += 2
        else:
            out.append(c)
            i += 1
    return ''.join(out)


def parse_tlc_output(out, res):
    for line in out.splitlines():
        m = _BEH_RE.match(line)
        if m:
            try:
                res.beh.append(json.loads(_unescape_tla_string(m.group(1))))
            except Exception as e:
                raise Infra('cannot decode behaviour line: %r (%s)' % (line[:200], e))
    m = None
    for m in re.finditer(r'(\d+) states generated, (\d+) distinct states found', out):
        pass
    if m:
        res.generated, res.distinct = int(m.group(1)), int(m.group(2))
    ms = re.search(r'The number of states generated: (\d+)', out)
    if ms and res.generated == 0:
        # simulation mode: states visited along the random behaviours
        res.generated = res.distinct = int(ms.group(1))
    m = re.search(r'The depth of the complete state graph search is (\d+)', out)
    if m:
        res.depth = int(m.group(1))
    if 'Model checking completed. No error has been found.' in out:
        res.status = 'ok'
    elif re.search(r'Invariant (\S+) is violated', out):
        res.status = 'invariant'
        res.violated = re.search(r'Invariant (\S+) is violated', out).group(1)
    elif re.search(r'The invariant of (\S+) is equal to FALSE', out):
        # an invariant that does not depend on the variables (a predicate over recorded constants) is false
        res.status = 'invariant'
        res.violated = re.search(r'The invariant of (\S+) is equal to FALSE', out).group(1)
    elif 'Deadlock reached' in out:
        res.status = 'deadlock'
    elif re.search(r'Action property (\S+) is violated', out):
        res.status = 'invariant'
        res.violated = re.search(r'Action property (\S+) is violated', out).group(1)
    elif 'Temporal properties were violated' in out:
        res.status = 'temporal'
    elif re.search(r'Postcondition \S+ .*is false|The postcondition .* violated|Postcondition .* violated', out, re.I):
        res.status = 'postcondition'
    elif 'Finished computing initial states' in out and 'Error' not in out and 'simulation' in out.lower():
        res.status = 'ok'
    else:
        res.status = 'error'
    # coverage lines:  <Action line 10, col 1 to line 12, col 20 of module M>: 12:34
    for m in re.finditer(r'^<(\w+) line \d+, col \d+ to line \d+, col \d+ of module (\w+)>: (\d+):(\d+)', out, re.M):
        res.coverage[m.group(2) + '.' + m.group(1)] = (int(m.group(3)), int(m.group(4)))
    return res


class Ctx:
    def __init__(self, pid, tier, seed):
        self.pid, self.tier, self.seed = pid, tier, seed
        self.t0 = time.time()
        self.rng = random.Random(seed)
        self.scratch = os.path.join(SCRATCH_ROOT, '%s-%s-%d' % (pid, tier, os.getpid()))
        shutil.rmtree(self.scratch, ignore_errors=True)
        os.makedirs(self.scratch)
        self.states = 0
        self.transitions = 0
        self.traces = 0
        self.evaluations = 0
        self.nontrivial_keys = set()
        self.samples = []
        self.violations = []      # (signature, detail, replay path)
        self.known_hits = []
        self.assumptions = []
        self.extra = {}
        self.exhaustive = None
        self.rule = ''
        self.tlc_runs = []
        self.level = 'model_checking'
        self._known = load_known_findings()

    # ---------- TLC ----------
    def tlc(self, module, cfg=None, *, workers=None, simulate=None, depth=None, timeout=900,
            extra_files=(), coverage=False, defines=None, expect=('ok',), deadlock=None,
            view_note=None, count=True, heap=None, dfs=False):
        """Run TLC on specs/<module>.tla with specs/<cfg> (default <module>.cfg) in a scratch dir.
        extra_files: {name: content} written next to the specs (generated constants, traces).
        defines: dict of CONSTANT overrides appended to a copy of the cfg (name -> TLA+ expr)."""
        d = os.path.join(self.scratch, 'tlc-%d' % len(self.tlc_runs))
        os.makedirs(d)
        for f in os.listdir(SPECS):
            if f.endswith('.tla') or f.endswith('.cfg'):
                shutil.copy(os.path.join(SPECS, f), d)
        if isinstance(extra_files, dict):
            for name, content in extra_files.items():
                with open(os.path.join(d, name), 'w') as fh:
                    fh.write(content)
        cfg = cfg or (module + '.cfg')
        if defines:
            with open(os.path.join(d, cfg)) as fh:
                c = fh.read()
            c += '\nCONSTANTS\n' + ''.join('  %s = %s\n' % (k, v) for k, v in defines.items())
            cfg = 'gen_' + cfg
            with open(os.path.join(d, cfg), 'w') as fh:
                fh.write(c)
        if workers is None:
            workers = 'auto'
        cmd = ['tlc', '-metadir', os.path.join(d, 'meta'), '-config', cfg, '-workers', str(workers), '-noTE']
        if simulate:
            cmd += ['-simulate', 'num=%d' % simulate, '-seed', str(self.seed)]
        if depth:
            cmd += ['-depth', str(depth)]
        if coverage:
            cmd += ['-coverage', '1']
        if deadlock is False:
            cmd += ['-deadlock']   # -deadlock disables deadlock checking
        cmd += [module + '.tla']
        env = dict(os.environ)
        jopts = ['-Xss64m']
        if heap:
            jopts.append('-Xmx%s' % heap)
        if dfs:
            jopts.append('-Dtlc2.tool.queue.IStateQueue=StateDeque')
        env['JAVA_TOOL_OPTIONS'] = ' '.join(jopts)
        t = time.time()
        try:
            p = subprocess.run(cmd, cwd=d, env=env, timeout=timeout, stdout=subprocess.PIPE,
                               stderr=subprocess.STDOUT, text=True)
        except subprocess.TimeoutExpired:
            subprocess.run(['pkill', '-f', 'metadir %s' % d])
            raise Infra('TLC timeout after %ds on %s/%s' % (timeout, module, cfg))
        res = TlcResult()
        res.output = p.stdout
        res.wall = time.time() - t
        parse_tlc_output(p.stdout, res)
        if simulate and res.status == 'error' and 'Error' not in p.stdout and p.returncode == 0:
            res.status = 'ok'
        res.returncode = p.returncode
        with open(os.path.join(d, 'tlc.out'), 'w') as fh:
            fh.write(p.stdout)
        self.tlc_runs.append({'module': module, 'cfg': cfg, 'status': res.status, 'generated': res.generated,
                              'distinct': res.distinct, 'behaviours': len(res.beh), 'wall_s': round(res.wall, 2),
                              'mode': 'simulate' if simulate else 'exhaustive'})
        if count:
            self.states += res.distinct
            self.transitions += res.generated
        if res.status not in expect:
            tail = '\n'.join(p.stdout.splitlines()[-60:])
            raise Infra('TLC on %s/%s ended with status %s (expected %s)\n%s' % (module, cfg, res.status, expect, tail))
        log('tlc %s/%s: %s, %d generated / %d distinct, %d behaviours, %.1fs' % (
            module, cfg, res.status, res.generated, res.distinct, len(res.beh), res.wall))
        return res

    # ---------- Go harness ----------
    def build_harness(self):
        return build_harness()

    def harness(self, args, input_obj=None, timeout=1800, env_extra=None, check=True, crash_ok=False):
        """Run the harness binary; input_obj (list of JSON values) is written as ndjson to a file
        passed via --in; returns list of decoded ndjson output records."""
        exe = build_harness()
        inp = None
        if input_obj is not None:
            inp = os.path.join(self.scratch, 'in-%d.ndjson' % int(time.time() * 1e6))
            with open(inp, 'w') as fh:
                for o in input_obj:
                    fh.write(json.dumps(o) + '\n')
            args = list(args) + ['--in', inp]
        outp = os.path.join(self.scratch, 'out-%d.ndjson' % int(time.time() * 1e6))
        args = list(args) + ['--out', outp, '--seed', str(self.seed)]
        env = dict(GOENV)
        env['GOMAXPROCS'] = str(os.cpu_count() or 8)
        if env_extra:
            env.update(env_extra)
        t = time.time()
        try:
            p = subprocess.run([exe] + args, cwd=self.scratch, env=env, timeout=timeout,
                               stdout=subprocess.PIPE, stderr=subprocess.PIPE, text=True)
        except subprocess.TimeoutExpired:
            raise Infra('harness timeout after %ds: %s' % (timeout, ' '.join(args)))
        self.last_crash = None
        if p.returncode != 0:
            crash = crash_summary(p.stderr)
            if crash and crash_ok:
                # the real code brought the process down (panic in a goroutine nobody can recover, fatal error)
                self.last_crash = crash
            elif check:
                raise Infra('harness failed (%d): %s\n%s\n%s' % (p.returncode, ' '.join(args), p.stdout[-3000:], p.stderr[-6000:]))
        recs = []
        if os.path.exists(outp):
            with open(outp) as fh:
                for line in fh:
                    line = line.strip()
                    if line:
                        recs.append(json.loads(line))
        log('harness %s: %d records, %.1fs' % (' '.join(args[:3]), len(recs), time.time() - t))
        self.last_harness = p
        return recs

    # ---------- verdicts ----------
    def case(self, key=None, nontrivial=False):
        self.evaluations += 1
        if nontrivial and key is not None:
            self.nontrivial_keys.add(key if isinstance(key, str) else json.dumps(key, sort_keys=True))

    def sample(self, obj, limit=6):
        if len(self.samples) < limit:
            self.samples.append(obj)

    def report(self, signature, detail):
        """A discrepancy reproduced on the real code. Matched against known findings."""
        for k in self._known:
            if k.get('property') == self.pid and k.get('status') == 'open' and re.search(k['match'], signature):
                if (k['id'], signature) not in [(h[0], h[1]) for h in self.known_hits]:
                    self.known_hits.append((k['id'], signature, k['what']))
                return False
        os.makedirs(os.path.join(VERIF, 'replays', self.pid), exist_ok=True)
        h = hashlib.sha1((signature + json.dumps(detail, sort_keys=True, default=str)).encode()).hexdigest()[:10]
        path = os.path.join(VERIF, 'replays', self.pid, '%s.json' % h)
        with open(path, 'w') as fh:
            json.dump({'property': self.pid, 'signature': signature, 'detail': detail, 'seed': self.seed,
                       'tier': self.tier}, fh, indent=1, default=str)
        self.violations.append((signature, detail, path))
        return True

    def finish(self):
        cov = {
            'states': self.states,
            'transitions': self.transitions,
            'traces_validated_against_impl': self.traces,
            'samples': self.samples if self.samples else ['(no sample recorded)'],
            'evaluations': max(self.evaluations, 0),
            'distinct_nontrivial': len(self.nontrivial_keys),
            'rule': self.rule,
            'tlc_runs': self.tlc_runs,
            'known_findings_hit': [{'id': a, 'signature': b} for a, b, _ in self.known_hits],
        }
        if self.exhaustive is not None:
            cov['exhaustive'] = bool(self.exhaustive)
        cov.update(self.extra)
        ev = {
            'property_id': self.pid, 'tier': self.tier, 'seed': self.seed, 'level': self.level,
            'coverage': cov, 'assumptions': self.assumptions,
            'wall_s': round(time.time() - self.t0, 2), 'violations': len(self.violations),
        }
        os.makedirs(os.path.join(VERIF, 'evidence'), exist_ok=True)
        with open(os.path.join(VERIF, 'evidence', self.pid + '.json'), 'w') as fh:
            json.dump(ev, fh, indent=1, default=str)
        seen = set()
        for kid, sig, what in self.known_hits:
            if kid in seen:
                continue
            seen.add(kid)
            print('KNOWN-FINDING: property=%s %s [%s]' % (self.pid, what, kid))
        for sig, detail, path in self.violations[:20]:
            print('VIOLATION property=%s replay=%s' % (self.pid, path))
            print('  signature: %s' % sig)
        shutil.rmtree(self.scratch, ignore_errors=True)
        return 1 if self.violations else 0


def crash_summary(stderr):
    """First panic / fatal error line of a crashed Go process, with the first gnark frame - None if the crash
    is not attributable to gnark code (then it is an infrastructure problem)."""
    m = re.search(r'^(panic: .*|fatal error: .*)$', stderr, re.M)
    if not m:
        return None
    frames = re.findall(r'^(github\.com/consensys/gnark[^\s(]*)', stderr[m.start():], re.M)
    frames = [f for f in frames if 'verifhook' not in f]
    if not frames:
        return None
    return '%s @ %s' % (m.group(1)[:160], frames[0])


def load_known_findings():
    p = os.path.join(VERIF, 'known_findings.json')
    if not os.path.exists(p):
        return []
    with open(p) as fh:
        return json.load(fh).get('findings', [])


_built = None


def build_harness(force=False):
    """Builds the Go harness against /repo's current working tree with -tags verif."""
    global _built
    if _built and not force:
        return _built
    os.makedirs(BUILD, exist_ok=True)
    exe = os.path.join(BUILD, 'verifh')
    shutil.copy(os.path.join(REPO, 'go.sum'), os.path.join(HARNESS, 'go.sum'))
    t = time.time()
    p = subprocess.run(['go', 'build', '-tags', 'verif', '-o', exe, './cmd/verifh'], cwd=HARNESS, env=GOENV,
                       stdout=subprocess.PIPE, stderr=subprocess.STDOUT, text=True)
    if p.returncode != 0:
        raise Infra('harness build failed:\n' + p.stdout[-8000:])
    log('harness built in %.1fs' % (time.time() - t))
    _built = exe
    return exe


def tla(v):
    """Python value -> TLA+ literal (dict -> record, list -> sequence, bool, int, str)."""
    if isinstance(v, bool):
        return 'TRUE' if v else 'FALSE'
    if isinstance(v, int):
        return str(v)
    if isinstance(v, str):
        return '"%s"' % v.replace('\\', '\\\\').replace('"', '\\"')
    if isinstance(v, (list, tuple)):
        return '<<' + ', '.join(tla(x) for x in v) + '>>'
    if isinstance(v, dict):
        return '[' + ', '.join('%s |-> %s' % (k, tla(x)) for k, x in v.items()) + ']'
    if v is None:
        return '<<>>'
    raise TypeError('cannot convert %r' % (v,))


def tla_set(items):
    return '{' + ',\n   '.join(items) + '}'
