#!/bin/bash
# usage: confirm_mutant.sh <outdir(with patch.diff + demo *_test.go)> <demo pkg dir rel. to repo> <demo test regex> "<existing test cmd args>"
# Confirms in a scratch worktree: patch applies, builds, existing tests pass, demo fails with / passes without the change.
export GOFLAGS=-mod=mod GOPROXY=off GOSUMDB=off GOTOOLCHAIN=local
OUT=$1; PKG=$2; RUN=$3; EXISTING=$4
WT=/tmp/confirm_wt_$$
git -C /repo worktree add -q $WT HEAD || exit 2
cd $WT
res() { echo "$1"; cd /; git -C /repo worktree remove --force $WT; exit $2; }
git apply $OUT/patch.diff || res "PATCH-DOES-NOT-APPLY" 1
go build ./... || res "BUILD-FAILS" 1
if [ -n "$EXISTING" ]; then
  go test -count=1 -p 8 -timeout 900s $EXISTING > $OUT/confirm_existing.txt 2>&1 || { tail -5 $OUT/confirm_existing.txt; res "EXISTING-TESTS-FAIL" 1; }
fi
cp $OUT/*_test.go $PKG/ 2>/dev/null
go test -count=1 -timeout 600s -run "$RUN" ./$PKG/ > $OUT/confirm_demo_with.txt 2>&1; W=$?
git checkout -q -- . ; 
go test -count=1 -timeout 600s -run "$RUN" ./$PKG/ > $OUT/confirm_demo_without.txt 2>&1; WO=$?
if [ $W -ne 0 ] && [ $WO -eq 0 ]; then res "CONFIRMED (demo fails with change, passes without)" 0; else res "DEMO-NOT-DISCRIMINATING with=$W without=$WO" 1; fi
