#!/usr/bin/env python3
"""Rewrites the generated tables of DESIGN.md (between <!-- X-BEGIN --> / <!-- X-END --> markers):
FINDINGS from known_findings.json, SEEDED from seeded/*/meta.json."""
import glob
import json
import os
import re

V = os.path.dirname(os.path.dirname(os.path.abspath(__file__)))


def block(s, name, body):
    a, b = '<!-- %s-BEGIN -->' % name, '<!-- %s-END -->' % name
    if a not in s:
        raise SystemExit('marker %s missing in DESIGN.md' % name)
    return s[:s.index(a) + len(a)] + '\n' + body + '\n' + s[s.index(b):]


def main():
    p = os.path.join(V, 'DESIGN.md')
    s = open(p).read()
    k = json.load(open(os.path.join(V, 'known_findings.json')))['findings']
    rows = ['| id | property | status | what |', '|---|---|---|---|']
    for f in k:
        st = f['status'] + (' ' + f['commit'] if f.get('commit') else '')
        what = re.sub(r'^fixed: property=\S+ \S+ ', '', f['what']).replace('|', '\\|')
        rows.append('| %s | %s | %s | %s |' % (f['id'], f['property'], st, what))
    s = block(s, 'FINDINGS', '\n'.join(rows))
    rows = ['| seeded change | breaks | what it does | needs | detected by |', '|---|---|---|---|---|']
    for d in sorted(glob.glob(os.path.join(V, 'seeded', '*'))):
        m = json.load(open(os.path.join(d, 'meta.json')))
        c = lambda x: str(x).replace('|', '\\|').replace('\n', ' ')
        rows.append('| %s | %s | %s | %s | %s |' % (m['id'], m['breaks_property'], c(m['summary'])[:200], c(m['needs_to_manifest'])[:120], c(m['detected_by'])[:220]))
    s = block(s, 'SEEDED', '\n'.join(rows))
    open(p, 'w').write(s)
    print('DESIGN.md tables regenerated:', len(k), 'findings,', len(rows) - 2, 'seeded changes')


if __name__ == '__main__':
    main()
