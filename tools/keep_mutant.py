#!/usr/bin/env python3
"""keep_mutant.py <src outdir> <seeded id> <property> <caught-by> <needs> :
packages a confirmed seeded change under /verif/seeded/<id>/ (patch.diff, demonstration, notes, meta.json)."""
import glob
import json
import os
import shutil
import sys

src, sid, prop, caught, needs = sys.argv[1:6]
dst = os.path.join('/verif/seeded', sid)
os.makedirs(dst, exist_ok=True)
shutil.copy(os.path.join(src, 'patch.diff'), dst)
for f in glob.glob(os.path.join(src, '*_test.go')) + glob.glob(os.path.join(src, 'notes.md')):
    shutil.copy(f, os.path.join(dst, os.path.basename(f) + ('.txt' if f.endswith('.go') else '')))
notes = open(os.path.join(src, 'notes.md')).read() if os.path.exists(os.path.join(src, 'notes.md')) else ''
first = next((l.strip('# ').strip() for l in notes.splitlines() if l.strip()), '')
meta = {
    'id': sid, 'breaks_property': prop, 'summary': first[:300], 'needs_to_manifest': needs,
    'confirmed': 'tools/confirm_mutant.sh in a scratch worktree: patch applies to /repo HEAD, go build ./... ok, existing tests of '
                 'the touched packages pass, the demonstration (the *_test.go.txt file, to be copied into the package named in notes.md) '
                 'fails with the change and passes without it',
    'detected_by': caught,
    'how_run': 'git -C /repo apply /verif/seeded/%s/patch.diff; ./check %s quick; git -C /repo checkout -- .' % (sid, prop),
}
json.dump(meta, open(os.path.join(dst, 'meta.json'), 'w'), indent=1)
print('kept', sid)
