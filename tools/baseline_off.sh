#!/bin/bash
# Runs the repository's pinned test suite with the `verif` build tag OFF and compares
# the set of passing tests with /root/.vp/BASELINE.json (stable_pass).
export GOFLAGS=-mod=mod GOPROXY=off GOSUMDB=off GOTOOLCHAIN=local
OUT=${1:-/verif/.scratch/baseline}
mkdir -p "$OUT"
cd /repo && go test -mod=mod -json -vet=off -count=1 -timeout 60m ./... > "$OUT/gotest.json" 2> "$OUT/gotest.err"
python3 - "$OUT/gotest.json" <<'PY'
import json,sys
passed=set(); failed=set()
for l in open(sys.argv[1]):
    try: e=json.loads(l)
    except Exception: continue
    if e.get('Test') and e.get('Action') in('pass','fail'):
        k=e['Package']+'::'+e['Test']
        (passed if e['Action']=='pass' else failed).add(k)
b=json.load(open('/root/.vp/BASELINE.json'))
want=set(b['stable_pass'])
missing=sorted(want-passed)
print('passed',len(passed),'failed',len(failed),'baseline',len(want),'missing',len(missing))
for m in missing[:50]: print('MISSING',m)
for f in sorted(failed)[:50]: print('FAILED',f)
sys.exit(1 if missing else 0)
PY
