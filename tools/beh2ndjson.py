#!/usr/bin/env python3
"""beh2ndjson.py <tlc-output> <out.ndjson>: extracts the BEH lines of a TLC run (development helper)."""
import json, sys
sys.path.insert(0, '/verif/tools')
import vlib
B = []
for line in open(sys.argv[1]):
    m = vlib._BEH_RE.match(line.rstrip('\n'))
    if m:
        B.append(json.loads(vlib._unescape_tla_string(m.group(1))))
for i, b in enumerate(B):
    b['id'] = i
open(sys.argv[2], 'w').write('\n'.join(json.dumps(b) for b in B) + '\n')
print(len(B))
